#!/usr/bin/env python3
"""Diagnostic (not a check): merges Go cover profiles written under $VERIF_COVER by harness runs and lists the statements of the
given /repo files that no check exercised - blind spots of the generators.   usage: coverage.py <dir> <file substring>..."""
import glob, os, re, sys


def main():
    d, wanted = sys.argv[1], sys.argv[2:]
    hit = {}
    for f in glob.glob(os.path.join(d, "*.out")):
        for line in open(f):
            m = re.match(r"(\S+):(\d+)\.(\d+),(\d+)\.(\d+) (\d+) (\d+)", line)
            if not m:
                continue
            key = (m.group(1), int(m.group(2)), int(m.group(4)))
            hit[key] = hit.get(key, 0) + int(m.group(7))
    files = sorted({k[0] for k in hit})
    for fn in files:
        if wanted and not any(w in fn for w in wanted):
            continue
        blocks = [(k[1], k[2], v) for k, v in hit.items() if k[0] == fn]
        tot, cov = len(blocks), sum(1 for b in blocks if b[2] > 0)
        print("%s: %d/%d blocks covered" % (fn, cov, tot))
        path = os.path.join(os.environ.get("VERIF_REPO", "/repo"), fn.split("github.com/gethiox/HIDI/")[-1])
        src = open(path).read().split("\n") if os.path.exists(path) else []
        for a, b, v in sorted(blocks):
            if v == 0:
                print("   uncovered %d-%d: %s" % (a, b, (src[a - 1].strip() if a - 1 < len(src) else "")[:110]))


if __name__ == "__main__":
    main()
