"""C07: bidirectional CC."""
import itertools
from common import *
import devgen, agen
from agen import bits
from devprop import DevProp

LEARN = 68
PANIC = 67      # other actions do not touch the controllers: a panic tap between two positions (it sends All Notes Off and Note Offs only)


def a(code, val, sub=""):
    return {"t": "a", "sub": sub, "code": code, "val": val}


SUBS = ["", "Touchpad", "Motion Sensors"]


def k(code, val):
    return {"t": "k", "sub": "", "code": code, "val": val}


def positions(mn, mx, dzc):
    """named raw positions: far-, near-, centre, near+, far+ (in the axis' own raw units)"""
    if mn < 0:
        return {"far-": mn, "half-": int(mn * 0.6), "near-": int(mn * 0.2) or -1, "c": 0, "near+": int(mx * 0.2) or 1, "half+": int(mx * 0.6), "far+": mx}
    mid = (mn + mx) // 2
    span = mx - mn
    return {"far-": mn, "half-": mn + int(span * 0.2), "near-": mid - max(1, int(span * 0.1)), "c": mid if span % 2 == 0 else mid,
            "near+": mid + 1 + max(1, int(span * 0.1)), "half+": mn + int(span * 0.8), "far+": mx}


class C07(DevProp):
    pid = "C07"
    imports = "Model.AnalogF Run.AnalogRun"
    case_type = "c07case"
    fail_term = "c07_failures k"
    mis_term = "c07_mismatch k"
    nontrivial_term = "c07_crossed k"
    monitor_name = ("C07 monitor (receiver-side: after every event at most one controller of each pair is non-zero; a non-zero controller being left "
                    "is 0 after the step that writes its partner)")
    correspondence_name = "C07 view (receiver-side values of all pair controllers after every event)"
    rule = ("1-3 bidirectional axes (signed 8/16-bit, and unsigned with deadzone_at_center) with distinct controller numbers and channel offsets, plus "
            "a unidirectional one; position scripts over {far-, half-, near-, centre, near+, half+, far+} containing every ordered pair (direct "
            "jumps across the centre, exact centre), CC-learning pressed/released at random points; non-trivial = distinct cases in which a side "
            "was left while non-zero")

    def emit(self, case, res):
        ps = clist(["((%d, %d), (%d, %d))" % (p[0], p[1], p[2], p[3]) for p in case["pairs"]])
        return "(Build_c07case %s %s)" % (ps, agen.emit_acase(case, res))

    def evaluate(self, cases, results, tag):
        import math, devrun
        evals = [("FAIL", "enum_fail (fun k => %s) 0 cases" % self.fail_term),
                 ("MIS", "enum_some (fun k => %s) 0 cases" % self.mis_term),
                 ("NT", "enum_true (fun k => %s) 0 cases" % self.nontrivial_term)]
        n = max(3, min(20, math.ceil(len(cases) / 8)))
        return devrun.eval_shards(cases, results, evals, imports=self.imports, shard=n, emit=self.emit, case_type=self.case_type, tag=tag)

    def gen(self, rng, tier):
        cases = []
        n = 40 if tier == "quick" else 1500
        names = ["far-", "half-", "near-", "c", "near+", "half+", "far+"]
        allpairs = list(itertools.permutations(names, 2))
        for ci in range(n):
            naxes = rng.choice([1, 2, 3])
            analogs, absl, pairs, axinfo = [], [], [], []
            ch0 = rng.randint(1, 16)
            ccs = rng.sample(range(0, 120), 2 * naxes + 1)
            same_code = (ci % 3 == 0) and naxes >= 2      # the same ABS code on different sub-handlers (as on the PS4 controller)
            for i in range(naxes):
                code = agen.ABS_X if same_code else [agen.ABS_X, agen.ABS_Y, agen.ABS_RX][i]
                sub = SUBS[i] if same_code else ""
                # "u8" / "u10": unsigned bidirectional axes WITHOUT deadzone_at_center (the pair is split at half scale)
                kind = rng.choice(["s8", "s16", "u8c", "u16c", "u8", "u10"])
                mn, mx = {"s8": (-128, 127), "s16": (-32768, 32767), "u8c": (0, 255), "u16c": (0, 65535), "u8": (0, 255), "u10": (0, 1024)}[kind]
                off, offneg = rng.choice([0, 0, 3, 15]), rng.choice([0, 0, 7])
                if same_code:
                    kind = ["s8", "u8c", "s8"][i] if i else kind      # one AbsInfo per code: keep ranges compatible
                    mn, mx = (-128, 127) if not kind.endswith("c") else (0, 255)
                    if i and (mn, mx) != (absl[0]["min"], absl[0]["max"]):
                        mn, mx = absl[0]["min"], absl[0]["max"]
                        kind = "u8c" if mn == 0 else "s8"
                an = agen.analog(code, "cc", sub=sub, cc=ccs[2 * i], ccneg=ccs[2 * i + 1], off=off, offneg=offneg, flip=rng.random() < 0.3,
                                 bidi=True, dzc=kind.endswith("c"))
                analogs.append(an)
                if not (same_code and i):
                    absl.append({"code": code, "min": mn, "max": mx})
                pairs.append((ccs[2 * i], (ch0 - 1 + off) % 16, ccs[2 * i + 1], (ch0 - 1 + offneg) % 16))
                axinfo.append((code, positions(mn, mx, kind.endswith("c")), sub))
            # one unidirectional axis sharing the device
            analogs.append(agen.analog(agen.ABS_Z, "cc", cc=ccs[-1], off=1))
            absl.append({"code": agen.ABS_Z, "min": 0, "max": 255})
            dz = rng.choice([0.0, 0.1, 0.25])
            cfg = agen.base_cfg(analogs, defdz=[{"sub": sb, "bits": str(bits(dz))} for sb in SUBS],
                                actions=[{"code": LEARN, "action": "cc_learning"}, {"code": PANIC, "action": "panic"}], cmode=devgen.CMODES[ci % 4], channel=ch0)
            ev = []
            learning = False
            script = list(allpairs)
            rng.shuffle(script)
            script = script[: (14 if tier == "quick" else 42)]
            for (p, q) in script:
                code, pos, sub = rng.choice(axinfo)
                if same_code and rng.random() < 0.5:
                    # interleave two axes that share the code: B to one side, A to the other, B again
                    code2, pos2, sub2 = rng.choice(axinfo)
                    ev += [a(code, pos[p], sub), a(code2, pos2[q], sub2), a(code, pos[q], sub)]
                else:
                    ev += [a(code, pos[p], sub), a(code, pos[q], sub)]
                if rng.random() < 0.25:
                    ev.append(a(agen.ABS_Z, rng.randint(0, 255)))
                if rng.random() < 0.2:
                    learning = not learning
                    ev.append(k(LEARN, 1 if learning else 0))
                if rng.random() < 0.15:
                    ev += [k(PANIC, 1), k(PANIC, 0)]
            if learning:
                ev.append(k(LEARN, 0))
            for code, pos, sub in axinfo:
                ev += [a(code, pos["far+"], sub), a(code, pos["far-"], sub), a(code, pos["c"], sub)]
            for code, pos, sub in axinfo:
                ev += [a(code, pos["far+"], sub), k(PANIC, 1), k(PANIC, 0), a(code, pos["far-"], sub), k(PANIC, 1), k(PANIC, 0), a(code, pos["half+"], sub),
                       a(code, pos["c"], sub)]
            # the smallest possible crossings of the centre: from one or two raw steps on one side directly to the other side / onto it
            for code, pos, sub in axinfo:
                mnx, mxx = [(x["min"], x["max"]) for x in absl if x["code"] == code][0]
                cands = [0] if mnx < 0 else sorted({(mnx + mxx) // 2, (mnx + mxx + 1) // 2})
                for c0 in cands:
                    for (x, y, z) in ((mxx, c0 + 1, c0 - 1), (mnx, c0 - 1, c0 + 1), (mxx, c0 + 1, c0), (mnx, c0 - 1, c0), (mxx, c0 + 2, c0 - 1),
                                      (mnx, c0 - 2, c0 + 1), (mxx, c0 + 1, c0 - 2), (mnx, c0 - 1, c0 + 2)):
                        ev += [a(code, v, sub) for v in (x, y, z) if mnx <= v <= mxx]
            cases.append({"cfg": cfg, "abs": absl, "events": ev, "pairs": pairs, "tag": "%d-axes" % naxes})
        return cases

    def report_case(self, run_, binary, case, what, steps=None, shrink=True, no_input=False):
        DevProp.report_case(self, run_, binary, case, what, steps=steps, shrink=shrink, no_input=no_input)


def run(run_):
    C07().run(run_)


def replay(run_, data):
    p = C07()
    case = data["replay"].get("case")
    p.run(run_, cases=[case] if case else None)
