"""C20: device discovery groups handlers into devices independently of order.

Real input.Normalize / DeviceInfo.HandlerType (Go overlay harness, package input) on synthetic handler lists:
every ordering of sampled multisets of up to 5 handlers, random longer multisets in several orders, and every subset
of the nine relevant EV_* types through HandlerType.  Each observed result is judged inside Coq (vm_compute) by the
monitor grouping_okb (the predicate of C20_monitor / C20_monitor_implies, independent of the model's normalize), compared
with the model's normalize through view_eqb (C20_view) and with handler_type; order-freedom of the implementation is
additionally observed directly by comparing the views of all orderings of one multiset."""
import collections, itertools, math, random
from common import *

EV_SYN, EV_KEY, EV_REL, EV_ABS, EV_MSC, EV_SW, EV_LED, EV_SND, EV_REP, EV_FF = 0, 1, 2, 3, 4, 5, 0x11, 0x12, 0x14, 0x15
EV_NAMES = ["EV_SYN", "EV_KEY", "EV_REL", "EV_ABS", "EV_MSC", "EV_SW", "EV_LED", "EV_SND", "EV_REP", "EV_FF"]
EV_GO = [EV_SYN, EV_KEY, EV_REL, EV_ABS, EV_MSC, EV_SW, EV_LED, EV_SND, EV_REP, EV_FF]   # go-evdev codes.go
# the eight types HandlerType mentions plus one it does not
UNIVERSE = [EV_SYN, EV_KEY, EV_REL, EV_ABS, EV_MSC, EV_LED, EV_REP, EV_FF, EV_SW]
# the capability sets of HandlerType's switch, in source order
EXACT = [
    [EV_SYN, EV_KEY, EV_MSC, EV_LED, EV_REP],                   # STD_KBD
    [EV_SYN, EV_KEY, EV_REL, EV_ABS, EV_MSC, EV_LED, EV_REP],   # STD_KBD (and, unreachable, MOUSE)
    [EV_SYN, EV_KEY, EV_MSC, EV_REP],                           # NKRO_KBD
    [EV_SYN, EV_KEY, EV_REL, EV_MSC],                           # MOUSE
    [EV_SYN, EV_KEY, EV_MSC],                                   # SYSTEM
    [EV_SYN, EV_KEY, EV_REL, EV_ABS, EV_MSC],                   # MULTIMEDIA
]
HT_NAMES = ["UNKNOWN", "STD_KBD", "NKRO_KBD", "MULTIMEDIA", "SYSTEM", "MOUSE", "JOYSTICK"]
DT_NAMES = ["Unknown", "Keyboard", "Mouse", "Joystick"]

# physical locations: realistic ones, near-collisions (prefix, case, trailing blank, empty, blank), non-UTF-8 bytes
PHYS_POOL = [b"u1", b"u2", b"u3", b"u4", b"u5", b"u6", b"", b" ", b"u1 ", b"U1", b"u", b"u1/input0", b"u1/input1", b"u01", b"u-1.4", b"u-1.04",
             b"usb-0000:00:14.0-1/input0", b"usb-0000:00:14.0-1/input1", b"usb-0000:00:14.0-1", b"usb-0000:00:14.0-2/input0",
             b"isa0060/serio0/input0", b"\xff\x00", b"\xff", b"\x00", b"u\xc3\xa9", b"u\xe9"]


def gen_caps(rng):
    r = rng.random()
    if r < 0.55:
        caps = list(EXACT[rng.choice([0, 0, 0, 1, 2, 2, 3, 3, 3, 4, 4, 5])])
    elif r < 0.75:                       # near miss: one type more or one less
        caps = list(EXACT[rng.choice([0, 0, 1, 2, 3, 3, 4, 5])])
        if rng.random() < 0.5:
            caps.append(rng.choice([t for t in UNIVERSE + [EV_SND] if t not in caps]))
        else:
            caps.remove(rng.choice(caps))
    elif r < 0.87:                       # joystick-ish
        caps = [t for t in UNIVERSE if rng.random() < 0.4]
        caps.append(rng.choice([EV_ABS, EV_FF]))
        caps = sorted(set(caps), key=UNIVERSE.index)
    else:
        caps = [t for t in UNIVERSE if rng.random() < (0.15 if t in (EV_ABS, EV_FF) else 0.5)]
    if rng.random() < 0.5:
        rng.shuffle(caps)
    if caps and rng.random() < 0.3:      # repeated entries
        for _ in range(rng.randint(1, 3)):
            caps.insert(rng.randrange(len(caps) + 1), rng.choice(caps))
    return caps


UNIQ_POOL = ["", "", "", "input0", "input1", "aa:bb:cc:dd:ee:ff", "11:22:33:44:55:66", "u1", "/input0", "0", " "]
BUS_POOL = [0, 0, 0, 3, 5, 5, 5, 6, 0x11, 0x18, 0x19, 1, 0xffff]


def gen_multiset(rng, n):
    hs = gen_multiset0(rng, n)
    # the other descriptive fields of a handler (bus, unique id string, sysfs path, properties) vary freely: handlers of one location that
    # differ in them, handlers of different locations that agree in them, and strings that, glued to a location, spell another location
    if rng.random() < 0.7:
        bt = rng.random() < 0.5        # a family dominated by Bluetooth handlers (all report the adapter address as location)
        for h in hs:
            h["bus"] = 5 if bt and rng.random() < 0.8 else rng.choice(BUS_POOL)
            h["uniq"] = rng.choice(UNIQ_POOL)
            h["sysfs"] = rng.choice(["", "", "/devices/pci0000:00/usb1/1-%d" % rng.randrange(3), "/devices/virtual/input/input%d" % rng.randrange(40)])
            h["props"] = rng.sample([0, 1, 2, 3, 4, 5, 6], rng.randrange(0, 3))
    return hs


def gen_multiset0(rng, n):
    """n handlers with pairwise distinct ids; physical locations drawn from k <= n pool entries."""
    k = rng.randint(1, max(1, min(n, 6)))
    if n >= 9 and rng.random() < 0.5:    # many physical locations (growth thresholds of internal tables: 8, 16, 32), handlers interleaved
        k = rng.randint(7, min(n, 40))
        pool = PHYS_POOL + [b"hub%d-port%d" % (i // 4, i % 4) for i in range(30)]
        phys = rng.sample(pool, min(k, len(pool)))
        ids = rng.sample(range(1, 1000), n)
        evs = [0] * n
        hs = [{"id": ids[i], "phys": list(phys[i % len(phys)] if i < len(phys) * 2 else rng.choice(phys)), "caps": gen_caps(rng), "ev": evs[i],
               "hw": rng.choice([0, 1, 1, 2, 3])} for i in range(n)]
        rng.shuffle(hs)
        return hs
    if rng.random() < 0.3:               # confusable locations
        # locations that some coarser comparison would identify: case, white space, zero padding of numbers (natural order), a trailing
        # separator, prefixes, Unicode look-alikes
        base = [b"u1", b"u1 ", b"U1", b"u", b"u1/input0", b"u1/input1", b"", b" ", b"u01", b"u001", b"u1/", b"u-1.4", b"u-1.04", b"u-1.40",
                b"usb-0000:00:14.0-1.4/input0", b"usb-0000:00:14.0-1.04/input0", b"\xef\xbd\x951", b"u\xc2\xa01", b"u1\x00"]
        phys = rng.sample(base, min(k, len(base)))
    else:
        phys = rng.sample(PHYS_POOL, min(k, len(PHYS_POOL)))
    ids = rng.sample(range(1, 1000), n)
    # event-node names and hardware ids come from small pools (interfaces of a composite device share the id; nodes are re-used after
    # a re-plug): over a run one process sees the same (node, hardware id) with different capabilities - the result may not depend on it
    evs = rng.sample(range(1, 13), n) if n <= 12 and rng.random() < 0.8 else [0] * n
    hs = [{"id": ids[i], "phys": list(rng.choice(phys)), "caps": gen_caps(rng), "ev": evs[i], "hw": rng.choice([0, 1, 1, 2, 3])} for i in range(n)]
    if n >= 2 and rng.random() < 0.5:    # make sure something is shared
        hs[1]["phys"] = list(hs[0]["phys"])
    return hs


def generate(rng, tier):
    """-> list of families {tag, orders: [handler list, ...]} (all orderings for n <= 5)."""
    if tier == "quick":
        small = {0: 1, 1: 20, 2: 30, 3: 25, 4: 12, 5: 6}
        n_long, n_orders = 80, 2
    else:
        small = {0: 1, 1: 60, 2: 300, 3: 400, 4: 250, 5: 150}
        n_long, n_orders = 1500, 3
    fams = []
    # the example of Properties/C20.v
    K, NK, MO, PAD, SEN = EXACT[0], [EV_REP, EV_SYN, EV_KEY, EV_MSC, EV_KEY], EXACT[3], [EV_SYN, EV_KEY, EV_ABS, EV_FF], [EV_SYN, EV_ABS, EV_MSC]
    ex = [{"id": 2, "phys": [117, 49], "caps": NK}, {"id": 4, "phys": [117, 50], "caps": PAD}, {"id": 6, "phys": [], "caps": MO},
          {"id": 1, "phys": [117, 49], "caps": K}, {"id": 7, "phys": [117, 51], "caps": MO}, {"id": 5, "phys": [117, 50], "caps": SEN},
          {"id": 3, "phys": [117, 49], "caps": MO}, {"id": 8, "phys": [117, 51], "caps": MO}]
    fams.append({"tag": "example", "exhaustive_orders": False, "orders": [ex, [ex[i] for i in (7, 5, 6, 2, 4, 3, 1, 0)]]})
    for n, cnt in sorted(small.items()):
        for _ in range(cnt):
            ms = gen_multiset(rng, n)
            fams.append({"tag": "all-orders-%d" % n, "exhaustive_orders": True,
                         "orders": [list(p) for p in itertools.permutations(ms)]})
    for i in range(n_long):
        n = rng.randint(6, 40) if i % 4 else rng.randint(6, 12)
        ms = gen_multiset(rng, n)
        orders = [ms]
        for _ in range(n_orders - 1):
            o = list(ms)
            rng.shuffle(o)
            orders.append(o)
        orders.append(list(reversed(ms)))
        fams.append({"tag": "long", "exhaustive_orders": False, "orders": orders})
    return fams


def gen_sweep(rng):
    """every subset of the nine types (exhaustive), then the same subsets shuffled with repeated entries, then with EV_SND."""
    sw = []
    for mask in range(1 << len(UNIVERSE)):
        sw.append([UNIVERSE[i] for i in range(len(UNIVERSE)) if mask >> i & 1])
    n_ex = len(sw)
    for s in list(sw[:n_ex]):
        t = list(s)
        rng.shuffle(t)
        for _ in range(rng.randint(0, 3)):
            if t:
                t.insert(rng.randrange(len(t) + 1), rng.choice(t))
        sw.append(t)
    for e in EXACT:
        sw.append(e + [EV_SND])
        sw.append([EV_SND] + e[::-1])
    sw.append([EV_SND])
    return sw, n_ex


# ----------------------------------------------------------------------------- Coq emitters

def c_handler(h):
    return "mkHandler %d %s %s" % (h["id"], cbytes(h["phys"]), cbytes(h["caps"]))


def c_case(hs, run, hts):
    obs = clist(["(%s, %s, %d)" % (cbytes(d["phys"]), cbytes(d["ids"]), d["dtype"]) for d in run])
    return "(%s, %s, %s)" % (clist([c_handler(h) for h in hs]), obs, cbytes(hts))


HEADER = ("From Coq Require Import List NArith.\nFrom HIDI Require Import Model.Discover Run.DiscoverRun.\n"
          "Import ListNotations.\nOpen Scope N_scope.\n")


def shard_body(items):
    body = HEADER
    for i, (hs, run, hts) in enumerate(items):
        body += "Definition c%d : ccase := %s.\n" % (i, c_case(hs, run, hts))
    body += "Definition cases : list ccase := %s.\n" % clist(["c%d" % i for i in range(len(items))])
    body += "Definition FAIL := Eval vm_compute in c20_failures 0 cases.\nPrint FAIL.\n"
    body += "Definition SELF := Eval vm_compute in c20_model_selfcheck cases.\nPrint SELF.\n"
    body += "Definition MULTI := Eval vm_compute in c20_multi_groups cases.\nPrint MULTI.\n"
    return body


def need(res, keys, what):
    for k in keys:
        if k not in res or isinstance(res[k], tuple):
            raise CheckError("cannot read %s from coqc output of %s: %r" % (k, what, res.get(k)))


def canon(run):
    return tuple(sorted((tuple(d["phys"]), tuple(sorted(d["ids"])), d["dtype"]) for d in run))


def pretty_handlers(hs):
    return [{"id": h["id"], "phys": bytes(h["phys"]).decode("latin-1"), "caps": [EV_NAMES[EV_GO.index(c)] if c in EV_GO else c for c in h["caps"]]}
            for h in hs]


def pretty_run(run):
    return [{"phys": bytes(d["phys"]).decode("latin-1"), "handlers": d["ids"],
             "type": DT_NAMES[d["dtype"]] if 0 <= d["dtype"] < 4 else d["dtype"]} for d in run]


CODES = {1: "generated handler ids not distinct (generator fault)",
         2: "a device lists a handler that was not discovered, or has an unknown DeviceType",
         3: "monitor C20_monitor rejects the devices: not a partition of the handlers by physical location with the joystick>keyboard>not-playable type rule",
         4: "devices differ from the model's normalize as a set of (location, multiset of handlers, type)",
         5: "HandlerType() of some handler differs from the model's handler_type"}


# ----------------------------------------------------------------------------- evaluation

def evaluate(run_, binary, fams, sweep, n_ex, repeat=2):
    """Runs everything; registers violations; returns statistics."""
    flat = []           # (family index, order index)
    for fi, f in enumerate(fams):
        for oi in range(len(f["orders"])):
            flat.append((fi, oi))
    inp = {"cases": [{"h": fams[fi]["orders"][oi]} for fi, oi in flat], "repeat": repeat, "sweep": sweep}
    out, err = run_harness(binary, "c20", inp, timeout=1200)
    if out is None:
        run_.violation("C20 harness failed: " + err, {"correspondence": "C20 harness run", "error": err}, no_input=True)
        return None
    results = out["results"]
    pending = []

    def viol(what, rp, no_input=False):
        # report order: at most two of each kind first (crashes, monitor rejections, order/set dependence, correspondence), then the rest
        if "panicked" in what:
            kind = 0
        elif no_input:
            kind = 3
        elif rp.get("codes"):
            kind = 1
        else:
            kind = 2
        pending.append((kind, what, rp, no_input))

    def flush():
        first, later, cnt = [], [], collections.Counter()
        for v in sorted(pending, key=lambda v: v[0]):
            cnt[v[0]] += 1
            (first if cnt[v[0]] <= 2 else later).append(v)
        for (_, what, rp, no_input) in first + later:
            run_.violation(what, rp, no_input=no_input)
    if len(results) != len(flat) or len(out["sweep"]) != len(sweep):
        raise CheckError("harness returned %d results for %d cases" % (len(results), len(flat)))
    stats = {"calls": 0, "coq_cases": 0, "multi": 0}

    # (1) constants of the Go packages against the model's
    cst = out["consts"]
    body = HEADER + "Definition CONSTS := Eval vm_compute in c20_consts_ok %s %s %s.\nPrint CONSTS.\n" % (
        cbytes(cst["ev"]), cbytes(cst["ht"]), cbytes(cst["dt"]))
    # (2) HandlerType sweep
    body += "Definition sw : list (list N * N) := %s.\n" % clist(
        ["(%s, %d)" % (cbytes(c), t) for c, t in zip(sweep, out["sweep"]) if t >= 0])
    body += "Definition SWEEP := Eval vm_compute in c20_ht_mismatch sw.\nPrint SWEEP.\n"
    for c, t in zip(sweep, out["sweep"]):
        if t < 0:
            viol("HandlerType panicked on capabilities %r" % c, {"call": "DeviceInfo.HandlerType", "caps": c})

    # (3..5) per case
    items, where = [], []
    fam_views = collections.defaultdict(dict)     # family -> canonical view -> first (order index, run)
    for ci, ((fi, oi), res) in enumerate(zip(flat, results)):
        hs = fams[fi]["orders"][oi]
        if res["panic"]:
            viol("Normalize/HandlerType panicked (%s) on %r" % (res["panic"], pretty_handlers(hs)),
                           {"call": "input.Normalize", "handlers": hs, "panic": res["panic"]})
            continue
        seen = set()
        for ri, run in enumerate(res["runs"]):
            stats["calls"] += 1
            cv = canon(run)
            if cv in seen:
                continue
            seen.add(cv)
            fam_views[fi].setdefault(cv, (oi, run))
            if any(i < 0 for d in run for i in d["ids"]) or any(d["dtype"] < 0 for d in run):
                viol("Normalize returned a device with a handler name that is none of the discovered ones, or a negative type: %r for %r"
                               % (pretty_run(run), pretty_handlers(hs)),
                               {"call": "input.Normalize", "handlers": hs, "observed": run})
                continue
            items.append((hs, run, res["hts"]))
            where.append((fi, oi, ri))
        if len(seen) > 1:
            viol("Normalize gave different devices for the same handler list on repeated calls: %r" % pretty_handlers(hs),
                           {"call": "input.Normalize", "handlers": hs, "observed_runs": res["runs"]})
    stats["coq_cases"] = len(items)
    total = sum(len(it[0]) + 2 for it in items)
    nsh = max(8, min(64, math.ceil(total / 2500)))
    shards = [list(range(k, len(items), nsh)) for k in range(nsh)]
    shards = [s for s in shards if s]
    jobs = [("c20_consts", body)] + [("c20_cases_%d" % k, shard_body([items[i] for i in s])) for k, s in enumerate(shards)]
    outs = coq_eval_many(jobs)
    r0 = extract_defs(outs[0])
    need(r0, ("CONSTS", "SWEEP"), "constants/sweep")
    if r0["CONSTS"] is not True:
        viol("the EV_*/DI_TYPE_*/DeviceType constants of the Go packages differ from the model's: %r" % cst,
                       {"correspondence": "C20 constants (Model/Discover.v EV_*, htype_code, dtype_code)", "go": cst}, no_input=True)
    for (caps, got, want) in r0["SWEEP"][:5]:
        viol("correspondence HandlerType/handler_type: HandlerType(%r) = %s but the model says %s" % (
            [EV_NAMES[EV_GO.index(c)] if c in EV_GO else c for c in caps], HT_NAMES[got] if got < 7 else got, HT_NAMES[want]),
                       {"correspondence": "DeviceInfo.HandlerType vs Model/Discover.v handler_type", "call": "DeviceInfo.HandlerType",
                        "caps": caps, "implementation": got, "model": want}, no_input=True)
    # the classification must depend on the capability SET only (C20_handler_type_set), observed directly
    by_set = {}
    obs_ht = list(zip(sweep, out["sweep"]))
    for (fi, oi), res in zip(flat, results):
        if not res["panic"]:
            obs_ht += [(h["caps"], t) for h, t in zip(fams[fi]["orders"][oi], res["hts"])]
    reported = 0
    for caps, t in obs_ht:
        k = frozenset(caps)
        if k in by_set and by_set[k][1] != t and reported < 3:
            reported += 1
            viol("HandlerType depends on more than the set of capabilities: %r -> %s but %r -> %s" % (
                by_set[k][0], by_set[k][1], caps, t),
                           {"call": "DeviceInfo.HandlerType", "caps": caps, "other_caps": by_set[k][0], "implementation": t,
                            "implementation_other": by_set[k][1]})
        by_set.setdefault(k, (caps, t))
    stats["distinct_capability_sets"] = len(by_set)
    failing = []
    for s, o in zip(shards, outs[1:]):
        r = extract_defs(o)
        need(r, ("FAIL", "SELF", "MULTI"), "cases")
        if r["SELF"] is not True:
            viol("the model's normalize fails its own monitor on a generated input although C20_monitor_model is proved",
                           {"correspondence": "C20 monitor vs model (vm_compute disagrees with the theorem)"}, no_input=True)
        stats["multi"] += r["MULTI"]
        for (i, codes) in r["FAIL"]:
            failing.append((s[i], codes))
    failing.sort()
    # model views for the reports
    model = {}
    if failing:
        rep = failing[:5]
        b = HEADER
        for k, (idx, _) in enumerate(rep):
            b += "Definition M%d := Eval vm_compute in c20_model_view %s.\nPrint M%d.\n" % (k, clist([c_handler(h) for h in items[idx][0]]), k)
            b += "Definition T%d := Eval vm_compute in c20_model_types %s.\nPrint T%d.\n" % (k, clist([c_handler(h) for h in items[idx][0]]), k)
        rm = extract_defs(coq_eval("c20_model", b))
        for k, (idx, _) in enumerate(rep):
            mv = rm.get("M%d" % k)
            if isinstance(mv, list):
                model[idx] = ([{"phys": list(p), "ids": list(ids), "dtype": t} for (p, ids, t) in mv], rm.get("T%d" % k))
    for idx, codes in failing:
        hs, run, hts = items[idx]
        mv = model.get(idx)
        what = "input.Normalize on %r returned %r%s: %s" % (
            pretty_handlers(hs), pretty_run(run),
            (" (model: %r)" % pretty_run(mv[0])) if mv else "", "; ".join(CODES.get(c, str(c)) for c in codes))
        rp = {"call": "input.Normalize", "handlers": hs, "observed": run, "observed_handler_types": hts, "codes": codes,
              "monitor": "grouping_okb (C20_monitor, C20_monitor_implies) / view_eqb against normalize (C20_view)"}
        if mv:
            rp["model"] = mv[0]
            rp["model_handler_types"] = mv[1]
        if 2 in codes or 3 in codes or 1 in codes:
            viol(what, rp)
        else:
            # the observed devices satisfy the property's monitor, but the model predicts something else
            if codes == [5] and mv:
                what = "HandlerType of handlers %r = %r, model %r" % (pretty_handlers(hs), [HT_NAMES[t] if 0 <= t < 7 else t for t in hts],
                                                                     [HT_NAMES[t] for t in mv[1]])
            rp["correspondence"] = "input.Normalize / HandlerType vs Model/Discover.v normalize / handler_type (monitor accepts the observation)"
            viol("correspondence model/implementation: " + what, rp, no_input=True)
    # (6) order-freedom observed directly on the implementation
    for fi, views in fam_views.items():
        if len(views) > 1:
            (o1, r1), (o2, r2) = list(views.values())[:2]
            a, b2 = fams[fi]["orders"][o1], fams[fi]["orders"][o2]
            viol("the same handlers discovered in two orders give different devices: order %r -> %r, order %r -> %r (handlers %r)" % (
                [h["id"] for h in a], pretty_run(r1), [h["id"] for h in b2], pretty_run(r2), pretty_handlers(a)),
                           {"call": "input.Normalize", "handlers": a, "other_order": b2, "observed": r1, "observed_other": r2})
    flush()
    stats["failing"] = len(failing)
    stats["results"] = results
    stats["flat"] = flat
    stats["n_ex"] = n_ex
    stats["shards"] = len(shards)
    return stats


def ms_key(hs):
    """a multiset of handlers up to ids, order and the presentation of the capability set"""
    return tuple(sorted((tuple(h["phys"]), tuple(sorted(set(h["caps"])))) for h in hs))


def nontrivial(hs):
    c = collections.Counter(tuple(h["phys"]) for h in hs)
    return any(v >= 2 for v in c.values())


def run(run_):
    tier, seed = run_.tier, run_.seed
    run_.proof_obligations()
    binary, err = go_build("input")
    if binary is None:
        run_.violation("harness for package input does not build against /repo: " + err,
                       {"correspondence": "C20 harness build", "error": err}, no_input=True)
        return
    rng = random.Random(seed)
    fams = generate(rng, tier)
    sweep, n_ex = gen_sweep(rng)
    st = evaluate(run_, binary, fams, sweep, n_ex)
    if st is None:
        return
    fill_coverage(run_, fams, sweep, st)


def fill_coverage(run_, fams, sweep, st):
    results, flat = st["results"], st["flat"]
    keys_nt = {ms_key(f["orders"][0]) for f in fams if nontrivial(f["orders"][0])}
    keys_multi = {ms_key(f["orders"][0]) for f in fams if nontrivial(f["orders"][0]) and len({tuple(h["phys"]) for h in f["orders"][0]}) >= 2}
    sizes = collections.Counter()
    for f in fams:
        n = len(f["orders"][0])
        sizes["%d" % n if n <= 5 else ("6-12" if n <= 12 else "13-40")] += len(f["orders"])
    ht = collections.Counter()
    dt = collections.Counter()
    ngroups = collections.Counter()
    for res in results:
        for t in res["hts"]:
            ht[HT_NAMES[t] if 0 <= t < 7 else str(t)] += 1
        if res["runs"]:
            ngroups[str(min(len(res["runs"][0]), 6)) + ("+" if len(res["runs"][0]) >= 6 else "")] += 1
            for d in res["runs"][0]:
                dt[DT_NAMES[d["dtype"]] if 0 <= d["dtype"] < 4 else str(d["dtype"])] += 1
    samples = []
    want = {"all-orders-3": 1, "all-orders-5": 1, "long": 1}
    for ci, (fi, oi) in enumerate(flat):
        tag = fams[fi]["tag"]
        if want.get(tag) and oi == min(1, len(fams[fi]["orders"]) - 1) and results[ci]["runs"] and (tag == "long" or nontrivial(fams[fi]["orders"][0])):
            want[tag] -= 1
            hs = fams[fi]["orders"][oi]
            if tag == "long" and len(hs) > 12:
                want[tag] += 1
                continue
            samples.append({"family": tag, "orders_in_family": len(fams[fi]["orders"]), "handlers_in_discovery_order": pretty_handlers(hs),
                            "handler_types": [HT_NAMES[t] if 0 <= t < 7 else t for t in results[ci]["hts"]],
                            "devices_returned": pretty_run(results[ci]["runs"][0])})
    samples.append({"handler_type_sweep_entry": [EV_NAMES[EV_GO.index(c)] for c in sweep[0b000010011]], "note": "one of %d capability lists" % len(sweep)})
    run_.coverage.update({
        "evaluations": st["coq_cases"],
        "distinct_nontrivial": len(keys_nt),
        "rule": "a case = one discovery order of a multiset of handlers (id, physical location bytes, capability list) run through the real "
                "input.Normalize; multisets of 0-5 handlers are run in EVERY order (n! cases each), longer ones (6-40 handlers) in the generated, "
                "shuffled and reversed order; capability lists are HandlerType's exact sets (55%), those sets with one type added or removed (20%), "
                "sets containing EV_ABS/EV_FF (12%), random subsets of the 9 types (13%), half of them shuffled, 30% with repeated entries; "
                "locations come from a pool with confusable entries (empty, blank, prefix, case, trailing blank, non-UTF-8). "
                "distinct_nontrivial = distinct multisets of (location, capability set) - ignoring ids, order and repetitions - in which "
                "at least two handlers share a physical location; evaluations = orderings judged inside Coq (monitor + view + handler types). "
                "Separately HandlerType is swept over all 512 subsets of the 9 types (exhaustive) and shuffled/repeated/EV_SND variants.",
        "samples": samples,
        "exhaustive": False,
        "exhaustive_subspaces": ["HandlerType on all %d subsets of {EV_SYN,EV_KEY,EV_REL,EV_ABS,EV_MSC,EV_LED,EV_REP,EV_FF,EV_SW}" % st["n_ex"],
                                 "all n! discovery orders of every sampled multiset with n <= 5 handlers"],
        "multisets": len(fams),
        "multisets_all_orders": sum(1 for f in fams if f["exhaustive_orders"]),
        "distinct_multisets_shared_location_and_several_devices": len(keys_multi),
        "normalize_calls": st["calls"],
        "model_devices_with_2plus_handlers": st["multi"],
        "handler_type_sweep": len(sweep),
        "distinct_capability_sets_classified": st["distinct_capability_sets"],
        "distribution": {"orderings_by_multiset_size": dict(sizes), "handler_types_seen": dict(ht), "device_types_seen": dict(dt),
                         "devices_per_result": dict(ngroups)},
        "coq_shards": st["shards"],
        # constants, HandlerType sweep, HandlerType set-dependence, monitor on observed devices, view vs model, per-handler types,
        # repeated-call stability, order-freedom observed on the implementation, model self-check
        "correspondence_obligations": 9,
    })
    run_.assumptions += [
        "a handler is projected to (identity, DeviceInfo.Phys bytes, DeviceInfo.CapableTypes); Device.ID/Name/Uniq/AbsInfos (taken from the "
        "first handler or from opened event nodes) are outside the view",
        "handlers are synthetic DeviceInfo values whose event name is empty or names a node that does not exist (event9001..): evdev.Open fails and they are grouped without touching /dev/input; event names and hardware ids are drawn from small pools so that one process sees the same (node, id) with different capabilities",
        "Go map iteration order is exercised only as far as the runtime randomises it over the repeated calls; the view is order-insensitive",
    ]


def replay(run_, data):
    rp = data.get("replay", {})
    hs = rp.get("handlers")
    if not hs and rp.get("caps") is not None:
        hs = [{"id": 1, "phys": [], "caps": rp["caps"]}]
    if not hs:
        return run(run_)
    run_.proof_obligations()
    binary, err = go_build("input")
    if binary is None:
        run_.violation("harness for package input does not build against /repo: " + err,
                       {"correspondence": "C20 harness build", "error": err}, no_input=True)
        return
    rng = random.Random(run_.seed)
    if len(hs) <= 5:
        orders = [list(p) for p in itertools.permutations(hs)]
    else:
        orders = [hs, list(reversed(hs))]
        for _ in range(4):
            o = list(hs)
            rng.shuffle(o)
            orders.append(o)
    if rp.get("other_order"):
        orders.append(rp["other_order"])
    fams = [{"tag": "replay", "exhaustive_orders": len(hs) <= 5, "orders": orders}]
    sweep = [h["caps"] for h in hs] + ([rp["caps"]] if rp.get("caps") else [])
    while len(sweep) <= 0b10011:
        sweep.append([EV_SYN, EV_KEY, EV_MSC])
    st = evaluate(run_, binary, fams, sweep, 0, repeat=4)
    if st is None:
        return
    fill_coverage(run_, fams, sweep, st)
