"""C16: device lifecycle - prompt termination, no leftovers, no races, no cross-talk.

Dynamic part (the runtime behaviour the Lifecycle.v model cannot exhibit is EXPLORED here, not proved): 1-8 real Devices per
scenario run concurrently in the harness mode "lifecycle" (real LED loops against fake OpenRGB servers inside a mount namespace,
MIDI input streaming, notes held, event streams closed at random offsets over several LED cycles, also before the LED
connection exists and with no server at all), built with -race.  Checked: no race report, return within 1 s of close(),
no goroutine of the device package left 300 ms later, and every device's MIDI output / State() equals the Coq device
model's stand-alone run on that device's history (Run/DeviceRun.v full_mismatch) - the executable form of C16_no_crosstalk."""
import random, subprocess, threading
from concurrent.futures import ThreadPoolExecutor
from common import *
import devgen, devrun, c17

RETURN_BOUND_MS = 1000.0
_lock = threading.Lock()
_n = [0]


def run_shard(binary, scenarios, timeout=600):
    """One harness process running the scenarios one after the other. Returns (results, race_log_text, error)."""
    w = workdir()
    with _lock:
        _n[0] += 1
        k = _n[0]
    fin, fout = os.path.join(w, "life-in-%d.json" % k), os.path.join(w, "life-out-%d.json" % k)
    racelog = os.path.join(w, "race-%d" % k)
    with open(fin, "w") as fh:
        json.dump({"scenarios": scenarios, "race_log": racelog}, fh)
    env = dict(GOENV, VERIF_MODE="lifecycle", VERIF_IN=fin, VERIF_OUT=fout, GORACE="log_path=%s halt_on_error=0 history_size=5" % racelog)
    cmd = c17.MOUNT_NS + [binary, "-test.run", "^TestVerif$", "-test.count=1", "-test.timeout", "%ds" % (timeout + 30)]
    try:
        r = subprocess.run(cmd, env=env, cwd=w, capture_output=True, text=True, timeout=timeout + 60)
    except subprocess.TimeoutExpired:
        return None, "", "lifecycle harness timeout after %ds" % timeout
    if not os.path.exists(fout):
        return None, "", "lifecycle harness produced no output (exit %d): %s" % (r.returncode, (r.stdout + r.stderr)[-3000:])
    out = json.load(open(fout))
    os.unlink(fin)
    os.unlink(fout)
    if not out.get("hidraw_ok"):
        return None, "", "the mount namespace does not provide /sys/class/hidraw/hidraw0/device/input/input7/event3"
    log = ""
    p = "%s.%d" % (racelog, out["pid"])
    if os.path.exists(p):
        log = open(p, errors="replace").read()
        os.unlink(p)
    if "WARNING: DATA RACE" in r.stderr:      # not redirected (should not happen)
        log += r.stderr
    return out["results"], log, None


def split_race_log(log, results):
    """Race report text per scenario (by the log size sampled after each scenario)."""
    out, prev = [], 0
    data = log.encode(errors="replace")
    for i, res in enumerate(results):
        end = res.get("race_log_end", 0) if i < len(results) - 1 else len(data)
        end = max(end, prev)
        out.append(data[prev:end].decode(errors="replace"))
        prev = end
    return out


def run_all(binary, scenarios, procs=4):
    shards = [scenarios[i::procs] for i in range(procs)]
    idx = [list(range(len(scenarios)))[i::procs] for i in range(procs)]
    with ThreadPoolExecutor(max_workers=procs) as ex:
        outs = list(ex.map(lambda sh: run_shard(binary, sh) if sh else ([], "", None), shards))
    results, races = [None] * len(scenarios), [""] * len(scenarios)
    for (res, log, err), ids in zip(outs, idx):
        if err:
            return None, None, err
        per = split_race_log(log, res)
        for j, gi in enumerate(ids):
            results[gi], races[gi] = res[j], per[j]
    return results, races, None


# ---------------------------------------------------------------------------------------------- generator
def gen_device(rng, kind=None):
    cfg = c17.gen_cfg(rng)
    n = rng.randint(4, 30)
    ev = devgen.gen_history(rng, cfg, n, p_action=0.3, avoid_exit=True, repeats=False)
    # leave notes held at the end: press up to three more note keys that are up
    down = {e["code"] for e in devgen.release_all(ev)}
    acts = {a["code"] for a in cfg["actions"]}
    cand = [(kk["sub"], kk["code"]) for kk in cfg["mappings"][0]["midi"] if kk["code"] not in down and kk["code"] not in acts]
    rng.shuffle(cand)
    exitset = set(cfg["exitseq"])
    for sub, code in cand[:rng.choice([0, 1, 2, 3])]:
        if exitset and exitset <= (down | {code}):
            continue
        down.add(code)
        ev.append({"t": "k", "sub": sub, "code": code, "val": 1})
    # pacing markers (25 ms of silence before the next event: see the harness): the next event then meets LED frames with no event of
    # its own in between, which is what exposes an unsynchronised access to the race detector
    if ev and rng.random() < 0.5:
        for _ in range(rng.choice([1, 2])):
            ev.insert(rng.randrange(len(ev) + 1), {"t": "k", "sub": "", "code": 0, "val": 2})
    kind = kind or rng.choice(["led"] * 8 + ["early", "noserver", "slowserver"])
    d = {"cfg": cfg, "abs": [], "events": ev, "leds": c17.gen_layout(rng, cfg), "close_us": rng.randrange(0, 25000),
         "early_ms": -1, "no_server": False, "midi_stream": rng.random() < 0.75}
    if kind == "early":
        d["early_ms"] = rng.choice([0, 5, 100, 240, 255, 300, 490, 510, 600])
    elif kind == "noserver":
        d["no_server"] = True
        d["early_ms"] = rng.choice([0, 100, 260, 600])
    elif kind == "slowserver":
        # a slow OpenRGB daemon: every controller query takes 120-350 ms, and the device is unplugged while one is in flight
        d["slow_ms"] = rng.choice([120, 200, 350])
        d["early_ms"] = rng.choice([20, 60, 110, 180, 270, 330, 420, 520, 640, 760])
    return d


def gen_shared(rng, si):
    import agen
    k = rng.choice([2, 3, 4])
    if si % 4 == 3:      # keyboards of one model
        d0 = gen_device(rng, "led")
        devs = []
        for _ in range(k):
            d = dict(d0)
            d["events"] = devgen.gen_history(rng, d0["cfg"], rng.randint(6, 30), p_action=0.3, avoid_exit=True, repeats=False)
            d["close_us"] = rng.randrange(0, 25000)
            devs.append(d)
        return {"devices": devs, "share_cfg": True, "tag": "shared-config-keyboards"}
    axes = [agen.ABS_X, agen.ABS_Y, agen.ABS_Z, agen.ABS_RX, agen.ABS_RY, agen.ABS_RZ]
    analogs = [agen.analog(agen.ABS_X, "cc", cc=20, ccneg=21, bidi=True), agen.analog(agen.ABS_Y, "cc", cc=22, ccneg=23, bidi=True, flip=True),
               agen.analog(agen.ABS_Z, "cc", cc=24), agen.analog(agen.ABS_RX, "pitch_bend"), agen.analog(agen.ABS_RY, "key", note=60, noteneg=62, bidi=True),
               agen.analog(agen.ABS_RZ, "cc", cc=25, off=1)]
    keys = [{"sub": "", "code": 304 + i, "note": 36 + i, "off": 0} for i in range(6)]
    # explicit dead zones for two of the axes only; the others resolve through the mapping's default
    cfg = agen.base_cfg(analogs, dz=[{"sub": "", "code": agen.ABS_Z, "bits": str(agen.bits(0.0))}, {"sub": "", "code": agen.ABS_RZ, "bits": str(agen.bits(0.2))}],
                        defdz=[{"sub": "", "bits": str(agen.bits(rng.choice([0.0, 0.1, 0.25])))}], keys=keys, cmode="interrupt", n_maps=2,
                        actions=[{"code": 314, "action": "mapping_up"}, {"code": 315, "action": "mapping_down"}, {"code": 316, "action": "octave_up"}],
                        channel=rng.choice([1, 5]))
    cfg["colors"] = c17.gen_colours(rng)
    absl = [{"code": c, "min": -32768, "max": 32767} for c in axes[:2] + axes[3:5]] + [{"code": c, "min": 0, "max": 255} for c in (agen.ABS_Z, agen.ABS_RZ)]
    rngs = {a["code"]: (a["min"], a["max"]) for a in absl}
    devs = []
    for di in range(k):
        ev = []
        order = list(axes)
        rng.shuffle(order)
        for rnd in range(rng.randint(2, 5)):
            for c in order:
                mn, mx = rngs[c]
                ev.append({"t": "a", "sub": "", "code": c, "val": rng.choice([mn, mx, (mn + mx) // 2, rng.randint(mn, mx)])})
            if rng.random() < 0.6:
                kc = rng.choice(keys)["code"]
                ev += [{"t": "k", "sub": "", "code": kc, "val": 1}, {"t": "k", "sub": "", "code": kc, "val": 0}]
            if rng.random() < 0.4:
                ev += [{"t": "k", "sub": "", "code": 314, "val": 1}, {"t": "k", "sub": "", "code": 314, "val": 0}]
        for c in axes:      # back to rest, so that the comparison with the stand-alone model run ends in a quiet state
            mn, mx = rngs[c]
            ev.append({"t": "a", "sub": "", "code": c, "val": 0 if mn < 0 else mn})
        devs.append({"cfg": cfg, "abs": absl, "events": ev, "leds": [], "close_us": rng.randrange(0, 25000), "early_ms": rng.choice([0, 0, 5]),
                     "no_server": True, "midi_stream": rng.random() < 0.5})
    return {"devices": devs, "share_cfg": True, "tag": "shared-config-gamepads"}


def gen(rng, tier):
    n = 48 if tier == "quick" else 2000
    scenarios = []
    # corpus: the D17 shape - notes held, LED loop running, at least one full LED cycle between the last event and close
    for off in (12000, 15000, 21000):
        d = gen_device(rng, "led")
        d["close_us"] = off
        scenarios.append({"devices": [d], "tag": "corpus-D17"})
    # corpus: the OpenRGB server dies while the device is connected (1.8 s = far more than a hundred failed refreshes); events arrive afterwards
    for ms in ((1800,) if tier == "quick" else (300, 1200, 1800, 2600, 5200)):
        d = gen_device(rng, "led")
        d["server_dies_ms"] = ms
        d["midi_stream"] = True
        scenarios.append({"devices": [d], "tag": "corpus-server-dies"})
    # corpus: a device that stays connected for 11.5 s (thorough: also 31 s and 61 s) with sparse events: whatever is driven by UPTIME
    # (periodic timers, counters of refresh cycles) gets a chance to act; output, return time and leftovers are judged as always
    for secs in ((11,) if tier == "quick" else (11, 31, 61)):
        d = gen_device(rng, "led")
        base = [e for e in d["events"] if not (e["t"] == "k" and e["val"] == 2 and e["code"] == 0)]
        ev = []
        for sidx in range(secs):
            ev.append({"t": "k", "sub": "verif-pause-1s", "code": 0, "val": 2})
            ev += base[sidx % max(1, len(base)):][:2] if base else []
        # keep per-key alternation: replay the base history in order instead of slices
        ev = []
        per = max(1, len(base) // max(1, secs))
        for sidx in range(secs):
            ev.append({"t": "k", "sub": "verif-pause-1s", "code": 0, "val": 2})
            ev += base[sidx * per:(sidx + 1) * per]
        ev += base[secs * per:] + [{"t": "k", "sub": "verif-pause-1s", "code": 0, "val": 2}]
        d["events"] = ev
        d["midi_stream"] = False
        scenarios.append({"devices": [d], "tag": "corpus-aged-%ds" % secs})
    # corpus: the stale-release path - a note key held across a switch to a mapping in which that key is not a note, released there
    # (its Note Off is found through the note tracker, outside the normal note/action dispatch), with the LED loop running
    for _ in range(3 if tier == "quick" else 40):
        d = gen_device(rng, "led")
        cfg = c17.gen_cfg(rng, n_maps=2)
        codes = [kk for kk in cfg["mappings"][0]["midi"]]
        if len(cfg["mappings"]) >= 2 and codes and any(a["action"] == "mapping_up" for a in cfg["actions"]):
            act = {a["action"]: a["code"] for a in cfg["actions"]}
            vict = codes[0]
            cfg["mappings"][1]["midi"] = [kk for kk in cfg["mappings"][1]["midi"] if kk["code"] != vict["code"]]
            cfg["mapping"] = 0
            cfg["exitseq"] = []
            cfg["octave"], cfg["semitone"] = 0, 0          # the victim key must really sound (pitch in range)
            ev = []
            for _r in range(12):
                ev += [{"t": "k", "sub": vict["sub"], "code": vict["code"], "val": 1}, {"t": "k", "sub": "", "code": act["mapping_up"], "val": 1},
                       {"t": "k", "sub": "", "code": act["mapping_up"], "val": 0}]
                if _r % 3 == 0:
                    ev.append({"t": "k", "sub": "", "code": 0, "val": 2})      # pacing marker: 25 ms of silence (see the harness), then the stale release
                ev.append({"t": "k", "sub": vict["sub"], "code": vict["code"], "val": 0})
                if "mapping_down" in act:
                    ev += [{"t": "k", "sub": "", "code": act["mapping_down"], "val": 1}, {"t": "k", "sub": "", "code": act["mapping_down"], "val": 0}]
            d.update({"cfg": cfg, "events": ev, "leds": c17.gen_layout(rng, cfg), "close_us": 15000})
        scenarios.append({"devices": [d], "tag": "corpus-stale-release"})
    # corpus: a sustained stream of key events (a few thousand, back to back) while the LED loop is refreshing: whatever window a frame
    # leaves between two acquisitions of the device's locks is hit by some event
    for _ in range(1 if tier == "quick" else 6):
        d = gen_device(rng, "led")
        notes = [kk for kk in d["cfg"]["mappings"][d["cfg"]["mapping"]]["midi"] if kk["code"] not in {a["code"] for a in d["cfg"]["actions"]}
                 and kk["code"] not in d["cfg"]["exitseq"]][:2]
        if notes:
            ev = []
            for i in range(1500 if tier == "quick" else 4000):
                kk = notes[i % len(notes)]
                ev += [{"t": "k", "sub": kk["sub"], "code": kk["code"], "val": 1}, {"t": "k", "sub": kk["sub"], "code": kk["code"], "val": 0}]
            d["events"] = ev
            d["midi_stream"] = True
        scenarios.append({"devices": [d], "tag": "corpus-event-storm"})
    # corpus: a slow OpenRGB daemon, unplugged during the controller discovery (every phase of the first round trips)
    for early in ((60, 180, 330, 520) if tier == "quick" else (20, 60, 110, 180, 270, 330, 420, 520, 640, 760, 900, 1100)):
        d = gen_device(rng, "slowserver")
        d["early_ms"], d["slow_ms"] = early, 300
        scenarios.append({"devices": [d], "tag": "corpus-slow-server"})
    # several devices built from ONE configuration value (what the manager does for every device that resolves to the same entry of the
    # loaded configurations: two pads on the default gamepad configuration, two keyboards of one model): the copies share their maps.
    # Gamepads sweeping axes with and without an explicit dead zone, keys in between; keyboards with the LED loop running
    for si in range(4 if tier == "quick" else 60):
        scenarios.append(gen_shared(rng, si))
    while len(scenarios) < n:
        k = rng.choice([1, 1, 2, 2, 3, 4, 6, 8])
        scenarios.append({"devices": [gen_device(rng) for _ in range(k)], "tag": "random"})
    # corpus: an OpenRGB daemon that is alive but stops reading (busy) while frames of 40,000 LEDs (160 kB each, larger than the socket
    # buffers drain) keep coming: the LED loop sits INSIDE a frame, blocked in its write, when the stream ends with notes held.  The
    # unsafe window of a disconnect (tens of microseconds per 10 ms cycle otherwise) is stretched to hundreds of milliseconds, so
    # whether a disconnect landing inside a frame is handled safely no longer depends on a lucky close offset.  The daemon resumes
    # 150 ms after the close, well inside the return bound.
    # (own PRNG stream, appended after the others: the scenarios drawn from `rng` are what they were before this corpus existed)
    rng2 = random.Random(0x5716 + n)
    for off_ms in ((3000,) if tier == "quick" else (2500, 3000, 4000)):
        d = gen_device(rng2, "led")
        d.update({"stall_ms": off_ms + 150, "pad_leds": 6000, "close_us": off_ms * 1000, "midi_stream": False})
        scenarios.append({"devices": [d], "tag": "corpus-stalled-server"})
    return scenarios


def held_at_close(dev):
    return len(devgen.release_all(dev["events"]))


def confirmed_slow(binary, scenario, tries=2):
    """A return-time bound is a real-time statement: an overloaded machine can break it without any defect.  A slow return
    is reported only if the same scenario, re-run alone, is slow again."""
    for _ in range(tries):
        res, _, err = run_shard(binary, [scenario])
        if res is None:
            return True
        if any(d.get("hang") or not d.get("returned") or d["return_ms"] > RETURN_BOUND_MS for d in res[0]["devices"]):
            return True
    return False


def race_signature(text):
    if "ProcessEvents" in text and "handleOpenrgb" in text and ("NoteOff" in text or "mapdelete" in text or "AnalogNoteOff" in text):
        return "D17-cleanup-race"
    return None


def run(run_, scenarios=None, repeat=1):
    rng = random.Random(run_.seed)
    run_.proof_obligations()
    dyn = "C16 lifecycle exploration (race detector, return time, goroutine dump, per-device output = stand-alone model run)"
    binary, err = go_build("device", race=True)
    if binary is None:
        run_.violation("device harness does not build with -race against /repo: " + err,
                       {"theorem_or_correspondence": dyn + " (harness build)", "error": err}, no_input=True)
        return
    if scenarios is None:
        scenarios = gen(rng, run_.tier)
    scenarios = [s for s in scenarios for _ in range(repeat)]
    wire = [{"devices": s["devices"], "share_cfg": bool(s.get("share_cfg"))} for s in scenarios]
    results, races, err = run_all(binary, wire, procs=4 if run_.tier == "quick" else 6)
    if results is None:
        run_.violation("lifecycle harness failed: " + err, {"theorem_or_correspondence": dyn + " (harness run)", "error": err}, no_input=True)
        return
    n_viol = {"race": 0, "slow": 0, "leftover": 0, "crosstalk": 0, "crash": 0}

    def report(kind, what, si, extra, sig=None):
        n_viol[kind] += 1
        if n_viol[kind] > 2:
            return
        run_.violation(what, dict({"kind": "lifecycle-scenario", "scenario": {"devices": scenarios[si]["devices"], "share_cfg": bool(scenarios[si].get("share_cfg"))}, "failure": kind,
                                   "note": "schedule-dependent: the replay runs the scenario 12 times under the race detector"}, **extra),
                       signature=sig)

    # 1. races
    for si, text in enumerate(races):
        if "WARNING: DATA RACE" in text:
            first = text[text.index("WARNING: DATA RACE"):][:3500]
            fn = re.findall(r"^\s+((?:github\.com/gethiox|runtime\.map)\S+)\(", first, re.M)[:6]
            report("race", "the race detector reports unsynchronised concurrent access to device state (scenario %d, %d device(s)): %s" % (
                si, len(scenarios[si]["devices"]), " / ".join(fn)), si, {"race_report": first}, sig=race_signature(first))
    # 2. termination, leftovers
    kcases, kres, kmap = [], [], []
    acases, ares, amap = [], [], []
    ret_ms, frames = [], []
    skipped = sum(1 for res in results if res.get("skipped"))
    for si, res in enumerate(results):
        for di, dr in enumerate(res["devices"]):
            dev = scenarios[si]["devices"][di]
            if dr.get("err") and not dev["no_server"] and dev["early_ms"] < 0:
                report("crash", "scenario %d device %d: %s" % (si, di, dr["err"]), si, {"device": di, "observation": dr})
            if dr.get("panic"):
                report("crash", "scenario %d device %d panicked: %s" % (si, di, dr["panic"]), si, {"device": di, "observation": dr})
                continue
            if dr.get("hang") or not dr.get("returned"):
                report("slow", "ProcessEvents did not return within 8 s of the end of the event stream (scenario %d device %d: %d notes held, "
                       "LED %s, MIDI input %s)" % (si, di, held_at_close(dev), "connected" if dr.get("connected") else "not connected",
                                                  "streaming" if dev["midi_stream"] else "silent"), si, {"device": di, "observation": dr})
                continue
            ret_ms.append(dr["return_ms"])
            frames.append(dr["frames"])
            if dr["return_ms"] > RETURN_BOUND_MS and confirmed_slow(binary, wire[si]):
                report("slow", "ProcessEvents returned %.0f ms after the end of the event stream (bound %d ms; scenario %d device %d)" % (
                    dr["return_ms"], RETURN_BOUND_MS, si, di), si, {"device": di, "observation": dr})
            if dev.get("abs"):
                acases.append({"cfg": dev["cfg"], "abs": dev["abs"], "events": dev["events"]})
                ares.append({"steps": dr["steps"], "cleanup": dr["cleanup"]})
                amap.append((si, di))
                continue
            kcases.append({"cfg": dev["cfg"], "events": dev["events"]})
            kres.append({"steps": dr["steps"], "cleanup": dr["cleanup"]})
            kmap.append((si, di))
        if res["leftover"]:
            report("leftover", "%d goroutine(s) of the device package still alive 300 ms after every ProcessEvents of scenario %d returned: %s" % (
                len(res["leftover"]), si, res["leftover"][0].split("\n")[0:3]), si, {"goroutines": res["leftover"][:4]})
    # 3. cross-talk: each device against the model's stand-alone run
    mres = devrun.eval_shards(kcases, kres, [("MIS", "enum_some full_mismatch 0 cases")], shard=max(20, -(-len(kcases) // 8)), tag="c16")
    mis = [(kmap[it[0]], it[1]) for it in mres["MIS"]]
    if acases:
        import agen
        ares_ = devrun.eval_shards(acases, ares, [("MIS", "enum_some (fun k => afull_mismatch_perm k) 0 cases")], imports="Model.AnalogF Model.AnalogSpec Run.AnalogRun",
                                   shard=max(3, -(-len(acases) // 8)), emit=agen.emit_acase, case_type="acase", tag="c16a")
        mis += [(amap[it[0]], it[1]) for it in ares_["MIS"]]
    for (si, di), step_ in mis[:3]:
        it = (None, step_)
        alone = len(scenarios[si]["devices"]) == 1
        report("crosstalk", "device %d of scenario %d (%d devices running concurrently) differs from the device model's stand-alone run on its own history at "
               "event %s%s" % (di, si, len(scenarios[si]["devices"]), it[1], " - the only device of its scenario: either state survives from the devices of earlier scenarios of the same process (package-level state), or the device model itself disagrees with the implementation" if alone else
                               ": another device's activity changed its output or state"), si, {"device": di, "step": it[1],
                                                                                          "observation": results[si]["devices"][di]})
    # ---- coverage
    ndev = [len(s["devices"]) for s in scenarios]
    devs = [(s, d, results[si]["devices"][di]) for si, s in enumerate(scenarios) if not results[si].get("skipped") for di, d in enumerate(s["devices"])]
    nt = {json.dumps(d, sort_keys=True) for s, d, r in devs if held_at_close(d) > 0 and r.get("connected") and d["midi_stream"] and d["early_ms"] < 0}
    bins = {}
    for s, d, r in devs:
        b = "%d-%d ms" % (d["close_us"] // 5000 * 5, d["close_us"] // 5000 * 5 + 5)
        bins[b] = bins.get(b, 0) + 1
    tags = {}
    for s in scenarios:
        tags[s.get("tag", "random")] = tags.get(s.get("tag", "random"), 0) + 1
    sample = scenarios[min(3, len(scenarios) - 1)]
    run_.coverage.update({
        "evaluations": len(scenarios),
        "distinct_nontrivial": len(nt),
        "rule": ("scenarios of 1-8 concurrently processed devices (random configurations, layouts and key histories as in C17, up to three extra note "
                 "keys left held), MIDI input streaming from its own goroutine for 75 % of the devices, close() 0-25 ms after the last event "
                 "(uniform, more than two LED cycles), 10 % closed before / while the LED connection is being made, 10 % without an OpenRGB server; "
                 "all run under the race detector; non-trivial = distinct device lifecycles that ended with at least one note held, the LED loop "
                 "connected and MIDI input streaming"),
        "samples": [{"devices": [{"events": d["events"][:20], "close_us": d["close_us"], "early_ms": d["early_ms"], "no_server": d["no_server"],
                                  "midi_stream": d["midi_stream"], "leds": len(d["leds"])} for d in sample["devices"]]}],
        "generator_distribution": {"streams": tags, "devices_per_scenario": {str(k): ndev.count(k) for k in sorted(set(ndev))},
                                   "device_lifecycles": len(devs), "close_offset_histogram": bins,
                                   "closed_before_connection": sum(1 for s, d, r in devs if d["early_ms"] >= 0 and not d["no_server"]),
                                   "no_server": sum(1 for s, d, r in devs if d["no_server"]),
                                   "midi_streaming": sum(1 for s, d, r in devs if d["midi_stream"]),
                                   "midi_in_messages_delivered": sum(r.get("midi_in_sent", 0) for s, d, r in devs),
                                   "with_notes_held_at_close": sum(1 for s, d, r in devs if held_at_close(d) > 0),
                                   "led_frames_total": sum(frames), "events_total": sum(len(d["events"]) for s, d, r in devs)},
        "return_ms_max": round(max(ret_ms), 2) if ret_ms else None, "return_ms_mean": round(sum(ret_ms) / len(ret_ms), 2) if ret_ms else None,
        "return_bound_ms": RETURN_BOUND_MS, "race_reports": n_viol["race"], "leftover_goroutine_reports": n_viol["leftover"],
        "crosstalk_mismatches": len(mis), "scenarios_skipped_after_hangs": skipped, "devices_compared_with_model": len(kcases) + len(acases),
        "correspondence_obligations": 4,
        "correspondence_discharged": 4 - sum(1 for kk in ("race", "slow", "leftover", "crosstalk") if n_viol[kk]),
        "level_note": "partial by nature: goroutine structure and access table of Model/Lifecycle.v are hand-transcribed; real memory races and the Go "
                      "scheduler are explored by this harness under the race detector, not proved",
    })
    run_.assumptions += [
        "Go runtime semantics (channels, mutex, select, context, WaitGroup) and the race detector's happens-before model are trusted; schedules are sampled, not enumerated",
        "between the last event and close() the harness synchronises with nothing, so that no harness-made happens-before chain hides a race of the device's own goroutines",
        "a return later than the 1 s bound is reported only when the same scenario re-run alone is late again (machine load is not a defect); a return that never comes (8 s) is always reported",
        "output channel drained (buffered 16384) and OpenRGB peer responsive (the fake server always reads), as in C16_terminates",
        "observed while testing, outside the statement: handleOpenrgb never closes its OpenRGB client connection (the socket stays open until the garbage collector finalises it)",
    ]


def replay(run_, data):
    sc = data["replay"].get("scenario")
    if not sc:
        return run(run_)
    run(run_, scenarios=[dict(sc, tag="replay")], repeat=12)
