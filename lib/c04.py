"""C04: transposition, channel arithmetic, state actions."""
from common import *
import devgen
from devprop import DevProp


def k(code, val, sub=""):
    return {"t": "k", "sub": sub, "code": code, "val": val}


def tap(code):
    return [k(code, 1), k(code, 0)]


ACT = {"octave_up": 59, "octave_down": 60, "semitone_up": 61, "semitone_down": 62, "channel_up": 63, "channel_down": 64,
       "mapping_up": 65, "mapping_down": 66, "panic": 67, "cc_learning": 68, "multinote": 87}
PAIRS = [("octave_up", "octave_down"), ("semitone_up", "semitone_down"), ("channel_up", "channel_down"), ("mapping_up", "mapping_down")]


def base_cfg(rng, cmode, notes, defaults=None):
    keys = [{"sub": "", "code": 16 + i, "note": n, "off": off} for i, (n, off) in enumerate(notes)]
    maps = [{"name": "M%d" % j, "midi": [dict(kk, note=(kk["note"] + 7 * j) % 128) for kk in keys], "analog": [], "dz": [], "defdz": [], "subs": []}
            for j in range(3)]
    cfg = {"mappings": maps, "actions": [{"code": c, "action": a} for a, c in ACT.items()], "exitseq": [], "cmode": cmode,
           "octave": 0, "semitone": 0, "channel": 1, "mapping": 0, "velocity": 64}
    if defaults:
        cfg.update(defaults)
    return cfg


class C04(DevProp):
    pid = "C04"
    fail_term = "c04_failures k"
    mis_term = "c04_mismatch k"
    soak = True
    monitor_name = ("C04 monitor (State() after every event equals the property's arithmetic - unit steps, saturation, pair reset, defaults - and every "
                    "press sounds base+12*octave+semitone with the configured velocity on (channel+offset) mod 16, or nothing outside 0-127)")
    correspondence_name = "C04 view (Note-On triple or silence at note-key presses; State() after every event)"
    rule = ("base notes over 0-127 (boundary-heavy), runs of octave/semitone presses up to +-25 octaves (past the 8-bit intermediate), channel and "
            "mapping walks beyond both ends, every order of pressing/releasing an up/down pair with at most one complete pair held, defaults at "
            "their extremes, all channel x offset pairs; non-trivial = distinct cases with a note press after a state change")

    def known_signature(self, case, res):
        o = s = 0
        acts = {a["code"]: a["action"] for a in case["cfg"]["actions"]}
        o, s = case["cfg"]["octave"], case["cfg"]["semitone"]
        for e in case["events"]:
            if e["t"] == "k" and e["val"] == 1:
                a = acts.get(e["code"])
                o += (a == "octave_up") - (a == "octave_down")
                s += (a == "semitone_up") - (a == "semitone_down")
                if not (-128 <= o <= 127 and -128 <= s <= 127):
                    return "K1-int8-octave-semitone-wrap"
        return None

    def nontrivial_py(self, case, res):
        acts = {a["code"] for a in case["cfg"]["actions"]}
        seen = False
        for e in case["events"]:
            if e["t"] == "k" and e["val"] == 1:
                if e["code"] in acts:
                    seen = True
                elif seen:
                    return True
        return False

    def perturb(self, case, res):
        # falsify: State() reports a wrong semitone from the middle of the history on
        n = len(res["steps"])
        if n < 4:
            return None
        for st in res["steps"][n // 2:]:
            st["state"]["semitone"] += 1
        return res

    def gen(self, rng, tier):
        cases = []
        big = tier != "quick"
        bnotes = [0, 1, 11, 12, 60, 115, 116, 126, 127]
        # K1 corpus witness (known finding): 128 octave_up presses
        cfg = base_cfg(rng, "off", [(60, 0)])
        cases.append({"cfg": cfg, "abs": [], "events": tap(ACT["octave_up"]) * 128 + tap(16) + tap(ACT["octave_down"]) * 3, "tag": "corpus-K1"})
        for cmode in devgen.CMODES:
            # octave / semitone runs with a press after every step
            for direction in ("up", "down"):
                notes = [(rng.choice(bnotes), rng.choice([0, 15])) for _ in range(4)] + [(rng.randint(0, 127), rng.randint(0, 15))]
                cfg = base_cfg(rng, cmode, notes)
                ev = []
                for i in range(26):
                    ev += tap(ACT["octave_" + direction])
                    ev += tap(16 + i % 5)
                    if i % 3 == 0:
                        ev += tap(ACT["semitone_" + ("up" if i % 2 else "down")]) * (1 + i % 4)
                        ev += tap(16 + (i + 1) % 5)
                cases.append({"cfg": cfg, "abs": [], "events": ev, "tag": "octave-run"})
            # channel and mapping walks past both ends
            cfg = base_cfg(rng, cmode, [(60, o) for o in (0, 1, 7, 15)], {"channel": rng.choice([1, 8, 16])})
            ev = []
            for a in ("channel_up",) * 18 + ("channel_down",) * 20 + ("mapping_up",) * 4 + ("mapping_down",) * 5:
                ev += tap(ACT[a]) + tap(16 + len(ev) % 4)
            cases.append({"cfg": cfg, "abs": [], "events": ev, "tag": "channel-mapping-walk"})
            # pairs: every order of press/release of the two keys, from a displaced state
            for (u, d) in PAIRS:
                for first, second in ((u, d), (d, u)):
                    for rel in ((first, second), (second, first)):
                        cfg = base_cfg(rng, cmode, [(60, 0), (64, 3)], {"octave": 2, "semitone": -3, "channel": 5, "mapping": 1})
                        ev = tap(ACT[u]) * 2 + tap(16) + [k(ACT[first], 1), k(ACT[second], 1)] + tap(17) + \
                            [k(ACT[rel[0]], 0)] + tap(16) + [k(ACT[rel[1]], 0)] + tap(17) + tap(ACT[d]) + tap(16)
                        cases.append({"cfg": cfg, "abs": [], "events": ev, "tag": "pair"})
        # a pair completed while an action of ANOTHER kind (or a non-step action) is already held: the pair must still reset
        for cmode in devgen.CMODES[:2]:
            for (u, d) in PAIRS:
                others = [x for x in ACT if x not in (u, d)]
                for third in others:
                    for first, second in ((u, d), (d, u)):
                        cfg = base_cfg(rng, cmode, [(60, 0), (64, 3)], {"octave": 2, "semitone": -3, "channel": 5, "mapping": 1})
                        ev = tap(ACT[u]) + tap(16) + [k(ACT[third], 1), k(ACT[first], 1), k(ACT[second], 1)] + tap(17) + \
                            [k(ACT[first], 0), k(ACT[second], 0)] + tap(16) + [k(ACT[third], 0)] + tap(17)
                        cases.append({"cfg": cfg, "abs": [], "events": ev, "tag": "pair-with-third-held"})
        # two keys bound to the same step action, pressed overlapping and one after the other
        for cmode in devgen.CMODES[:2]:
            for a1 in ("octave_up", "octave_down", "semitone_up", "semitone_down", "channel_up", "channel_down", "mapping_up", "mapping_down"):
                cfg = base_cfg(rng, cmode, [(60, 0), (30, 2)], {"octave": 1, "semitone": 1, "channel": 5, "mapping": 1})
                cfg["actions"].append({"code": 88, "action": a1})
                k1, k2 = ACT[a1], 88
                ev = [k(k1, 1), k(k2, 1)] + tap(16) + [k(k1, 0)] + tap(17) + [k(k2, 0)] + tap(16) + tap(k1) + tap(k2) + tap(17) + \
                    [k(k2, 1), k(k1, 1), k(k2, 0), k(k1, 0)] + tap(16)
                cases.append({"cfg": cfg, "abs": [], "events": ev, "tag": "shared-action"})
        # defaults at extremes / all channel x offset pairs
        for ch in range(1, 17):
            cfg = base_cfg(rng, "off", [(60, off) for off in range(16)][: 8 if ch % 2 else 16][-8:], {"channel": ch, "velocity": rng.choice([1, 64, 127])})
            cfg["mappings"][0]["midi"] = [{"sub": "", "code": 16 + i, "note": 60, "off": (i * 2 + ch) % 16} for i in range(8)]
            cases.append({"cfg": cfg, "abs": [], "events": sum([tap(16 + i) for i in range(8)], []), "tag": "channel-offset-grid"})
        for d in ({"octave": 10, "semitone": 7}, {"octave": -11, "semitone": -12}, {"octave": 127, "semitone": 0}, {"octave": -128, "semitone": 127},
                  {"octave": 5, "semitone": -128}):
            cfg = base_cfg(rng, "off", [(n, 0) for n in (0, 60, 127)], d)
            cases.append({"cfg": cfg, "abs": [], "events": tap(16) + tap(17) + tap(18) + tap(ACT["octave_down"]) + tap(17), "tag": "defaults"})
        # random histories under the action discipline
        for i in range(160 if not big else 5000):
            cases.append(self.soak_case(rng))
        return cases

    def soak_case(self, rng):
        """one case of the 'random' stream: random histories under the action discipline (also the stream of the extracted-model soak)"""
        cfg = devgen.gen_config(rng, with_exit=False, n_maps=rng.choice([1, 2, 3]))
        if rng.random() < 0.3:
            # an exit sequence whose completing presses are swallowed (some of its keys are action keys): a swallowed press must not act
            acts = [a["code"] for a in cfg["actions"]]
            notes = sorted({kk["code"] for m in cfg["mappings"] for kk in m["midi"]})
            cfg["exitseq"] = rng.sample(acts, min(len(acts), rng.choice([1, 1, 2]))) + rng.sample(notes, min(len(notes), rng.choice([0, 1])))
        h = devgen.gen_history(rng, cfg, rng.randint(20, 90), p_action=0.5, action_discipline=True, avoid_exit=False)
        return {"cfg": cfg, "abs": [], "events": h + devgen.release_all(h), "tag": "random"}


def run(run_):
    C04().run(run_)


def replay(run_, data):
    C04().replay(run_, data)
