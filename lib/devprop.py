"""Generic engine for properties decided on the device state machine (key-only cases)."""
import copy, math
from common import *
import devgen, devrun


class DevProp:
    """Subclass and define: pid, gen(rng, tier) -> list of cases (each with optional 'tag'),
    fail_term / mis_term / nontrivial_term (Coq terms over one `k : kcase`), describe strings."""
    pid = None
    imports = ""
    case_type = "kcase"
    fail_term = None        # k -> list nat (failing step indices); property monitor on the implementation's observations
    mis_term = None         # k -> option nat (first step where the model's view differs from the implementation's)
    nontrivial_term = None  # k -> bool
    rule = ""
    monitor_name = ""
    correspondence_name = ""
    known_signature = None  # function(case, result) -> known finding id or None
    stream = True           # second stage: the cases again in production configuration (lib/devrun.run_stream), flat stream compared
    soak = False            # thorough tier: additional high-volume search with the extracted monitors (lib/soak.py); needs soak_case(rng)

    def emit(self, case, res):
        return devrun.emit_kcase(case, res)

    def run_impl(self, binary, cases):
        return devrun.run_impl(binary, cases)

    def evaluate(self, cases, results, tag):
        evals = [("FAIL", "enum_fail (fun k => %s) 0 cases" % self.fail_term),
                 ("MIS", "enum_some (fun k => %s) 0 cases" % self.mis_term),
                 ("NT", "enum_true (fun k => %s) 0 cases" % (self.nontrivial_term or "false"))]
        n = max(20, min(150, math.ceil(len(cases) / 8)))
        return devrun.eval_shards(cases, results, evals, imports=self.imports, shard=n, emit=self.emit,
                                  case_type=self.case_type, tag=tag)

    def fails(self, binary, case):
        """Does this single case still fail the monitor (or crash) on the implementation?"""
        res, err = self.run_impl(binary, [case])
        if res is None:
            return True, None
        if res[0].get("panic") or res[0].get("hang"):
            return True, res[0]
        m = self.evaluate([case], res, "shrink")
        return bool(m["FAIL"]), res[0]

    def shrink(self, binary, case, budget=36):
        cur = copy.deepcopy(case)
        cur.pop("tag", None)
        n = 2
        used = 0
        while len(cur["events"]) >= 2 and used < budget:
            ev = cur["events"]
            size = max(1, len(ev) // n)
            reduced = False
            for start in range(0, len(ev), size):
                cand = dict(cur, events=ev[:start] + ev[start + size:])
                used += 1
                f, _ = self.fails(binary, cand)
                if f:
                    cur = cand
                    n = max(n - 1, 2)
                    reduced = True
                    break
                if used >= budget:
                    break
            if not reduced:
                if size == 1:
                    break
                n = min(len(ev), n * 2)
        return cur

    def report_case(self, run_, binary, case, what, steps=None, shrink=True, no_input=False):
        sig = None
        small = {k: v for k, v in case.items() if k != "tag"}
        res = None
        if not no_input:
            # a failing step stays failing when the history is cut right after it
            if steps:
                cand = dict(small, events=small["events"][:min(steps) + 1])
                f, r = self.fails(binary, cand)
                if f:
                    small, res = cand, r
            if self.known_signature:
                sig = self.known_signature(small, res)
            known_ids = {k_["id"] for k_ in load_known() if k_.get("property") == self.pid and k_.get("status") == "known"}
            if shrink and sig not in known_ids:
                try:
                    small = self.shrink(binary, small)
                except CheckError:
                    pass
                _, res = self.fails(binary, small)
                if self.known_signature:
                    sig = self.known_signature(small, res)
            elif res is None:
                _, res = self.fails(binary, small)
        rep = {"kind": "device-history", "case": small,
               "implementation_observation": res, "failing_steps": steps,
               "monitor": self.monitor_name if not no_input else None,
               "theorem_or_correspondence": self.correspondence_name if no_input else None,
               "original_length": len(case["events"])}
        run_.violation(what, rep, no_input=no_input, signature=sig)

    def report(self, run_, binary, cases, results, m, stage="", ids=None):
        """The reporting path of a stage: crashes, monitor failures (cut after the failing step, shrunk, matched against the known
        findings), else a view mismatch. m = evaluate(cases, results); ids = display numbers of the cases (default: positions)."""
        ids = ids or list(range(len(cases)))
        crashed = [i for i, r in enumerate(results) if r.get("panic") or r.get("hang")]
        for i in crashed[:3]:
            r = results[i]
            self.report_case(run_, binary, cases[i], "%sthe device %s while processing a history (event %s): %s" % (
                stage, "hung" if r.get("hang") else "panicked", r.get("panic_at"), r.get("panic")), shrink=True)
        failing = {}
        for item in m["FAIL"]:
            failing[item[0]] = item[1]
        reported = 0
        for i in sorted(failing)[:40]:
            if reported >= 3 and not self.known_signature:
                break
            before = len(run_.violations)
            self.report_case(run_, binary, cases[i], "%s%s fails on the implementation at step(s) %s of a %d-event history (case %d%s)" % (
                stage, self.monitor_name, failing[i][:5], len(cases[i]["events"]), ids[i], ", " + cases[i]["tag"] if cases[i].get("tag") else ""),
                steps=failing[i])
            if len(run_.violations) > before:
                reported += 1
            if len(run_.violations) >= 3:
                break
        mism = [it for it in m["MIS"] if it[0] not in failing]
        if mism and not run_.violations:
            i, step = mism[0][0], mism[0][1]
            self.report_case(run_, binary, cases[i],
                             "%scorrespondence %s no longer checks: the model's view differs from the implementation's at step %s of case %d "
                             "(%d diverging cases), and no case in this run fails the property monitor" % (
                                 stage, self.correspondence_name, step, ids[i], len(mism)),
                             steps=[step], shrink=False, no_input=True)
        return failing, crashed

    def run(self, run_, cases=None, replaying=False):
        import random
        rng = random.Random(run_.seed)
        run_.proof_obligations()
        binary, err = go_build("device")
        if binary is None:
            run_.violation("device harness does not build against /repo: " + err,
                           {"theorem_or_correspondence": self.correspondence_name + " (harness build)", "error": err}, no_input=True)
            return
        if cases is None:
            cases = self.gen(rng, run_.tier)
        results, err = self.run_impl(binary, cases)
        if results is None:
            run_.violation("device harness failed: " + err,
                           {"theorem_or_correspondence": self.correspondence_name + " (harness run)", "error": err}, no_input=True)
            return
        m = self.evaluate(cases, results, self.pid.lower())
        failing, crashed = self.report(run_, binary, cases, results, m)
        if hasattr(self, "nontrivial_py"):
            m["NT"] = [(i,) for i in range(len(cases)) if not (results[i].get("panic") or results[i].get("hang")) and self.nontrivial_py(cases[i], results[i])]
        nt = len({json.dumps([cases[it[0]]["cfg"], cases[it[0]]["events"]], sort_keys=True) for it in m["NT"]})
        sample = cases[m["NT"][0][0]] if m["NT"] else cases[0]
        k = m["NT"][0][0] if m["NT"] else 0
        tags = {}
        for c in cases:
            tags[c.get("tag", "random")] = tags.get(c.get("tag", "random"), 0) + 1
        lens = [len(c["events"]) for c in cases]
        modes = {}
        for c in cases:
            modes[c["cfg"]["cmode"]] = modes.get(c["cfg"]["cmode"], 0) + 1
        run_.coverage.update({
            "evaluations": len(cases),
            "distinct_nontrivial": nt,
            "rule": self.rule,
            "samples": [{"config": sample["cfg"], "events": sample["events"][:40],
                         "implementation_steps": [{"midi": s["midi"], "sigs": s["sigs"]} for s in results[k]["steps"][:40]]}],
            "generator_distribution": {"streams": tags, "history_length_min": min(lens), "history_length_max": max(lens),
                                       "history_length_mean": round(sum(lens) / len(lens), 1), "collision_modes": modes,
                                       "events_total": sum(lens)},
            "monitor_failures": len(failing), "view_mismatches": len(m["MIS"]), "crashes": len(crashed),
            "correspondence_obligations": 2,
        })
        self.extra_coverage(run_, cases, results, m)
        if self.stream and (not run_.violations or all(v["no_input"] for v in run_.violations)):
            self.stream_stage(run_, binary, cases, results, replaying)
        if not run_.violations and not replaying and hasattr(self, "perturb"):
            self.self_test(run_, cases, results)
        n_soak = int(os.environ.get("VERIF_SOAK", "50000"))
        if self.soak and run_.tier == "thorough" and not run_.violations and not replaying and n_soak > 0:
            import soak
            soak.run_soak(self, run_, n_cases=n_soak, seed=run_.seed, binary=binary)

    def stream_stage(self, run_, binary, cases, results, replaying):
        """The cases once more, the way production runs a device: output channel of capacity 8, events back to back, a consumer that
        is slower than the device and reads a message's bytes only after 17 further messages were taken (forwarder + driver channel).
        The flat stream that consumer sees must be the concatenation of the stepped run's per-step outputs and clean-up (the
        observations the Coq monitor/view of this property have just checked): the theorems speak about every schedule only if the
        output does not depend on the schedule."""
        cap = 2500 if run_.tier == "quick" else 12000
        idx = [i for i, r in enumerate(results) if not (r.get("panic") or r.get("hang") or r.get("rejected"))
               and not any(e.get("t") == "m" for e in cases[i]["events"])]
        if len(idx) > cap:
            stride = len(idx) / float(cap)
            idx = sorted({idx[int(j * stride)] for j in range(cap)})
        if not idx:
            return
        sub = [cases[i] for i in idx]
        sres, err = devrun.run_stream(binary, sub)
        if sres is None:
            run_.violation("device harness (stream mode) failed: " + err,
                           {"theorem_or_correspondence": "stream view (harness run)", "error": err}, no_input=True)
            return
        bad = []
        n_msgs = 0
        for j, i in enumerate(idx):
            want = [m for st in results[i]["steps"] for m in st["midi"]] + list(results[i]["cleanup"])
            wsigs = sum(st["sigs"] for st in results[i]["steps"])
            r = sres[j]
            n_msgs += len(r["stream"])
            if r.get("panic") or r.get("hang"):
                bad.append((i, j, "crash"))
            else:
                # the clean-up walks a Go map: its order is unspecified (the views compare it as a multiset too)
                n = len(want) - len(results[i]["cleanup"])
                got = r["stream"]
                if got[:n] != want[:n] or sorted(got[n:]) != sorted(want[n:]) or r["sigs"] != wsigs:
                    bad.append((i, j, "differs"))
        prev = run_.coverage.get("stream_stage", {})
        run_.coverage["stream_stage"] = {
            "cases": len(idx) + prev.get("cases", 0), "messages": n_msgs + prev.get("messages", 0), "differing": len(bad) + prev.get("differing", 0),
            "configuration": "output channel capacity 8 (cmd/hidi/main.go), events back to back, consumer 4 us/message with 1 ms stalls, "
                             "bytes read after 17 further messages; compared with the concatenated per-step output of the stepped run"}
        run_.coverage["correspondence_obligations"] = run_.coverage.get("correspondence_obligations", 2) + 1
        if not bad:
            return
        # prefer a case whose receiver-side trajectory differs (a concrete failing history), and the shortest of those
        def concrete(i, j):
            want = [m for st in results[i]["steps"] for m in st["midi"]] + list(results[i]["cleanup"])
            return devrun.receiver_trajectory(want) != devrun.receiver_trajectory(sres[j]["stream"])
        ranked = sorted(bad, key=lambda b: (b[2] != "crash" and not concrete(b[0], b[1]), len(cases[b[0]]["events"])))
        i, j, kind = ranked[0]
        want = [m for st in results[i]["steps"] for m in st["midi"]] + list(results[i]["cleanup"])
        got = sres[j]["stream"]
        k = 0
        while k < min(len(want), len(got)) and want[k] == got[k]:
            k += 1
        is_concrete = kind == "crash" or concrete(i, j)
        if not is_concrete and run_.violations:
            return
        if is_concrete:
            run_.violations = [v for v in run_.violations if not v["no_input"]]
        case = {kk: v for kk, v in cases[i].items() if kk != "tag"}
        what = ("production configuration (8-slot output channel, back-to-back events, lagging consumer): " + (
            "the device %s (event %s): %s" % ("hung" if sres[j].get("hang") else "panicked", sres[j].get("panic_at"), sres[j].get("panic"))
            if kind == "crash" else
            "the message stream at the receiver differs from the stepped run of the same %d-event history at message %d of %d/%d (%s vs %s); "
            "%d of %d cases differ%s" % (len(case["events"]), k, len(got), len(want), got[k:k + 2], want[k:k + 2], len(bad), len(idx),
                                        "" if is_concrete else "; the receiver-side trajectories (sounding notes, controllers) agree")))
        run_.violation(what, {"kind": "device-history-stream", "case": case, "stream_observed": got[:600], "stream_expected": want[:600],
                              "first_difference": k, "signals_observed": sres[j]["sigs"],
                              "theorem_or_correspondence": None if is_concrete else "stream view (flat stream under production scheduling = stepped run)"},
                       no_input=not is_concrete)

    def self_test(self, run_, cases, results, want=6):
        """Sensitivity self-test of the pipeline (emitters + Coq monitor/view): a deliberately falsified observation of the
        implementation must be flagged; otherwise the comparison is vacuous and the run is reported as broken."""
        import copy
        pc, pr = [], []
        for c, r in zip(cases, results):
            if r.get("panic") or r.get("hang"):
                continue
            r2 = self.perturb(c, copy.deepcopy(r))
            if r2 is not None:
                pc.append(c)
                pr.append(r2)
            if len(pc) >= want:
                break
        if not pc:
            return
        m = self.evaluate(pc, pr, self.pid.lower() + "self")
        flagged = {it[0] for it in m["FAIL"]} | {it[0] for it in m["MIS"]}
        run_.coverage["self_test_falsified_observations"] = len(pc)
        run_.coverage["self_test_flagged"] = len(flagged)
        if len(flagged) < len(pc):
            raise CheckError("self-test: %d of %d falsified observations were not flagged by the %s monitor/view" % (
                len(pc) - len(flagged), len(pc), self.pid))

    def extra_coverage(self, run_, cases, results, m):
        pass

    def replay(self, run_, data):
        case = data["replay"].get("case")
        if not case:
            return self.run(run_)
        self.run(run_, cases=[case], replaying=True)
