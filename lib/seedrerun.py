#!/usr/bin/env python3
"""Regression over the filed changes: re-runs the checks against every seeded (must be detected) and benign (must stay silent)
change in its own scratch worktree of /repo (VERIF_REPO), never touching /repo or /verif/evidence.
usage: seedrerun.py [seeded|benign|all] [dir names...]     prints one line per change; exit 1 if an expectation fails"""
import json, os, re, shutil, subprocess, sys, tempfile
from concurrent.futures import ThreadPoolExecutor
ENV = dict(os.environ, GOFLAGS="-mod=mod", GOPROXY="off", GOSUMDB="off", GOTOOLCHAIN="local")


def sh(cmd, cwd=None, timeout=3000):
    r = subprocess.run(cmd, shell=True, cwd=cwd, env=ENV, capture_output=True, text=True, timeout=timeout)
    return r.returncode, r.stdout + r.stderr


def one(kind, name):
    d = os.path.join("/verif", kind, name)
    meta = json.load(open(os.path.join(d, "meta.json")))
    pid = meta["property"]
    if kind == "seeded":
        checks = [pid] + [c for c in (meta.get("confirmation", {}).get("detected_by") or []) if c != pid]   # others only if its own misses
    else:
        checks = sorted(meta.get("evaluation", {}).get("checks", {pid: 0}).keys())
    wt = tempfile.mkdtemp(prefix="rerun-%s-" % name, dir="/tmp")
    os.rmdir(wt)
    out = wt + "-out"
    os.makedirs(out)
    try:
        rc, o = sh("git -C /repo worktree add --detach %s HEAD" % wt)
        assert rc == 0, o
        rc, o = sh("git apply %s" % os.path.join(d, "patch.diff"), cwd=wt)
        if rc != 0:
            return name, "PATCH-DOES-NOT-APPLY", {}
        res = {}
        for c in checks:
            if kind == "seeded" and any(r["exit"] != 0 and not r["no_input"] for r in res.values()):
                break
            rc, o = sh("VERIF_REPO=%s VERIF_SCRATCH_OUT=%s ./check %s --tier quick" % (wt, out, c), cwd="/verif")
            vio = [l for l in o.split("\n") if l.startswith("VIOLATION")]
            res[c] = {"exit": rc, "violations": len(vio), "no_input": bool(vio) and all(l.rstrip().endswith("no-failing-input-found") for l in vio)}
        if kind == "seeded":
            ok = any(r["exit"] != 0 for r in res.values())
            verdict = "detected" if ok else "MISSED"
            if ok and all(r["no_input"] for r in res.values() if r["exit"] != 0):
                verdict = "detected(no-failing-input)"
            elif ok and res.get(pid, {}).get("exit") == 0:
                verdict = "detected(by-other-check)"
        else:
            ok = all(r["exit"] == 0 for r in res.values())
            verdict = "silent" if ok else "FALSE-ALARM"
        return name, verdict, res
    finally:
        sh("git -C /repo worktree remove --force %s" % wt)
        shutil.rmtree(out, ignore_errors=True)


def main():
    which = sys.argv[1] if len(sys.argv) > 1 else "all"
    names = sys.argv[2:]
    jobs = []
    for kind in (["seeded", "benign"] if which == "all" else [which]):
        base = os.path.join("/verif", kind)
        if not os.path.isdir(base):
            continue
        for n in sorted(os.listdir(base)):
            if os.path.exists(os.path.join(base, n, "patch.diff")) and (not names or n in names):
                jobs.append((kind, n))
    bad = 0
    with ThreadPoolExecutor(max_workers=int(os.environ.get("RERUN_JOBS", "3"))) as ex:
        for (kind, n), (name, verdict, res) in zip(jobs, ex.map(lambda j: one(*j), jobs)):
            print("%-7s %-8s %-28s %s" % (kind, name, verdict, json.dumps(res)), flush=True)
            if verdict in ("MISSED", "FALSE-ALARM", "PATCH-DOES-NOT-APPLY"):
                bad += 1
    sys.exit(1 if bad else 0)


if __name__ == "__main__":
    main()
