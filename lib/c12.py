"""C12: config selection (FindConfig) and directory loading (LoadDeviceConfigs / loadDirectory)."""
import copy, itertools, json, random, re
import zlib
from common import *

ORDER = ["fg", "fk", "ug", "uk"]                       # LoadDeviceConfigs' loading order
DIRS = {"fg": "hidi-config/factory/gamepad", "fk": "hidi-config/factory/keyboard",
        "ug": "hidi-config/user/gamepad", "uk": "hidi-config/user/keyboard"}
ROOTNAME = {"fg": "gamepad", "fk": "keyboard", "ug": "gamepad", "uk": "keyboard"}
PARENT = {"fg": "factory", "fk": "factory", "ug": "user", "uk": "user"}
TYPES = {0: "Unknown", 1: "Keyboard", 2: "Mouse", 3: "Joystick"}   # anything else prints as "Unknown" in Go
ZERO = (0, 0, 0, 0)
BAD_HANDLE = 999999999

CHECK_NAMES = {
    1: "load monitor (C12_load_monitor: no panic, an error only when something is missing/unreadable, otherwise each map = "
       "last successfully parsed *.toml per identifier in Walk order and nothing else)",
    3: "entry view (every map entry carries ConfigFile = name of the winning file and ConfigType of its directory)",
    4: "precedence monitor (C12_find_monitor on the implementation's own maps: user exact, user default, factory exact, "
       "factory default; keyboard maps for keyboards, gamepad maps for joysticks; otherwise an error)",
    6: "FindConfig result view (the returned DeviceConfig is the entry of the map it was found in)",
    7: "report view (C12_reported: exactly the *.toml files that failed to parse are logged, in order)",
}


# ----------------------------------------------------------------------------- file contents

def cfg_text(rng, idt, marker, rich=None):
    """A device configuration the real ParseData accepts (minimal form found by probing it: collision_mode, one
    [[mapping]] with a name, [defaults] mapping naming it), with the chosen identifier; `marker` goes into
    identifier.uniq so that the file a map entry came from can be recognised whatever its name."""
    rich = rng.random() < 0.3 if rich is None else rich
    fmt = rng.choice(["%d", "0x%x", "0x%04x"])
    s = 'collision_mode = "%s"\n' % rng.choice(["interrupt", "off", "no_repeat", "retrigger"])
    if rich:
        s += 'exit_sequence = ["KEY_LEFTALT", "KEY_ESC"] # comment\n'
    s += "\n[identifier]\n"
    fields = [("bus", idt[0]), ("vendor", idt[1]), ("product", idt[2]), ("version", idt[3])]
    if rng.random() < 0.3:
        rng.shuffle(fields)
    for k, v in fields:
        if v == 0 and rng.random() < 0.2:
            continue                     # an absent field is zero
        s += "  %s = %s\n" % (k, fmt % v)
    s += '  uniq = "%s"\n' % marker
    s += '\n[defaults]\n  mapping = "m"\n'
    if not rich:
        s += "  channel = %d\n" % rng.choice([1, 1, 10, 16])      # required since the default-channel fix (1..16)
    if rich:
        s += "  octave = 1\n  channel = 2\n  velocity = 100\n\n[action_mapping]\n  KEY_ESC = \"panic\"\n\n[open_rgb]\n  white = 0x005500\n"
    s += '\n[[mapping]]\n  name = "m"\n'
    if rich:
        s += '  [[mapping.keys]]\n    subhandler = ""\n    [mapping.keys.map]\n      KEY_A = "c0"\n      KEY_S = "d0"\n'
    return s


BROKEN_KINDS = ["syntax", "unknown_field", "bad_collision", "id_range", "no_default_mapping", "empty", "junk",
                "velocity", "bad_note", "type_mismatch", "truncated", "decoder_panic"]


def broken_text(rng, idt, marker, kind):
    good = cfg_text(rng, idt, marker, rich=True)
    if kind == "syntax":
        return good.replace("[defaults]", "[defaults")
    if kind == "unknown_field":
        return "frobnicate = 1\n" + good
    if kind == "bad_collision":
        return re.sub(r'collision_mode = "\w+"', 'collision_mode = "bogus"', good)
    if kind == "id_range":
        return good.replace('  uniq =', '  version2 = 1\n  uniq =') if rng.random() < 0.5 else \
            re.sub(r"\[identifier\]\n", "[identifier]\n  bus = 70000\n  #", good, count=1)
    if kind == "no_default_mapping":
        return good.replace('mapping = "m"', 'mapping = "nope"')
    if kind == "empty":
        return ""
    if kind == "junk":
        return "".join(chr(rng.randrange(1, 127)) for _ in range(rng.randrange(1, 60)))
    if kind == "velocity":
        return good.replace("velocity = 100", "velocity = 200")
    if kind == "bad_note":
        return good.replace('KEY_A = "c0"', 'KEY_A = "h9"')
    if kind == "type_mismatch":
        return good.replace("octave = 1", 'octave = "one"')
    if kind == "truncated":
        return good[:rng.randrange(5, max(6, len(good) - 5))]
    if kind == "decoder_panic":     # well-formed TOML on which go-toml v2.0.3 panics (ParseData must turn that into an error: a bad file like any other)
        hdr = 'collision_mode = "off"\n[defaults]\nmapping = "a"\nchannel = 1\n[[mapping]]\nname = "a"\n'
        return rng.choice([hdr + '[[mapping.keys]]\n[mapping.keys.map]\nKEY_A = {a = 1}\n',
                           hdr + '[[mapping.analog]]\n[mapping.analog.map]\nABS_X = {type = "cc", cc = 1979-05-27}\n',
                           'collision_mode = 1979-05-27T07:32:00Z\n', '[[mapping.0]]\n'])
    raise ValueError(kind)


# ----------------------------------------------------------------------------- trees
# node: {"t": "f", "name", "content", "h", "mode0"} | {"t": "d", "name", "ch", "mode0"} | {"t": "l", "name", "target"}
# root: {"state": "dir" | "missing" | "file", "node": ...};  case: {"roots": {fg,fk,ug,uk}, "block": None|"user"|"factory"|"all",
#        "unpriv": bool, "queries": [...], "tags": [...]}

class Gen:
    def __init__(self, rng):
        self.rng = rng
        self.kinds = {}

    def count(self, k, n=1):
        self.kinds[k] = self.kinds.get(k, 0) + n

    def fresh_id(self, avoid=()):
        while True:
            idt = tuple(self.rng.choice([self.rng.randrange(1, 65536), self.rng.randrange(1, 8), 0]) for _ in range(4))
            if idt != ZERO and idt not in avoid:
                return idt

    def newfile(self, case, name, idt, kind="valid", mode0=False):
        h = case["nfiles"]
        case["nfiles"] += 1
        marker = "f%d" % h
        if kind == "valid":
            content = cfg_text(self.rng, idt, marker)
        else:
            content = broken_text(self.rng, idt, marker, kind)
        self.count("file:" + ("valid" if kind == "valid" else "broken:" + kind))
        # one file in six is present as a symbolic link to a regular file kept outside the hidi-config tree (the dotfiles-manager
        # layout): opening follows the link, so for the loader it is the file; decided by the content, not by another random draw
        link = (not mode0) and zlib.crc32(content.encode("utf-8", "surrogatepass")) % 6 == 0
        if link:
            self.count("file:present as a symlink to a regular file")
        return {"t": "f", "name": name, "content": content, "h": h, "mode0": mode0, "kind": kind, "id": list(idt), "link": link}

    def empty_case(self, tags):
        return {"roots": {d: {"state": "dir", "node": {"t": "d", "name": ROOTNAME[d], "ch": [], "mode0": False}} for d in ORDER},
                "block": None, "unpriv": False, "queries": [], "tags": list(tags), "nfiles": 0}


TOML_NAMES = ["0_default.toml", "a.toml", "A.toml", "a-b.toml", "a_b.toml", "B.TOML", "Mixed.ToMl", "_x.toml", "zz.toml",
              "My Device.toml", "device (1).toml", ".toml", "x.y.toml", "PS4_Controller.toml", "~tmp.toml", "9.toml"]
NON_TOML_NAMES = ["README", "README.md", "notes.txt", "footoml", "toml", "TOML", "a.toml.bak", "a.toml~", "b.tom", "c.tomll",
                  "d.toml.", "e.toml ", ".hidden", "x.yaml", "atoml", "f.to ml"]
DIR_NAMES = ["a", "b", "sub", "Z", "old", "d.toml", "0", "a-b", "nested dir"]


def pick_name(rng, pool, used):
    cand = [n for n in pool if n not in used]
    if not cand:
        n = "n%d%s" % (len(used), rng.choice(pool))
        while n in used:
            n = "n" + n
        return n
    return rng.choice(cand)


def random_dir(g, case, idpool, depth, nmax, unpriv):
    """children of one directory"""
    rng = g.rng
    ch, used = [], set()
    for _ in range(rng.randrange(0, nmax + 1)):
        r = rng.random()
        if r < 0.42:
            name = pick_name(rng, TOML_NAMES, used)
            ch.append(g.newfile(case, name, rng.choice(idpool), "valid"))
            if name != name.lower():
                g.count("name:upper-case suffix or letters")
        elif r < 0.60:
            name = pick_name(rng, TOML_NAMES, used)
            ch.append(g.newfile(case, name, rng.choice(idpool), rng.choice(BROKEN_KINDS)))
        elif r < 0.74:
            name = pick_name(rng, NON_TOML_NAMES, used)
            # mostly perfectly valid configurations under a name that must be ignored
            ch.append(g.newfile(case, name, rng.choice(idpool), "valid" if rng.random() < 0.7 else rng.choice(BROKEN_KINDS)))
            g.count("name:not *.toml")
        elif r < 0.88 and depth < 2:
            name = pick_name(rng, DIR_NAMES, used)
            sub = {"t": "d", "name": name, "ch": random_dir(g, case, idpool, depth + 1, max(1, nmax - 2), unpriv), "mode0": False}
            if unpriv and rng.random() < 0.35:
                sub["mode0"] = True
                g.count("dir:nested mode 000 (really unreadable, fsuid 65534)")
            ch.append(sub)
            g.count("dir:nested")
        elif r < 0.94:
            name = pick_name(rng, TOML_NAMES + NON_TOML_NAMES, used)
            ch.append({"t": "l", "name": name, "target": rng.choice(["does-not-exist", ".", ".."])})
            g.count("symlink:dangling or to a directory")
        elif unpriv:
            name = pick_name(rng, TOML_NAMES, used)
            ch.append(g.newfile(case, name, rng.choice(idpool), "valid", mode0=True))
            g.count("file:mode 000 (really unreadable, fsuid 65534)")
        else:
            name = pick_name(rng, TOML_NAMES, used)
            ch.append(g.newfile(case, name, rng.choice(idpool), "valid"))
        used.add(ch[-1]["name"])
    rng.shuffle(ch)
    return ch


def std_queries(ids, extra_types=False):
    tys = [0, 1, 2, 3] + ([-1, 4, 77] if extra_types else [])
    return [{"id": list(i), "type": t} for i in ids for t in tys]


def gen_grid(g):
    """ALL 16 x 16 presence combinations of the four candidate files (user exact, user default, factory exact, factory
    default) of the keyboard class and of the gamepad class; queried with the matching, a non-matching and the zero
    identifier for all 4 device types (hence all 16 x 2 classes x {matching, non-matching} x 4 types)."""
    rng = g.rng
    cases = []
    for kb in range(16):
        for gp in range(16):
            case = g.empty_case(["grid"])
            x = g.fresh_id()
            y = g.fresh_id(avoid=(x,))
            case["grid"] = {"kb": kb, "gp": gp, "x": list(x), "y": list(y)}
            for cls, bits in (("k", kb), ("g", gp)):
                for bit, (d, idt) in enumerate([("u" + cls, x), ("u" + cls, ZERO), ("f" + cls, x), ("f" + cls, ZERO)]):
                    if bits >> bit & 1:
                        used = {c["name"] for c in case["roots"][d]["node"]["ch"]}
                        name = pick_name(rng, TOML_NAMES, used)
                        case["roots"][d]["node"]["ch"].append(g.newfile(case, name, idt, "valid"))
            case["queries"] = std_queries([x, y, ZERO], extra_types=(kb + gp) % 5 == 0)
            cases.append(case)
    return cases


def populate(g, case, idpool, nmax=4):
    for d in ORDER:
        case["roots"][d]["node"]["ch"] = random_dir(g, case, idpool, 0, nmax, case["unpriv"])


def gen_missing(g, reps):
    """each of the four directories missing / a file in its place / (fsuid 65534) mode 000 / parent not searchable;
    hidi-config or hidi-config/{user,factory} missing; the other directories populated."""
    rng = g.rng
    cases = []
    # first: the plain D11 witness - only hidi-config/user/keyboard absent, factory defaults present
    case = g.empty_case(["missing:uk", "d11-witness"])
    case["roots"]["fk"]["node"]["ch"].append(g.newfile(case, "0_default.toml", ZERO, "valid"))
    case["roots"]["fg"]["node"]["ch"].append(g.newfile(case, "0_default.toml", ZERO, "valid"))
    case["roots"]["uk"] = {"state": "missing"}
    case["queries"] = std_queries([ZERO, (3, 1, 2, 0)])
    cases.append(case)
    for rep in range(reps):
        for d in ORDER:
            for how in ["missing", "file", "mode0", "blocked"]:
                x = g.fresh_id()
                case = g.empty_case(["%s:%s" % (how, d)])
                case["unpriv"] = how in ("mode0", "blocked")
                populate(g, case, [ZERO, x], nmax=3 if rep else 1)
                if how == "missing":
                    case["roots"][d] = {"state": "missing"}
                elif how == "file":
                    case["roots"][d] = {"state": "file", "node": g.newfile(case, ROOTNAME[d], x, rng.choice(["valid", "junk"]))}
                elif how == "mode0":
                    case["roots"][d]["node"]["mode0"] = True
                else:
                    case["block"] = PARENT[d]
                case["queries"] = std_queries([ZERO, x])
                cases.append(case)
                g.count("root:" + how)
        for blk in ["all", "user", "factory"]:
            x = g.fresh_id()
            case = g.empty_case(["parent-missing:" + blk])
            populate(g, case, [ZERO, x], nmax=2)
            case["block"] = blk
            case["block_missing"] = True
            case["queries"] = std_queries([ZERO, x])
            cases.append(case)
            g.count("root:parent directory missing")
    return cases


def gen_random(g, n, unpriv_share=0.2):
    rng = g.rng
    cases = []
    for k in range(n):
        case = g.empty_case(["random"])
        case["unpriv"] = rng.random() < unpriv_share
        x = g.fresh_id()
        y = g.fresh_id(avoid=(x,))
        z = g.fresh_id(avoid=(x, y))
        idpool = [ZERO, ZERO, x, x, y]       # few identifiers: duplicates inside one directory are common
        populate(g, case, idpool, nmax=rng.choice([2, 4, 6, 9]))
        case["queries"] = std_queries([x, y, z, ZERO], extra_types=k % 7 == 0)
        if k % 4 == 2:
            # entries NEXT to the four configuration directories whose names merely begin like theirs (keyboard.bak/, gamepad.d/, gamepad_old/,
            # keyboard-ideas.toml) or lie beside them (hidi-config/x.toml, user/x.toml): not configuration directories - nothing in them counts
            sib = []
            for _ in range(rng.randint(1, 4)):
                parent = rng.choice(["user", "factory", "user", ""])
                kind = rng.choice(["dir", "dir", "file"])
                stem = rng.choice(["keyboard", "gamepad"])
                if kind == "dir":
                    name = stem + rng.choice([".bak", ".d", "_old", "2", " (copy)", "s", "-backup", "~"])
                    node = {"t": "d", "name": name, "mode0": False, "ch": [g.newfile(case, rng.choice(["0_default.toml", "a.toml", "zz.toml"]), rng.choice(idpool), "valid")
                                                                          for _ in range(rng.randint(1, 2))]}
                    names = set()
                    node["ch"] = [c for c in node["ch"] if not (c["name"] in names or names.add(c["name"]))]
                else:
                    node = g.newfile(case, stem + rng.choice(["-ideas.toml", ".toml", "_old.toml"]), rng.choice(idpool), "valid")
                if (parent, node["name"]) not in {(p_, n_["name"]) for p_, n_ in sib}:
                    sib.append((parent, node))
                    g.count("sibling:" + ("directory" if kind == "dir" else "file") + " beside the configuration directories")
            case["siblings"] = sib
            case["tags"].append("siblings")
        if k % 3 == 1 and not case["unpriv"]:
            case["warm"] = rng.randrange(1, 10 ** 9)       # the same directory was loaded before with other contents (see harness_case)
            case["tags"].append("warm-reload")
        cases.append(case)
    return cases


def gen_order(g):
    """hand-written: orders in which name order and path order differ, suffix edge cases, later-wins chains"""
    cases = []
    x = (3, 0x46d, 0xc52b, 0x111)
    # directory "a" (contents visited in place) sorts before "a-b.toml" by name, after it by path
    case = g.empty_case(["order:name-vs-path"])
    ch = case["roots"]["uk"]["node"]["ch"]
    ch.append(g.newfile(case, "a-b.toml", x, "valid"))
    ch.append({"t": "d", "name": "a", "mode0": False, "ch": [g.newfile(case, "z.toml", x, "valid")]})
    ch.append(g.newfile(case, "B.TOML", ZERO, "valid"))
    ch.append(g.newfile(case, "b.toml", ZERO, "valid"))
    case["queries"] = std_queries([x, ZERO])
    cases.append(case)
    # the same identifier in five files of one directory, upper/lower case and a nested one
    case = g.empty_case(["order:later-wins-chain"])
    ch = case["roots"]["fg"]["node"]["ch"]
    for nm in ["1.toml", "10.toml", "2.TOML", "_.toml", "Z.toml"]:
        ch.append(g.newfile(case, nm, x, "valid"))
    ch.append({"t": "d", "name": "zz", "mode0": False, "ch": [g.newfile(case, "0.toml", x, "valid"), g.newfile(case, "1.toml", x, "syntax")]})
    ch.append(g.newfile(case, "zzz.toml", x, "bad_collision"))
    case["queries"] = std_queries([x, ZERO])
    cases.append(case)
    # suffix edge cases, every one a valid configuration for the queried identifier
    case = g.empty_case(["suffix"])
    for d, names in (("uk", [".toml", "footoml", "x.toml.bak", "X.TOML"]), ("fk", ["toml", "y.tomL", "z.toml "]),
                     ("ug", ["d.toml"]), ("fg", ["A.Toml", "a.toml~"])):
        for nm in names:
            if nm == "d.toml":
                case["roots"][d]["node"]["ch"].append({"t": "d", "name": nm, "mode0": False, "ch": [g.newfile(case, "inner.toml", x, "valid")]})
            else:
                case["roots"][d]["node"]["ch"].append(g.newfile(case, nm, rng_choice_id(g, x), "valid"))
    case["queries"] = std_queries([x, ZERO])
    cases.append(case)
    return cases


def rng_choice_id(g, x):
    return g.rng.choice([x, ZERO])


# ----------------------------------------------------------------------------- case -> harness ops

def _strip_links(node):
    """sibling entries are written as plain files (no symlink indirection): they are outside the model's trees"""
    if node["t"] == "f":
        node["link"] = False
    for c in node.get("ch", []):
        _strip_links(c)
    return []


def case_ops(case):
    ops, probes = [], []
    blk = case.get("block")
    parents = {"user": "hidi-config/user", "factory": "hidi-config/factory"}
    if blk == "all" and case.get("block_missing"):
        return [], []
    ops.append({"op": "mkdir", "path": "hidi-config"})
    for p, path in parents.items():
        if case.get("block_missing") and blk == p:
            continue
        ops.append({"op": "mkdir", "path": path})

    def emit(node, path):
        if node["t"] == "f" and node.get("link"):
            if not any(o["path"] == "linktargets" for o in ops):
                ops.append({"op": "mkdir", "path": "linktargets"})
            tgt = "linktargets/f%d-%s" % (node["h"], "real.toml")
            ops.append({"op": "write", "path": tgt, "content": node["content"]})
            ops.append({"op": "symlink", "path": path, "content": os.path.relpath(tgt, os.path.dirname(path))})
        elif node["t"] == "f":
            ops.append({"op": "write", "path": path, "content": node["content"]})
            if node.get("mode0"):
                ops.append({"op": "chmod", "path": path, "mode": 0})
                probes.append(path)
        elif node["t"] == "l":
            ops.append({"op": "symlink", "path": path, "content": node["target"]})
        else:
            ops.append({"op": "mkdir", "path": path})
            for c in node["ch"]:
                emit(c, path + "/" + c["name"])
            if node.get("mode0"):
                ops.append({"op": "chmod", "path": path, "mode": 0})
                probes.append(path)

    for d in ORDER:
        root = case["roots"][d]
        if case.get("block_missing") and blk in (PARENT[d], "all"):
            continue
        if root["state"] == "missing":
            continue
        emit(root["node"], DIRS[d])
    for parent, node in case.get("siblings", []):
        if blk or case.get("block_missing"):
            break
        base = "hidi-config" + ("/" + parent if parent else "")
        for l in _strip_links(node):
            pass
        emit(node, base + "/" + node["name"])
    if blk in parents and not case.get("block_missing"):
        ops.append({"op": "chmod", "path": parents[blk], "mode": 0})
        probes.append(parents[blk])
    return ops, probes


def harness_case(case):
    ops, probes = case_ops(case)
    hc = {"ops": ops, "unpriv": bool(case["unpriv"]), "probe": probes, "queries": case["queries"]}
    if case.get("warm"):
        # an earlier load of the same directory saw OTHER contents at the same paths: valid configurations for other devices where
        # the tree now has anything else, broken text where it now has something valid (see the harness: c12Case.Warm)
        import random as _r
        r = _r.Random(case["warm"])
        warm = []
        for i, op in enumerate(ops):
            if op["op"] == "mkdir":
                warm.append(op)
            elif op["op"] == "write":
                other = cfg_text(r, [r.randrange(1, 9), r.randrange(1, 60000), r.randrange(1, 60000), r.randrange(0, 3)], "warm%d" % i, rich=False)
                warm.append({"op": "write", "path": op["path"], "content": other if r.random() < 0.7 else "this is [not toml"})
        hc["warm"] = warm
    return hc


def file_nodes(case):
    """file nodes in the order their write ops are emitted"""
    out = []

    def rec(node):
        if node["t"] == "f":
            out.append(node)
        elif node["t"] == "d":
            for c in node["ch"]:
                rec(c)

    blk = case.get("block")
    for d in ORDER:
        root = case["roots"][d]
        if case.get("block_missing") and blk in (PARENT[d], "all"):
            continue
        if root["state"] != "missing":
            rec(root["node"])
    return out


# ----------------------------------------------------------------------------- case + observation -> Coq

def cname(s):
    return cbytes(s.encode("utf-8"))


def cid(i):
    return "(%d, %d, %d, %d)" % tuple(i)


def coq_node(node, verdicts, unpriv):
    if node["t"] == "f":
        v = verdicts[node["h"]]
        parse = "(Some (%s, %d))" % (cid(v["id"]), node["h"]) if v["ok"] else "None"
        readable = not (unpriv and node.get("mode0"))
        return "(NFile %s %s %s)" % (cname(node["name"]), cbool(readable), parse)
    if node["t"] == "l":
        # Walk uses Lstat: a symbolic link is a non-directory entry; these point nowhere or at a directory, so
        # opening/reading them fails
        return "(NFile %s false None)" % cname(node["name"])
    readable = not (unpriv and node.get("mode0"))
    return "(NDir %s %s %s)" % (cname(node["name"]), cbool(readable), clist([coq_node(c, verdicts, unpriv) for c in node["ch"]]))


def coq_root(case, d, verdicts):
    blk = case.get("block")
    if blk in (PARENT[d], "all"):
        return "RMissing"      # Lstat fails: parent absent, or (fsuid 65534) not searchable
    root = case["roots"][d]
    if root["state"] == "missing":
        return "RMissing"
    return "(RNode %s)" % coq_node(root["node"], verdicts, case["unpriv"])


def handle_of(uniq):
    m = re.match(r"^f(\d+)$", uniq or "")
    return int(m.group(1)) if m else BAD_HANDLE


def coq_entries(entries):
    return clist(["(%s, %d, %s, %s)" % (cid(e["id"]), handle_of(e["uniq"]), cname(e["file"]), cbool(e["type"] == "user"))
                  for e in sorted(entries, key=lambda e: e["id"])])


REPORT_RE = re.compile(r"^device config (.*?) \((factory|user)\) load failed: ", re.S)


def parse_reports(res):
    out = []
    for msg in res["reports"]:
        m = REPORT_RE.match(msg)
        if m:
            out.append((m.group(2) == "user", m.group(1)))
        else:
            out.append((False, "?unparsed report: " + msg[:40]))
    return out


def coq_find(f):
    if f["class"] == "nil":
        return "(AFound %d %s %s)" % (handle_of(f["uniq"]), cname(f["file"]), cbool(f["type"] == "user"))
    if f["class"] == "unsupported":
        return "AUnsupported"
    if f["class"] == "other":
        return "ANoDefault"
    return "APanic"


def coq_type(t):
    return TYPES.get(t, "Unknown")


def coq_case(case, res):
    verdicts = {n["h"]: v for n, v in zip(file_nodes(case), res["verdicts"])}
    for n in file_nodes(case):
        verdicts.setdefault(n["h"], {"ok": False, "id": [0, 0, 0, 0]})
    if res["panic"] or res["timeout"]:
        load = "LPanic"
    elif res["err"]:
        load = "LErr"
    else:
        load = "(LOk %s %s %s %s)" % tuple(coq_entries(res[k]) for k in ("fk", "fg", "uk", "ug"))
    reps = clist(["(%s, %s)" % (cbool(u), cname(n)) for (u, n) in parse_reports(res)])
    qs = clist(["(%s, %s, %s)" % (cid(q["id"]), coq_type(q["type"]), coq_find(f)) for q, f in zip(case["queries"], res["finds"])])
    return "mk_case %s %s %s %s %s %s %s" % (coq_root(case, "fg", verdicts), coq_root(case, "fk", verdicts),
                                             coq_root(case, "ug", verdicts), coq_root(case, "uk", verdicts), load, reps, qs)


HEADER = ("From Coq Require Import List NArith Bool.\nFrom HIDI Require Import Base.AList Model.Loader Run.LoaderRun.\n"
          "Import ListNotations.\nOpen Scope N_scope.\n")


def evaluate(cases, results, tag="c12"):
    """-> dict: failures {idx: [codes]}, not_fixed, not_original, distinguishing (global indices)"""
    shard = 120
    items = []
    for s in range(0, len(cases), shard):
        body = HEADER
        names = []
        for k in range(s, min(s + shard, len(cases))):
            body += "Definition c%d : c12_case := %s.\n" % (k, coq_case(cases[k], results[k]))
            names.append("c%d" % k)
        body += "Definition cases := %s.\n" % clist(names)
        body += "Definition FAIL := Eval vm_compute in c12_failures cases.\nPrint FAIL.\n"
        body += "Definition NOTFIXED := Eval vm_compute in c12_not_matching Fixed cases.\nPrint NOTFIXED.\n"
        body += "Definition NOTORIG := Eval vm_compute in c12_not_matching Original cases.\nPrint NOTORIG.\n"
        body += "Definition DIST := Eval vm_compute in c12_distinguishing cases.\nPrint DIST.\n"
        items.append(("%s_cases_%d" % (tag, s), body))
    outs = coq_eval_many(items)
    agg = {"failures": {}, "not_fixed": [], "not_original": [], "distinguishing": []}
    for (s, out) in zip(range(0, len(cases), shard), outs):
        r = extract_defs(out)
        for k in ("FAIL", "NOTFIXED", "NOTORIG", "DIST"):
            if k not in r or isinstance(r[k], tuple) and r[k] and r[k][0] == "UNPARSED":
                raise CheckError("cannot read %s from coqc output: %r" % (k, r.get(k)))
        for (n, codes) in r["FAIL"]:
            agg["failures"][s + n] = codes
        agg["not_fixed"] += [s + n for n in r["NOTFIXED"]]
        agg["not_original"] += [s + n for n in r["NOTORIG"]]
        agg["distinguishing"] += [s + n for n in r["DIST"]]
    return agg


def bad_queries(case, res):
    body = HEADER + "Definition c : c12_case := %s.\nDefinition BQ := Eval vm_compute in c12_bad_queries c.\nPrint BQ.\n" % coq_case(case, res)
    body += "".join("Definition W%s := Eval vm_compute in c12_walk_kinds (t_%s c).\nPrint W%s.\n" % (d.upper(), d, d.upper()) for d in ORDER)
    r = extract_defs(coq_eval("c12_bq", body))
    walks = {}
    kinds = {0: "counts", 1: "skipped", 2: "dir", 3: "unreadable-dir", 4: "no-FileInfo"}
    for d in ORDER:
        w = r.get("W" + d.upper())
        if isinstance(w, list):
            walks[DIRS[d]] = ["%s:%s" % (kinds.get(k, k), bytes(n).decode("utf-8", "replace")) for (k, n) in w]
    bq = r.get("BQ")
    return (sorted(set(bq)) if isinstance(bq, list) else []), walks


# ----------------------------------------------------------------------------- describing / reporting

def describe_tree(case):
    def rec(node):
        if node["t"] == "f":
            return {"file": node["name"], "kind": node["kind"], "id": node["id"], "marker": "f%d" % node["h"],
                    **({"mode": "000"} if node.get("mode0") else {})}
        if node["t"] == "l":
            return {"symlink": node["name"], "target": node["target"]}
        return {"dir": node["name"], "entries": [rec(c) for c in node["ch"]], **({"mode": "000"} if node.get("mode0") else {})}

    out = {}
    blk = case.get("block")
    for d in ORDER:
        root = case["roots"][d]
        if blk in (PARENT[d], "all"):
            out[DIRS[d]] = "parent directory %s" % ("missing" if case.get("block_missing") else "mode 000 (not searchable, fsuid 65534)")
        elif root["state"] == "missing":
            out[DIRS[d]] = "MISSING"
        elif root["state"] == "file":
            out[DIRS[d]] = {"regular file in place of the directory": rec(root["node"])}
        else:
            out[DIRS[d]] = rec(root["node"])
    return out


def slim_result(res):
    r = {k: res[k] for k in ("panic", "timeout", "err", "fk", "fg", "uk", "ug", "finds", "reports", "verdicts")}
    if res.get("stack"):
        r["stack_top"] = [l for l in res["stack"].split("\n") if "loader.go" in l or "filepath" in l][:6]
    return r


def case_size(case):
    return len(case_ops(case)[0])


def missing_dirs(case):
    blk = case.get("block")
    out = []
    for d in ORDER:
        if blk in (PARENT[d], "all") or case["roots"][d]["state"] == "missing":
            out.append(DIRS[d])
    return out


def report(run_, cases, results, ev):
    """turn the Coq verdicts into violations: one per failing check kind, smallest failing case as the replay"""
    by_kind = {}
    for idx, codes in sorted(ev["failures"].items()):
        res = results[idx]
        for c in codes:
            kind = c
            if c == 1:
                kind = "1-panic" if (res["panic"] or res["timeout"]) else ("1-err" if res["err"] else "1-maps")
            by_kind.setdefault(kind, []).append(idx)
    for kind, idxs in sorted(by_kind.items(), key=lambda kv: str(kv[0])):
        idx = min(idxs, key=lambda i: (0 if "d11-witness" in cases[i]["tags"] else 1, case_size(cases[i]), i))
        case, res = cases[idx], results[idx]
        code = int(str(kind)[0])
        bq, walks = bad_queries(case, res)
        if kind == "1-panic":
            md = missing_dirs(case)
            what = ("LoadDeviceConfigs %s on a configuration tree in which %s: %s" % (
                "did not return" if res["timeout"] else "PANICKED",
                ("%s %s missing (cannot be Lstat-ed)" % (", ".join(md), "is" if len(md) == 1 else "are")) if md else "no directory is missing",
                res["panic"] or "timeout"))
        elif kind == "1-err":
            what = "LoadDeviceConfigs returned an error although every directory and file is present and readable: %s" % res["err"]
        elif kind == "1-maps":
            what = ("LoadDeviceConfigs' maps are not {identifier -> last successfully parsed *.toml file in Walk order}: "
                    "bad files / non-TOML files / nested directories are not isolated, or the wrong file won")
        elif code == 4:
            q = bq[0] if bq else 0
            what = ("FindConfig(%s, %s) = %s violates the precedence user exact > user default > factory exact > factory default "
                    "(class-specific maps) given the maps LoadDeviceConfigs returned" % (
                        case["queries"][q]["id"], coq_type(case["queries"][q]["type"]), json.dumps(res["finds"][q])))
        else:
            what = "C12 %s fails" % CHECK_NAMES[code]
        what += " [%d case(s) fail this check]" % len(idxs)
        run_.violation(what, {"monitor": CHECK_NAMES[code], "tree": describe_tree(case), "walk_order_in_model": walks,
                              "failing_queries": [case["queries"][q] for q in bq[:8]],
                              "observed": slim_result(res), "case": strip_case(case),
                              "other_failing_case_tags": sorted({t for i in idxs for t in cases[i]["tags"]})[:12]})
    unexplained = sorted(set(ev["not_fixed"]) & set(ev["not_original"]) - set(ev["failures"]))
    if unexplained:
        idx = min(unexplained, key=lambda i: (case_size(cases[i]), i))
        case, res = cases[idx], results[idx]
        bq, walks = bad_queries(case, res)
        run_.violation("correspondence Model/Loader.v <-> LoadDeviceConfigs/FindConfig broken: on %d generated tree(s) the implementation "
                       "satisfies the C12 monitors but its outcome class / maps / answers equal neither the model of the fixed nor of the "
                       "original walk callback" % len(unexplained),
                       {"correspondence": "c12_not_matching Fixed / Original (Run/LoaderRun.v)", "tree": describe_tree(case),
                        "walk_order_in_model": walks, "observed": slim_result(res), "case": strip_case(case)}, no_input=True)


def strip_case(case):
    return {k: v for k, v in case.items()}


# ----------------------------------------------------------------------------- run / replay

def execute(run_, cases):
    binary, err = go_build("config")
    if binary is None:
        run_.violation("harness for package config does not build against the repository: " + err,
                       {"correspondence": "C12 harness build", "error": err}, no_input=True)
        return None
    out, err = run_harness(binary, "c12", {"cases": [harness_case(c) for c in cases], "parse_only": []}, timeout=1500)
    if out is None:
        run_.violation("C12 harness failed: " + err, {"correspondence": "C12 harness run", "error": err}, no_input=True)
        return None
    results = out["results"]
    if len(results) != len(cases):
        raise CheckError("harness returned %d results for %d cases" % (len(results), len(cases)))
    for c, r in zip(cases, results):
        if r["setup"]:
            raise CheckError("harness could not materialise a tree: %s" % r["setup"])
        if c.get("siblings"):
            r["verdicts"] = r["verdicts"][:len(file_nodes(c))]      # the sibling entries are written last and are not part of the model's trees
        if len(r["verdicts"]) != len(file_nodes(c)):
            raise CheckError("harness returned %d parse verdicts for %d files" % (len(r["verdicts"]), len(file_nodes(c))))
        if c["unpriv"]:
            # the mode-000 entries must really be unreadable for the thread that ran LoadDeviceConfigs
            if any(r["probe"]):
                raise CheckError("switching the filesystem uid did not make mode-000 entries unreadable (unpriv_ok=%s probe=%s)"
                                 % (r["unpriv_ok"], r["probe"]))
        if not (r["panic"] or r["timeout"]) and len(r["finds"]) != len(c["queries"]):
            raise CheckError("harness returned %d answers for %d queries" % (len(r["finds"]), len(c["queries"])))
        if r["panic"] or r["timeout"]:
            r["finds"] = [{"class": "panic", "file": "", "type": "", "uniq": ""} for _ in c["queries"]]
    return results


def rank_of(case, res, q, f):
    """which candidate FindConfig's answer corresponds to, from the observed maps (distribution only)"""
    if f["class"] != "nil":
        return {"unsupported": "unsupported type", "other": "no default -> error"}.get(f["class"], f["class"])
    cls = "k" if q["type"] == 1 else "g"
    for rank, (m, idt) in enumerate([("u" + cls, q["id"]), ("u" + cls, [0, 0, 0, 0]), ("f" + cls, q["id"]), ("f" + cls, [0, 0, 0, 0])]):
        for e in res[m]:
            if e["id"] == list(idt) and e["uniq"] == f["uniq"]:
                return ["user exact", "user default", "factory exact", "factory default"][rank]
    return "?"


def run(run_):
    tier = run_.tier
    rng = random.Random(run_.seed)
    run_.proof_obligations()
    g = Gen(rng)
    n_random = 160 if tier == "quick" else 8000
    missing = gen_missing(g, 2 if tier == "quick" else 8)
    hand = gen_order(g)
    grid = gen_grid(g)
    rnd = gen_random(g, n_random)
    cases = missing + hand + grid + rnd
    results = execute(run_, cases)
    if results is None:
        return
    # a file on which ParseData itself panics (C09's business) is, for this property, a bad file like any other: the model treats it as
    # "does not parse" and LoadDeviceConfigs must still isolate it (a crash of the whole load is reported by the load monitor)
    excluded = 0
    acc = sum(1 for r in results for v in r["verdicts"] if v.get("ok"))
    tot = sum(len(r["verdicts"]) for r in results)
    if tot and acc * 4 < tot:
        raise CheckError("only %d of %d generated files are accepted by the real ParseData: the generator's valid text is stale" % (acc, tot))
    ev = evaluate(cases, results)
    report(run_, cases, results, ev)

    # ---- evidence
    finds = [(c, r, q, f) for c, r in zip(cases, results) for q, f in zip(c["queries"], r["finds"]) if not (r["panic"] or r["timeout"])]
    ranks = {}
    for (c, r, q, f) in finds:
        k = rank_of(c, r, q, f)
        ranks[k] = ranks.get(k, 0) + 1
    outcomes = {"ok": 0, "error": 0, "panic": 0}
    nontrivial = set()
    feats = {"duplicate identifier inside one directory": 0, "nested directory": 0, "failed-to-parse *.toml reported": 0,
             "non-*.toml entry": 0, "missing / unreadable directory": 0, ">= 2 of the four candidates present for a queried class": 0}
    for c, r in zip(cases, results):
        outcomes["panic" if (r["panic"] or r["timeout"]) else "error" if r["err"] else "ok"] += 1
        fl = set()
        for d in ORDER:
            root = c["roots"][d]
            if root["state"] != "dir":
                continue
            ids = []

            def rec(n, top=True):
                if n["t"] == "d":
                    if not top:
                        fl.add("nested directory")
                    for ch in n["ch"]:
                        rec(ch, False)
                elif n["t"] == "f":
                    if n["name"].lower().endswith(".toml") and n["kind"] == "valid":
                        ids.append(tuple(n["id"]))
                    if not n["name"].lower().endswith(".toml"):
                        fl.add("non-*.toml entry")

            rec(root["node"])
            if len(ids) != len(set(ids)):
                fl.add("duplicate identifier inside one directory")
        if r["reports"]:
            fl.add("failed-to-parse *.toml reported")
        if missing_dirs(c) or any("mode0" in t or "blocked" in t or "file:" in t for t in c["tags"]) or r["err"] or r["panic"]:
            fl.add("missing / unreadable directory")
        if not (r["panic"] or r["timeout"] or r["err"]):
            for cls in "kg":
                keys_u = {tuple(e["id"]) for e in r["u" + cls]}
                keys_f = {tuple(e["id"]) for e in r["f" + cls]}
                for q in c["queries"]:
                    i = tuple(q["id"])
                    if i != ZERO and (i in keys_u) + (ZERO in keys_u) + (i in keys_f) + (ZERO in keys_f) >= 2:
                        fl.add(">= 2 of the four candidates present for a queried class")
        for f in fl:
            feats[f] += 1
        if fl:
            nontrivial.add(json.dumps(harness_case(c), sort_keys=True))
    grid_keys = {(c["grid"]["kb"], c["grid"]["gp"]) for c in grid}
    matches_fixed = len(cases) - len(ev["not_fixed"])
    sample_idx = [0, len(missing), len(missing) + len(hand) + 0xb7, len(cases) - 1]
    samples = []
    for i in sample_idx:
        if 0 <= i < len(cases):
            c, r = cases[i], results[i]
            samples.append({"tags": c["tags"], "tree": describe_tree(c), "unpriv": c["unpriv"],
                            "observed": {"panic": r["panic"], "err": r["err"],
                                         "maps": {k: [[e["id"], e["file"], e["type"]] for e in r[k]] for k in ("fk", "fg", "uk", "ug")},
                                         "reports": r["reports"][:4]},
                            "queries": [[q["id"], coq_type(q["type"]), f["class"], f["file"], f["type"]]
                                        for q, f in list(zip(c["queries"], r["finds"]))[:8]]})
    run_.coverage.update({
        "evaluations": len(cases),
        "findconfig_queries": len(finds),
        "distinct_nontrivial": len(nontrivial),
        "rule": "one evaluation = one hidi-config tree materialised in a temporary directory, loaded by the real LoadDeviceConfigs, "
                "then queried through the real FindConfig (findconfig_queries answers in total). Streams: (1) exhaustive grid: all 16 "
                "presence combinations of {user exact, user default, factory exact, factory default} for the keyboard class x all 16 for "
                "the gamepad class (256 trees), each queried with the matching, a non-matching and the zero identifier for all 4 device "
                "types (plus out-of-range type values on a fifth of them); (2) each of the four directories missing / a regular file in "
                "its place / mode 000 / its parent not searchable, and hidi-config, hidi-config/user, hidi-config/factory missing; "
                "(3) hand-written order and suffix cases; (4) random trees: valid configurations over a 3-identifier pool (duplicates "
                "inside a directory), 11 kinds of broken files, non-TOML names (README, .txt, footoml, .toml.bak ...), upper-case "
                "suffixes, nested directories (depth <= 2, also named *.toml), dangling/directory symlinks, mode-000 files and "
                "directories. non-trivial = distinct trees having at least one of the features counted in `features`.",
        "exhaustive": True,
        "exhaustive_domain": "presence combinations of the four candidate files: 16 (keyboard class) x 16 (gamepad class) = %d trees; "
                             "each x {matching, non-matching, zero identifier} x device types {Unknown, Keyboard, Mouse, Joystick} "
                             "(covers the 16 x 2 classes x 2 x 4 = 256 grid of the quantifier)" % len(grid_keys),
        "grid_trees": len(grid_keys),
        "trees_excluded_because_ParseData_panicked": excluded,
        # how many of the generated files the REAL parser accepts (a drop here means the generator's "valid" text went stale)
        "files_accepted_by_ParseData": sum(1 for r in results for v in r["verdicts"] if v.get("ok")),
        "files_rejected_by_ParseData": sum(1 for r in results for v in r["verdicts"] if not v.get("ok")),
        "warm_reload_trees": sum(1 for c in cases if c.get("warm")),
        "features": feats,
        "distribution": {"entries_generated": dict(sorted(g.kinds.items())), "load_outcomes_observed": outcomes,
                         "findconfig_answers_by_rank": ranks,
                         "cases_by_stream": {"missing/unreadable": len(missing), "hand-written": len(hand), "grid": len(grid),
                                             "random": len(rnd)},
                         "cases_run_with_fsuid_65534": sum(1 for c in cases if c["unpriv"])},
        "model_variants": {"cases_where_fixed_and_original_models_differ": len(ev["distinguishing"]),
                           "observations_equal_to_fixed_model": matches_fixed,
                           "observations_equal_to_original_model_only": len(set(ev["not_fixed"]) - set(ev["not_original"]))},
        "samples": samples,
        "correspondence_obligations": 6,
        "correspondence_discharged": 6 - len({c for codes in ev["failures"].values() for c in codes})
                                     - (1 if set(ev["not_fixed"]) & set(ev["not_original"]) - set(ev["failures"]) else 0),
    })
    run_.assumptions += [
        "the per-file parse verdict (accepted + identifier / rejected) fed to the model is the real ParseData's, computed by the harness on "
        "the same bytes (the parser is C09/C10's business)",
        "filepath.Walk (Go 1.23) calls the callback as described in Model/Loader.v (Lstat, sort.Strings order, directories in place); "
        "validated on every run by the winners of duplicate identifiers and the order of the logged reports",
        "unreadable directories/files are produced with mode 000 and the loading goroutine's OS thread switched to fsuid/fsgid 65534 "
        "(the sandbox runs as root, for which mode 000 blocks nothing); the harness verifies the entries really are unreadable; "
        "a missing directory and a regular file in place of a directory are exercised as root",
        "file names are ASCII in generated trees; strings.ToLower is modelled bytewise, which is exact for the '.toml' suffix test on any UTF-8 name",
        "an entry disappearing between ReadDir and Lstat (the other way to get a nil FileInfo) is modelled (INoInfo) but not produced by the harness",
    ]


def replay(run_, data):
    run_.proof_obligations()
    case = data["replay"].get("case")
    if not case:
        return run(run_)
    results = execute(run_, [case])
    if results is None:
        return
    ev = evaluate([case], results, tag="c12_replay")
    report(run_, [case], results, ev)
    run_.coverage.update({"evaluations": 1, "distinct_nontrivial": 1, "rule": "replay of one recorded tree",
                          "samples": [{"tree": describe_tree(case)}], "correspondence_obligations": 6})
