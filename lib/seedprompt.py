#!/usr/bin/env python3
"""Writes the brief for a fresh seeding sub-agent (property text only + its own scratch worktree; nothing from the checks).
usage: seedprompt.py <round> <ID> -> prints path of the prompt file; creates the worktree /tmp/seed<round>-<ID>"""
import json, os, subprocess, sys, glob

LED_NOTE = ("NOTE for this property: the LED feedback loop (internal/pkg/midi/device/open_rgb.go handleOpenrgb) talks to an OpenRGB server over TCP on "
 "localhost:<port> using the vendored github.com/realbucksavage/openrgb-go client, and finds its keyboard through "
 "/sys/class/hidraw/<hidrawN>/device/input/<inputX>/<eventN>; a demonstration may either drive that loop against a small fake server you write in the "
 "test (as root you can `unshare -m` and mount a tmpfs over /sys/class/hidraw), or, if that is too heavy, demonstrate the broken behaviour at the level of "
 "the functions/fields involved (in-package test), e.g. by calling the relevant unexported functions directly, or with `go test -race` for a "
 "synchronisation defect. Say in meta.json which one you did.")
MAIN_NOTE = ("NOTE: package main in cmd/hidi cannot be built in this sandbox because its ALSA/rtmidi dependency needs headers that are missing; if your change "
 "or demo touches cmd/hidi, write the demo as a test in package main named zz_seed_demo_test.go AND make it runnable by building with an overlay that "
 "replaces internal/pkg/midi/driver/alsa/alsa.go by a small stub exporting the same identifiers (CreatePort, GetPorts, PickMidiPort - read the real file "
 "for signatures): `go test -c -vet=off -overlay <json> -o @OUT@/main.test ./cmd/hidi` and run the binary WITHOUT any -test.* flag because package main "
 "calls flag.Parse() in init(); select your test by an environment variable inside the test. Put the stub and overlay json in @OUT@/ too and describe the "
 "exact commands in meta.json.")


BENIGN = """You are given your own git worktree of the Go project gethiox/HIDI (a Linux application translating HID keyboard/gamepad evdev events into MIDI) at @WT@ . Work ONLY inside @WT@ and @OUT@ ; never read or touch /repo, /verif or any other directory (other people's work lives there and must stay independent of yours).

@TEXT@

TASK: write ONE realistic, NON-TRIVIAL change to the project's SOURCE (not its tests) in the code this property is anchored in that a maintainer might really make and that KEEPS this property (and the program's externally visible behaviour: the MIDI bytes sent, the files written, the values and errors returned by exported functions) fully intact: a refactoring, optimisation, clean-up or robustness improvement. Good examples: restructure control flow (early returns, switch instead of if-chains, extract/inline helper functions), replace an internal data structure by an equivalent one (map <-> slice/array, nested map <-> flat map, counter representation), rename or re-type unexported fields, reorder independent statements or the order in which independent internal bookkeeping is updated, change the order of operations where the result is not observable, change log texts / log levels / error message wording, add defensive checks that can never fire, change buffer sizes or timing constants in ways that do not affect the property, replace a hand-written loop by a library call. Make it 20-80 changed lines, touching at least two functions - not a cosmetic rename only. Do NOT change the signatures of exported functions/methods or remove exported or unexported struct fields' meaning in a way that changes behaviour. It must
 (1) compile,
 (2) leave the project's existing tests behaving exactly as before. Run them with:  cd @WT@ && GOFLAGS=-mod=mod GOPROXY=off GOSUMDB=off GOTOOLCHAIN=local go test -vet=off -count=1 ./internal/...   (at baseline TestParseGamepadDeadzoneAtCenter already FAILS and the package internal/pkg/midi/driver/alsa does not build in this sandbox: both must stay exactly like that; everything else must pass),
 (3) preserve the property for ALL inputs in its quantifier - think hard about corner cases (empty inputs, boundary values, map iteration order, concurrency) and convince yourself; if in doubt choose a safer refactoring.
Also write a small Go test file named zz_benign_test.go in the package directory that exercises the refactored code on a few non-trivial inputs and passes both with and without your change (verify both directions WITHOUT `git stash`: `git diff -- <source files> > @OUT@/patch.diff && git apply -R @OUT@/patch.diff`, run it, `git apply @OUT@/patch.diff`, run it again).
DELIVER in @OUT@/ : patch.diff (output of `git diff` for the SOURCE change only, test file excluded), zz_benign_test.go (copy, with a first-line comment naming the package directory it belongs in), meta.json with keys property ("@ID@"), summary (what the change does), why_harmless (the argument that the property and visible behaviour are preserved), files_changed. Leave the worktree with the change applied. Finish with a short report.
"""


def main():
    rnd, pid = sys.argv[1], sys.argv[2]
    benign = rnd.startswith("b")
    props = {json.loads(l)["id"]: json.loads(l) for l in open("/verif/properties.jsonl")}
    p = props[pid]
    a = p["anchors"]
    anchors = "files " + ", ".join(a.get("files", []))
    if a.get("state"):
        anchors += "; state: " + "; ".join("%s = %s (%s)" % (x["name"], x.get("meaning", ""), x.get("where", "")) for x in a["state"])
    if a.get("mechanism"):
        anchors += "; mechanisms: " + "; ".join("%s (%s)" % (x["name"], x.get("where", "")) for x in a["mechanism"])
    q = p["quantifier"]
    q = q.get("text", str(q)) if isinstance(q, dict) else q
    text = ("PROPERTY %s - %s\nStatement: %s\nQuantifier: %s\nWhy the existing tests cannot settle it: %s\nCode anchors: %s\nObserve at: %s"
            % (pid, p["title"], p["statement"], q, p["why_tests_cant"], anchors, "; ".join(a.get("observe_at", [])) if isinstance(a.get("observe_at"), list) else a.get("observe_at", "")))
    wt = "/tmp/seed%s-%s" % (rnd, pid)
    out = wt + "-out"
    prev = []
    for d in sorted(glob.glob("/verif/seeded/%s*" % pid)):
        try:
            prev.append(json.load(open(d + "/meta.json"))["summary"][:500])
        except Exception:
            pass
    t = """You are given your own git worktree of the Go project gethiox/HIDI (a Linux application translating HID keyboard/gamepad evdev events into MIDI) at @WT@ . Work ONLY inside @WT@ and @OUT@ ; never read or touch /repo, /verif or any other directory (other people's work lives there and must stay independent of yours).

@TEXT@

TASK: write ONE realistic change to the project's SOURCE (not its tests) that BREAKS this property while
 (1) the project still compiles,
 (2) the project's existing tests behave exactly as before. Run them with:  cd @WT@ && GOFLAGS=-mod=mod GOPROXY=off GOSUMDB=off GOTOOLCHAIN=local go test -vet=off -count=1 ./internal/...   (at baseline TestParseGamepadDeadzoneAtCenter already FAILS and the package internal/pkg/midi/driver/alsa does not build in this sandbox: both must stay exactly like that; everything else must pass), and
 (3) the breakage needs something SPECIFIC to manifest: a particular interleaving, a multi-step sequence of operations, an unusual input or configuration, a fault at a particular point, or two cooperating sites that each look fine alone. NOT something that ordinary use or a trivial smoke test would expose at once. It should look like a plausible refactoring / optimisation / "fix" gone subtly wrong, small (a few lines up to ~30), the kind of thing that passes code review.
Then write a DEMONSTRATION: a Go test file named zz_seed_demo_test.go in the appropriate package directory of the worktree (in-package tests may use unexported identifiers; look at the existing *_test.go files for how a device / parser etc. is driven) that FAILS with your change and PASSES without it. Verify both directions yourself WITHOUT `git stash` (the stash is shared with other people's worktrees of the same repository): use `git diff -- <source files> > @OUT@/patch.diff && git apply -R @OUT@/patch.diff`, run the demo, then `git apply @OUT@/patch.diff` and run it again. No network is available; use only the Go standard library and what the module already depends on.
DELIVER in @OUT@/ : patch.diff (output of `git diff` for the SOURCE change only, demo file excluded), zz_seed_demo_test.go (copy of the demo, with a first-line comment naming the package directory it belongs in), meta.json with keys property ("@ID@"), summary (what the change does and why it breaks the property), needs_to_manifest (the specific sequence / input / schedule needed), how_to_run_demo (exact command), files_changed. Leave the worktree with the change applied and the demo in place. Finish with a short report.
"""
    if benign:
        t = BENIGN
        if rnd.startswith("b2"):
            t = t.replace("a refactoring, optimisation, clean-up or robustness improvement. Good examples:",
                          "THIS ROUND: a performance optimisation or robustness change that alters HOW the result is computed - introduce a cache or "
                          "memoisation WITH correct invalidation on every path that changes its inputs (including indirect paths such as the up/down "
                          "pair resets), a precomputed table, a different internal data structure or encoding (bitmask, ring buffer, flat array), finer or "
                          "coarser locking that is still correct, an atomic write-temp-then-rename that cleans up after itself, batching, lazy "
                          "initialisation - the kind of change where a subtle mistake WOULD break the property, but done correctly. Other examples:")
        if rnd.startswith("b3"):
            t = t.replace("a refactoring, optimisation, clean-up or robustness improvement. Good examples:",
                          "THIS ROUND: a change in the area where concurrency, buffering, sharing and the environment meet - done CORRECTLY: reuse or pool "
                          "message / scratch buffers but never touch storage after it was handed over (copy before sending); build a burst of messages as a slice "
                          "and still deliver it in order with blocking sends from the same goroutine; a per-call or per-device (never package-level or "
                          "shared-between-devices) cache or scratch area; a helper goroutine whose result is awaited before the function returns and whose panic is "
                          "recovered and turned into the same error; reading a file with a size hint taken from os.Stat (which follows symbolic links) with a "
                          "fallback that still reads everything; comparing contents by digest of THIS file's own template; a lock-free fast path guarded by a counter "
                          "that is maintained exactly; grouping keyed by the same field through a different representation. The kind of change where a subtle "
                          "mistake WOULD break the property under some schedule, buffer size, file layout or input spelling, but done correctly. Other examples:")
        prev = []
    if pid in ("C16", "C17"):
        t += "\n" + LED_NOTE + "\n"
    if pid in ("C09", "C18", "C19", "C12"):
        t += "\n" + MAIN_NOTE + "\n"
    if prev:
        t += ("\nIMPORTANT - this is a LATER round. Earlier changes for this property have already been written and are considered too easy; do something "
              "DIFFERENT in mechanism and location, and subtler (rarer trigger, smaller observable effect, or an effect that only shows several steps later). "
              "The earlier changes were:\n" + "\n".join(" - " + s for s in prev) +
              "\nAlso avoid trivial variants of them. Prefer breakage that sits in an interaction (two features used together, an unusual but legal "
              "configuration, a boundary value, ordering of map iteration, state left behind by an earlier operation, an arithmetic corner).\n")
    t = t.replace("@TEXT@", text).replace("@WT@", wt).replace("@OUT@", out).replace("@ID@", pid)
    os.makedirs(out, exist_ok=True)
    if not os.path.isdir(wt):
        subprocess.run(["git", "-C", "/repo", "worktree", "add", "--detach", wt, "HEAD"], check=True, capture_output=True)
    path = "/tmp/seedp_%s_%s.txt" % (rnd, pid)
    open(path, "w").write(t)
    print(path)


main()
