"""Generators and Coq emitters for device-state-machine cases (C01-C05, C07, C08, C13, C14)."""
import random, struct
from common import cN, cZ, cbool, clist, cbytes

ACTIONS = ["mapping_up", "mapping_down", "mapping", "octave_up", "octave_down", "semitone_up", "semitone_down",
           "channel_up", "channel_down", "channel", "multinote", "panic", "cc_learning", "exit"]
ACTION_CTOR = {"mapping_up": "MappingUp", "mapping_down": "MappingDown", "mapping": "AMapping", "octave_up": "OctaveUp",
               "octave_down": "OctaveDown", "semitone_up": "SemitoneUp", "semitone_down": "SemitoneDown",
               "channel_up": "ChannelUp", "channel_down": "ChannelDown", "channel": "AChannel", "multinote": "Multinote",
               "panic": "Panic", "cc_learning": "Learning", "exit": "Exit"}
CMODES = ["off", "no_repeat", "interrupt", "retrigger"]
PARTNER = {"mapping_up": "mapping_down", "mapping_down": "mapping_up", "octave_up": "octave_down", "octave_down": "octave_up",
           "semitone_up": "semitone_down", "semitone_down": "semitone_up", "channel_up": "channel_down", "channel_down": "channel_up"}
CMODE_CTOR = {"off": "COff", "no_repeat": "CNoRepeat", "interrupt": "CInterrupt", "retrigger": "CRetrigger"}
ATYPE_CTOR = {"cc": "ACC", "pitch_bend": "APitchBend", "key": "AKeySim", "action": "AActionSim"}

NOTE_CODES = list(range(16, 28))      # Q..]
ACTION_CODES = list(range(59, 69)) + [1, 87, 88]   # F1..F10, ESC, F11, F12
OTHER_CODES = [57, 100, 125]


def f64bits(x):
    return struct.unpack("<Q", struct.pack("<d", x))[0]


def sub_ids(cfg):
    subs = [""]
    for m in cfg["mappings"]:
        for k in m["midi"]:
            if k["sub"] not in subs:
                subs.append(k["sub"])
        for a in m["analog"]:
            if a["sub"] not in subs:
                subs.append(a["sub"])
        for s in m.get("subs", []):
            if s not in subs:
                subs.append(s)
        for d in m.get("dz", []) + m.get("defdz", []):
            if d["sub"] not in subs:
                subs.append(d["sub"])
    return {s: i for i, s in enumerate(subs)}


def action_ctor(a):
    return ACTION_CTOR.get(a, "ANone")


def emit_analog(a):
    return "(Build_analog %s %s %s %s %s %s %s %s %s %s %s %s)" % (
        ATYPE_CTOR.get(a["type"], "AUnknown"), cN(a["cc"]), cN(a["ccneg"]), cN(a["note"]), cN(a["noteneg"]),
        cN(a["off"]), cN(a["offneg"]), action_ctor(a["act"]), action_ctor(a["actneg"]),
        cbool(a["flip"]), cbool(a["bidi"]), cbool(a["dzc"]))


def emit_config(cfg):
    sid = sub_ids(cfg)
    maps = []
    for i, m in enumerate(cfg["mappings"]):
        midi = clist(["((%d, %d), Build_key %d %d)" % (sid[k["sub"]], k["code"], k["note"], k["off"]) for k in m["midi"]])
        an = clist(["((%d, %d), %s)" % (sid[a["sub"]], a["code"], emit_analog(a)) for a in m["analog"]])
        maps.append("(Build_mapping %d %s %s)" % (i, midi, an))
    acts = clist(["(%d, %s)" % (a["code"], action_ctor(a["action"])) for a in cfg["actions"]])
    return "(Build_config %s %s %s %s %s %s %s %d%%nat %s)" % (
        clist(maps), acts, clist([cN(k) for k in cfg["exitseq"]]), CMODE_CTOR[cfg["cmode"]],
        cZ(cfg["octave"]) + "%Z", cZ(cfg["semitone"]) + "%Z", cZ(cfg["channel"]) + "%Z", cfg["mapping"], cZ(cfg["velocity"]) + "%Z")


def emit_key_event(cfg, e, sid=None):
    sid = sid or sub_ids(cfg)
    if e["t"] == "k":
        return "(EKey %d %d %s%%Z)" % (sid.get(e["sub"], 0), e["code"], cZ(e["val"]))   # (unknown sub-handler names occur only on pacing markers, value 2)
    if e["t"] == "o":
        return "ESyn"       # an event of a type the device does not interpret (EV_MSC, EV_REL, EV_LED ...): the model's ignored event
    raise ValueError(e)


def emit_msgs(ms):
    return clist([cbytes(m) for m in ms])


def map_name_ids(cfg):
    ids = {}
    for i, m in enumerate(cfg["mappings"]):
        ids.setdefault(m["name"], i)
    return ids


def emit_ostep(cfg, st, names=None):
    names = names or map_name_ids(cfg)
    s = st["state"]
    return "(Build_ostep %s %d%%nat %s%%Z %s%%Z %s %d%%nat %s)" % (
        emit_msgs(st["midi"]), st["sigs"], cZ(s["octave"]), cZ(s["semitone"]), cN(s["channel"]), s["notes"],
        cN(names.get(s["mapping"], 999)))


# ---------------------------------------------------------------------------------------------- generators

def gen_config(rng, n_maps=None, cmode=None, with_exit=None, n_keys=None, offsets=True, actions=None,
               defaults=True, share=True, double_bound=True):
    n_maps = n_maps or rng.choice([1, 1, 2, 3])
    n_keys = n_keys or rng.randint(3, 8)
    codes = rng.sample(NOTE_CODES, n_keys)
    base_pool = [rng.randint(0, 127) for _ in range(3)] if share else list(range(30, 100))
    mappings = []
    for mi in range(n_maps):
        midi = []
        for c in codes:
            if rng.random() < 0.8 or mi == 0:
                if share and rng.random() < 0.6:
                    note = rng.choice(base_pool)
                else:
                    note = rng.choice([0, 1, 11, 12, 60, 115, 116, 126, 127, rng.randint(0, 127), rng.randint(0, 127)])
                off = rng.choice([0, 0, 0, 1, 15, rng.randint(0, 15)]) if offsets else 0
                midi.append({"sub": "", "code": c, "note": note, "off": off})
        if rng.random() < 0.3:
            # same code on another sub-handler, other note
            midi.append({"sub": "aux", "code": rng.choice(codes), "note": rng.randint(0, 127), "off": 0})
        mappings.append({"name": "M%d" % mi, "midi": midi, "analog": [], "dz": [], "defdz": [], "subs": []})
    acts = []
    pool = list(ACTION_CODES)
    rng.shuffle(pool)
    names = actions if actions is not None else [a for a in ACTIONS if rng.random() < 0.75]
    for a in names:
        if not pool:
            break
        acts.append({"code": pool.pop(), "action": a})
    # a key bound BOTH in action_mapping and as a note of some mapping (the factory gamepad configs bind BTN_TL this way): the action
    # shadows the note - pressing it must not sound, releasing it must not release anything
    if double_bound and codes and rng.random() < 0.3:
        c = rng.choice(codes)
        acts.append({"code": c, "action": rng.choice(["cc_learning", "multinote", "octave_up", "mapping_up", "channel_down", "semitone_down"])})
    exitseq = []
    we = rng.random() < 0.5 if with_exit is None else with_exit
    if we:
        cand = codes + [a["code"] for a in acts] + OTHER_CODES
        exitseq = rng.sample(cand, rng.choice([1, 2, 2, 3]))
    cfg = {"mappings": mappings, "actions": acts, "exitseq": exitseq,
           "cmode": cmode or rng.choice(CMODES),
           "octave": 0, "semitone": 0, "channel": 1, "mapping": 0, "velocity": 64}
    if defaults:
        cfg["octave"] = rng.choice([0, 0, 0, 1, -1, 3, -4, 10, -11])
        cfg["semitone"] = rng.choice([0, 0, 0, 1, -1, 7, -12])
        cfg["channel"] = rng.choice([1, 1, 1, 2, 10, 16])
        cfg["mapping"] = rng.randrange(n_maps)
        cfg["velocity"] = rng.choice([64, 64, 1, 127, rng.randint(1, 127)])
    return cfg


def all_codes(cfg):
    cs = []
    for m in cfg["mappings"]:
        for k in m["midi"]:
            if (k["sub"], k["code"]) not in cs:
                cs.append((k["sub"], k["code"]))
    for a in cfg["actions"]:
        if ("", a["code"]) not in cs:
            cs.append(("", a["code"]))
    for k in cfg["exitseq"]:
        if ("", k) not in cs:
            cs.append(("", k))
    cs.append(("", 57))
    return cs


OTHER_TYPES = [2, 4, 4, 5, 0x11, 0x11, 0x12, 0x14, 0x15, 0x17, 0x1f, 0, 0]     # (0 = EV_SYN with a code other than SYN_REPORT: SYN_DROPPED, SYN_CONFIG, SYN_MT_REPORT) EV_REL, EV_MSC (precedes every key press on a real keyboard), EV_SW, EV_LED, EV_SND, EV_REP, EV_FF, EV_FF_STATUS, EV_MAX


def other_event(rng, cfg, code=None):
    """an event of a type the device must not interpret, with the CODE of one of the configuration's keys (note, action or exit-sequence key)
    and a value that would mean press / release / repeat if it were a key event"""
    ty = rng.choice(OTHER_TYPES)
    if ty == 0:
        # the kernel's queue overran (SYN_DROPPED) or another synchronisation marker: the device keeps no per-packet state, so the events that
        # follow are processed like any others (the stream stage sends them with no SYN_REPORT in between)
        return {"t": "o", "ty": 0, "sub": "", "code": rng.choice([3, 3, 3, 1, 2]), "val": 0}
    if code is None:
        sub, code = rng.choice(all_codes(cfg))
    return {"t": "o", "ty": ty, "sub": "", "code": code, "val": rng.choice([1, 1, 0, 0, 2, -3, 458756])}


def gen_history(rng, cfg, n, p_action=0.3, avoid_exit=True, repeats=True, max_down=6, action_discipline=False, others=True):
    """Alternating key history (per code). avoid_exit: never complete the exit sequence."""
    codes = all_codes(cfg)
    action_codes = {a["code"]: a["action"] for a in cfg["actions"]}
    note_codes = [c for c in codes if c[1] not in action_codes]
    act_codes = [c for c in codes if c[1] in action_codes]
    down = {}    # code -> sub used at press
    h = []
    exitset = set(cfg["exitseq"])
    while len(h) < n:
        r = rng.random()
        if repeats and r < 0.03:
            h.append({"t": "k", "sub": "", "code": rng.choice(codes)[1], "val": 2})
            continue
        if others and 0.03 <= r < 0.07:
            h.append(other_event(rng, cfg))
            continue
        release = down and (rng.random() < 0.45 or len(down) >= max_down)
        if release:
            code = rng.choice(sorted(down))
            h.append({"t": "k", "sub": down.pop(code), "code": code, "val": 0})
            continue
        pool = act_codes if (act_codes and rng.random() < p_action) else note_codes
        # up/down chords (pair resets) take a code path of their own in the device: make them frequent
        partners = [c for c in act_codes if c[1] not in down and
                    any(PARTNER.get(action_codes[c[1]]) == action_codes[d] for d in down if d in action_codes)]
        if partners and rng.random() < 0.35:
            pool = partners
        cand = [c for c in pool if c[1] not in down]
        if not cand:
            continue
        sub, code = rng.choice(cand)
        if avoid_exit and exitset and exitset <= (set(down) | {code}):
            continue
        if action_discipline and code in action_codes:
            # C04's quantifier: at most one complete pair held, no further action pressed WHILE a pair is complete. Another action held
            # BEFORE the pair completes is inside the quantifier (X held, U pressed, D pressed: the pair U/D must still reset).
            held_actions = [action_codes[c] for c in down if c in action_codes]
            pair_complete = any(PARTNER.get(x) in held_actions for x in held_actions)
            completes = PARTNER.get(action_codes[code]) in held_actions
            if pair_complete or (len(held_actions) >= 2 and not completes) or len(held_actions) >= 3:
                continue
        down[code] = sub
        h.append({"t": "k", "sub": sub, "code": code, "val": 1})
    return h


def release_all(h):
    """Events releasing everything still down after h (per code, in press order)."""
    down = {}
    for e in h:
        if e["t"] != "k":
            continue
        if e["val"] == 1:
            down[e["code"]] = e["sub"]
        elif e["val"] == 0:
            down.pop(e["code"], None)
    return [{"t": "k", "sub": s, "code": c, "val": 0} for c, s in down.items()]


def to_toml(cfg):
    """TOML text for a key-only configuration description (keys and actions by hex code)."""
    out = ['collision_mode = "%s"' % cfg["cmode"],
           "exit_sequence = [%s]" % ", ".join('"x%x"' % k for k in cfg["exitseq"]),
           "[defaults]", "octave = %d" % cfg["octave"], "semitone = %d" % cfg["semitone"], "channel = %d" % cfg["channel"],
           'mapping = "%s"' % cfg["mappings"][cfg["mapping"]]["name"], "velocity = %d" % cfg["velocity"],
           "[action_mapping]"]
    for a in cfg["actions"]:
        out.append('x%x = "%s"' % (a["code"], a["action"]))
    for m in cfg["mappings"]:
        out += ["[[mapping]]", 'name = "%s"' % m["name"]]
        subs = []
        for k in m["midi"]:
            if k["sub"] not in subs:
                subs.append(k["sub"])
        for sname in subs:
            out += ["[[mapping.keys]]", 'subhandler = "%s"' % sname, "[mapping.keys.map]"]
            for k in m["midi"]:
                if k["sub"] == sname:
                    out.append('x%x = "%d,%d"' % (k["code"], k["note"], k["off"]))
    return "\n".join(out) + "\n"
