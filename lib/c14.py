"""C14: exit sequence."""
import itertools, random
from common import *
import devgen
from devprop import DevProp


def k(code, val, sub=""):
    return {"t": "k", "sub": sub, "code": code, "val": val}


class C14(DevProp):
    pid = "C14"
    fail_term = "c14_failures k"
    mis_term = "c14_mismatch k"
    nontrivial_term = "c14_fired k"
    soak = True
    monitor_name = "C14 monitor (signal iff press completing the sequence; completing press silent and state-neutral)"
    correspondence_name = "C14 view (per-event termination-signal count of model vs implementation)"
    rule = ("exit sequences of length 0-3 drawn from note keys, action keys and unmapped keys; every press order of the sequence keys "
            "(exhaustive for length <= 3) with releases/re-presses and other keys interleaved, plus random alternating histories; "
            "non-trivial = distinct cases in which the implementation raised the signal at least once")

    def perturb(self, case, res):
        # falsify: a termination signal on a step that did not raise one
        for st in res["steps"]:
            if st["sigs"] == 0:
                st["sigs"] = 1
                return res
        return None

    def gen(self, rng, tier):
        cases = []
        n_cfg = 30 if tier == "quick" else 400
        for ci in range(n_cfg):
            cfg, note_codes, act_codes = self.exit_config(rng, ci % 4)
            seq = cfg["exitseq"]
            others = [x for x in note_codes + act_codes if x not in seq][:4]
            if not seq:
                cases.append({"cfg": cfg, "abs": [], "events": devgen.gen_history(rng, cfg, 30, avoid_exit=False), "tag": "empty-sequence"})
                continue
            for perm in itertools.permutations(seq):
                # plain order
                ev = [k(c, 1) for c in perm] + [k(c, 0) for c in perm]
                cases.append({"cfg": cfg, "abs": [], "events": ev, "tag": "order"})
                # all but last, release one and re-press, then last; another key pressed while complete
                ev = [k(c, 1) for c in perm[:-1]]
                if len(perm) > 1:
                    ev += [k(perm[0], 0), k(perm[-1], 1), k(perm[-1], 0), k(perm[0], 1)]
                ev += [k(perm[-1], 1)]
                if others:
                    ev += [k(others[0], 1), k(others[0], 0)]
                ev += [k(perm[0], 0), k(perm[0], 1)] + [k(c, 0) for c in perm]
                cases.append({"cfg": cfg, "abs": [], "events": ev, "tag": "release-repress"})
                # other keys interleaved, held across the completion
                ev = []
                for i, c in enumerate(perm):
                    if i < len(others):
                        ev.append(k(others[i], 1))
                    ev.append(k(c, 1))
                ev += [k(c, 0) for c in others[:len(perm)]] + [k(c, 0) for c in reversed(perm)]
                cases.append({"cfg": cfg, "abs": [], "events": ev, "tag": "interleaved"})
            for _ in range(2 if tier == "quick" else 6):
                cases.append({"cfg": cfg, "abs": [], "events": devgen.gen_history(rng, cfg, rng.randint(20, 70), avoid_exit=False, p_action=0.4),
                              "tag": "random"})
        return cases

    def exit_config(self, rng, L):
        """random configuration with an exit sequence of (at most) L keys drawn from note keys, action keys and unmapped keys"""
        cfg = devgen.gen_config(rng, with_exit=False)
        note_codes = sorted({kk["code"] for m in cfg["mappings"] for kk in m["midi"]})
        act_codes = [a["code"] for a in cfg["actions"]]
        pool = {"note": note_codes, "action": act_codes, "other": devgen.OTHER_CODES}
        kinds = [rng.choice(["note", "action", "other"]) for _ in range(L)]
        seq = []
        for kd in kinds:
            cand = [x for x in pool[kd] if x not in seq]
            if cand:
                seq.append(rng.choice(cand))
        cfg["exitseq"] = seq
        return cfg, note_codes, act_codes

    def soak_case(self, rng):
        """stream of the extracted-model soak: the 'random' stream (a fresh configuration per history, sequence length 0-3 uniform)"""
        cfg, _, _ = self.exit_config(rng, rng.randrange(4))
        return {"cfg": cfg, "abs": [], "events": devgen.gen_history(rng, cfg, rng.randint(20, 70), avoid_exit=False, p_action=0.4),
                "tag": "random"}


def run(run_):
    C14().run(run_)


def replay(run_, data):
    C14().replay(run_, data)
