"""C14: exit sequence."""
import itertools, random
from common import *
import devgen
from devprop import DevProp


def k(code, val, sub=""):
    return {"t": "k", "sub": sub, "code": code, "val": val}


class C14(DevProp):
    pid = "C14"
    fail_term = "c14_failures k"
    mis_term = "c14_mismatch k"
    nontrivial_term = "c14_fired k"
    soak = True
    monitor_name = "C14 monitor (signal iff press completing the sequence; completing press silent and state-neutral; a swallowed press leaves no trace in State() later)"
    correspondence_name = "C14 view (per-event termination-signal count, State() after every event and the Note-On of note-key presses: model vs implementation)"
    rule = ("exit sequences of length 0-3 drawn from note keys, action keys and unmapped keys; disturbances with the sequence partly held "
            "(a tap of every action key, keys congruent modulo 64/128/32, autorepeat events, an up/down chord) before the completing press; every press order of the sequence keys "
            "(exhaustive for length <= 3) with releases/re-presses and other keys interleaved, plus random alternating histories; "
            "non-trivial = distinct cases in which the implementation raised the signal at least once")

    def perturb(self, case, res):
        # falsify: a termination signal on a step that did not raise one
        for st in res["steps"]:
            if st["sigs"] == 0:
                st["sigs"] = 1
                return res
        return None

    def gen(self, rng, tier):
        cases = []
        n_cfg = 30 if tier == "quick" else 400
        for ci in range(n_cfg):
            cfg, note_codes, act_codes = self.exit_config(rng, ci % 4)
            seq = cfg["exitseq"]
            others = [x for x in note_codes + act_codes if x not in seq][:4]
            if not seq:
                cases.append({"cfg": cfg, "abs": [], "events": devgen.gen_history(rng, cfg, 30, avoid_exit=False), "tag": "empty-sequence"})
                continue
            for perm in itertools.permutations(seq):
                # plain order
                ev = [k(c, 1) for c in perm] + [k(c, 0) for c in perm]
                cases.append({"cfg": cfg, "abs": [], "events": ev, "tag": "order"})
                # all but last, release one and re-press, then last; another key pressed while complete
                ev = [k(c, 1) for c in perm[:-1]]
                if len(perm) > 1:
                    ev += [k(perm[0], 0), k(perm[-1], 1), k(perm[-1], 0), k(perm[0], 1)]
                ev += [k(perm[-1], 1)]
                if others:
                    ev += [k(others[0], 1), k(others[0], 0)]
                ev += [k(perm[0], 0), k(perm[0], 1)] + [k(c, 0) for c in perm]
                cases.append({"cfg": cfg, "abs": [], "events": ev, "tag": "release-repress"})
                # other keys interleaved, held across the completion
                ev = []
                for i, c in enumerate(perm):
                    if i < len(others):
                        ev.append(k(others[i], 1))
                    ev.append(k(c, 1))
                ev += [k(c, 0) for c in others[:len(perm)]] + [k(c, 0) for c in reversed(perm)]
                cases.append({"cfg": cfg, "abs": [], "events": ev, "tag": "interleaved"})
            # disturbances: with all sequence keys but the last held, something happens that must not make the device forget a held
            # key - a tap of EVERY action key (panic, mapping, octave ...), a tap of a key whose code is congruent to a sequence key modulo
            # 64 / 32 / 256-wrap neighbours, autorepeat events (value 2) of held sequence keys and of other keys, an up/down chord - then
            # the last key completes the sequence (must fire), and the same after releasing and re-pressing
            perm = list(seq)
            rng.shuffle(perm)
            held, last = perm[:-1], perm[-1]
            used = set(seq)
            disturb = []
            for a in cfg["actions"]:
                if a["code"] not in used:
                    disturb.append(("action-" + a["action"], [k(a["code"], 1), k(a["code"], 0)]))
            for c in (held or [last]):
                for d in (64, 128, 32, 192):
                    x = (c + d) % 256
                    if x not in used and x != 0:
                        disturb.append(("alias-%d" % d, [k(x, 1), k(x, 0)]))
                        break
            for c in held:
                disturb.append(("repeat-held", [k(c, 2), k(c, 2)]))
            disturb.append(("repeat-other", [k(57, 1), k(57, 2), k(57, 0)] if 57 not in used else []))
            ups = {a["action"]: a["code"] for a in cfg["actions"] if a["code"] not in used}
            for u, d in (("octave_up", "octave_down"), ("mapping_up", "mapping_down"), ("channel_up", "channel_down")):
                if u in ups and d in ups:
                    disturb.append(("chord", [k(ups[u], 1), k(ups[d], 1), k(ups[u], 0), k(ups[d], 0)]))
                    break
            # stray releases (a key that was already down when the device attached, or whose press was lost): a release of a key that is
            # not down must leave it "up"
            disturb.append(("stray-release-held", [k(c, 0) for c in held] if held else []))
            for name, dv in [("stray", [k(last, 0)]), ("stray", [k(c, 0) for c in perm])]:
                ev = dv + [k(c, 1) for c in held] + [k(57, 1), k(57, 0)] + [k(c, 0) for c in held] + dv + [k(c, 1) for c in held] + \
                    [k(last, 1)] + [k(c, 0) for c in perm] + [k(c, 1) for c in held] + [k(c, 0) for c in held] + [k(last, 1), k(last, 0)]
                cases.append({"cfg": cfg, "abs": [], "events": ev, "tag": "disturb-stray-release"})
            # events of other evdev types (EV_MSC scancodes, EV_LED, EV_REL of a built-in pointer ...) carrying the CODE of a sequence key and a
            # value that would mean press / release for a key: they are not key events - they neither hold nor release anything
            def o(code, val, ty):
                return {"t": "o", "ty": ty, "sub": "", "code": code, "val": val}
            disturb.append(("othertype-release", [o(c, rng.choice([0, -3, 2]), rng.choice([2, 4, 0x11])) for c in held]))
            for ty in (0x11, 2, 4):
                ev = [o(c, 1, ty) for c in perm] + [k(c, 1) for c in held] + [o(last, 1, ty)] + [k(57, 1), k(57, 0)] + [k(c, 0) for c in held] + \
                    [k(last, 1), k(last, 0)] + [k(c, 1) for c in held] + [o(c, 0, ty) for c in held] + [k(last, 1)] + [k(c, 0) for c in perm]
                cases.append({"cfg": cfg, "abs": [], "events": ev, "tag": "disturb-othertype-phantom"})
            for name, dv in disturb:
                if not dv:
                    continue
                ev = [k(c, 1) for c in held] + dv + [k(last, 1), k(last, 0)] + dv + [k(last, 1)] + [k(c, 0) for c in perm]
                cases.append({"cfg": cfg, "abs": [], "events": ev, "tag": "disturb-" + name.split("-")[0]})
            for _ in range(2 if tier == "quick" else 6):
                cases.append({"cfg": cfg, "abs": [], "events": devgen.gen_history(rng, cfg, rng.randint(20, 70), avoid_exit=False, p_action=0.4),
                              "tag": "random"})
        # "swallowed" means NO trace: the completing key is one half of an up/down pair and stays down after the signal; another
        # sequence key is released, then the partner, a third action and notes are pressed - the device must behave as if the
        # swallowed press had never reached the action dispatch (no pair reset, the partner steps normally)
        for cmode in devgen.CMODES[:2]:
            for (u, d) in [("octave_up", "octave_down"), ("semitone_up", "semitone_down"), ("channel_up", "channel_down"), ("mapping_up", "mapping_down")]:
                for comp, partner in ((u, d), (d, u)):
                    A, N1, N2 = 30, 16, 17
                    code = {"octave_up": 59, "octave_down": 60, "semitone_up": 61, "semitone_down": 62, "channel_up": 63, "channel_down": 64,
                            "mapping_up": 65, "mapping_down": 66}
                    midi = [{"sub": "", "code": N1, "note": 60, "off": 0}, {"sub": "", "code": N2, "note": 64, "off": 1}]
                    cfg = {"mappings": [{"name": "M0", "midi": midi, "analog": [], "dz": [], "defdz": [], "subs": []},
                                        {"name": "M1", "midi": midi[:1], "analog": [], "dz": [], "defdz": [], "subs": []},
                                        {"name": "M2", "midi": midi, "analog": [], "dz": [], "defdz": [], "subs": []}],
                           "actions": [{"code": c, "action": a} for a, c in code.items()] + [{"code": 67, "action": "panic"}],
                           "exitseq": [A, code[comp]], "cmode": cmode, "octave": 2, "semitone": -3, "channel": 5, "mapping": 1, "velocity": 64}
                    tapn = [k(N1, 1), k(N1, 0)]
                    for variant in range(3):
                        ev = [k(A, 1), k(code[comp], 1)]                       # fires; the completing press is swallowed
                        ev += [k(A, 0)] + tapn
                        if variant == 0:
                            ev += [k(code[partner], 1)] + tapn + [k(code[partner], 0)]          # must be a single step, not a reset
                        elif variant == 1:
                            ev += [k(67, 1), k(67, 0), k(code[partner], 1), k(code[partner], 0)] + tapn
                        else:
                            third = code["semitone_up" if u != "semitone_up" else "octave_up"]
                            ev += [k(third, 1)] + tapn + [k(third, 0), k(code[partner], 1)] + tapn + [k(code[partner], 0)]
                        ev += [k(code[comp], 0)] + tapn + [k(code[comp], 1), k(code[comp], 0)] + tapn
                        cases.append({"cfg": cfg, "abs": [], "events": ev, "tag": "after-fire"})
        # every release path must take the key out of the "down" set: a sequence key that is a note key in one mapping and has no role in
        # another one is pressed, the mapping is changed while it is held (its release then goes through the stale-note path), and later
        # the remaining sequence key(s) are pressed alone (must not fire, must act normally); then the full sequence (must fire)
        for cmode in devgen.CMODES:
            for chg in ("mapping_up", "mapping_down", "mapping"):
                for ekind in ("note", "other", "panic", "two"):
                    S, S2, N, E = 56, 42, 16, {"note": 17, "other": 1, "panic": 67, "two": 17}[ekind]
                    m0 = [{"sub": "", "code": N, "note": 60, "off": 0}, {"sub": "", "code": 17, "note": 62, "off": 0},
                          {"sub": "", "code": S, "note": 54, "off": 0}, {"sub": "", "code": S2, "note": 55, "off": 2}]
                    m1 = m0[:2]
                    cfg = {"mappings": [{"name": "M0", "midi": m1, "analog": [], "dz": [], "defdz": [], "subs": []},
                                        {"name": "M1", "midi": m0, "analog": [], "dz": [], "defdz": [], "subs": []},
                                        {"name": "M2", "midi": m1, "analog": [], "dz": [], "defdz": [], "subs": []}],
                           "actions": [{"code": 65, "action": "mapping_up"}, {"code": 66, "action": "mapping_down"}, {"code": 68, "action": "mapping"},
                                       {"code": 67, "action": "panic"}],
                           "exitseq": [S, E] + ([S2] if ekind == "two" else []), "cmode": cmode, "octave": 0, "semitone": 0, "channel": 1,
                           "mapping": 1, "velocity": 64}
                    ccode = {"mapping_up": 65, "mapping_down": 66, "mapping": 68}[chg]
                    back = {"mapping_up": 66, "mapping_down": 65, "mapping": 65}[chg]
                    held = [S] + ([S2] if ekind == "two" else [])
                    ev = [k(c, 1) for c in held] + [k(ccode, 1), k(ccode, 0)] + [k(c, 0) for c in held]
                    ev += [k(N, 1), k(N, 0), k(E, 1), k(E, 0), k(N, 1), k(E, 1), k(E, 0), k(N, 0)]          # E alone: no signal, normal behaviour
                    ev += [k(back, 1), k(back, 0)] + [k(c, 1) for c in held] + [k(E, 1)] + [k(c, 0) for c in held] + [k(E, 0)]   # fires
                    ev += [k(E, 1), k(E, 0)]
                    cases.append({"cfg": cfg, "abs": [], "events": ev, "tag": "stale-release-of-sequence-key"})
        return cases

    def exit_config(self, rng, L):
        """random configuration with an exit sequence of (at most) L keys drawn from note keys, action keys and unmapped keys"""
        cfg = devgen.gen_config(rng, with_exit=False)
        note_codes = sorted({kk["code"] for m in cfg["mappings"] for kk in m["midi"]})
        act_codes = [a["code"] for a in cfg["actions"]]
        pool = {"note": note_codes, "action": act_codes, "other": devgen.OTHER_CODES}
        kinds = [rng.choice(["note", "action", "other"]) for _ in range(L)]
        seq = []
        for kd in kinds:
            cand = [x for x in pool[kd] if x not in seq]
            if cand:
                seq.append(rng.choice(cand))
        cfg["exitseq"] = seq
        return cfg, note_codes, act_codes

    def soak_case(self, rng):
        """stream of the extracted-model soak: the 'random' stream (a fresh configuration per history, sequence length 0-3 uniform)"""
        cfg, _, _ = self.exit_config(rng, rng.randrange(4))
        return {"cfg": cfg, "abs": [], "events": devgen.gen_history(rng, cfg, rng.randint(20, 70), avoid_exit=False, p_action=0.4),
                "tag": "random"}


def run(run_):
    C14().run(run_)


def replay(run_, data):
    C14().replay(run_, data)
