"""C10: accepted configurations say what the file says; invalid values are rejected."""
import base64, collections, json, random
from common import *
import parsergen as pg

SHARD = 40          # cases per coqc run


def corpus(gen):
    """hand-written descriptions: the witnesses of the confirmed defects (F2-F4) and structural corner cases"""
    base = dict(cmode=b"off", exit=[], ident=[0, 0, 0, 0], uniq=b"", octave=0, semitone=0, channel=1, defmap=b"a", velocity=0,
                actions=[], rgb=[0] * 7, mappings=[])
    ax = lambda **kw: dict(dict(type=b"cc", cc=None, ccneg=None, note=None, noteneg=None, off=0, offneg=0, act=None, actneg=None,
                                flip=False, dzc=False), **kw)

    def one(axes=None, keys=None, **kw):
        d = pg.clone(base)
        d["mappings"] = [dict(name=b"a", keys=[dict(sub=b"", map=keys or [])] if keys is not None else [],
                              analog=[dict(sub=b"", defdz=0, map=axes or [], dz=[])] if axes is not None else [])]
        d.update(kw)
        return d
    out = [
        ("action axis without action_negative (F3)", one(axes=[(b"ABS_X", ax(type=b"action", act=b"octave_up"))])),
        ("key axis with distinct negative note and offsets (F4)",
         one(axes=[(b"ABS_HAT0X", ax(type=b"key", note=60, noteneg=61, off=3, offneg=4))])),
        ("cc axis with both controllers and offsets", one(axes=[(b"ABS_X", ax(cc=7, ccneg=8, off=2, offneg=15, flip=True, dzc=True))])),
        ("pitch bend with offset", one(axes=[(b"x02", ax(type=b"pitch_bend", off=9))])),
        ("action axis with both actions", one(axes=[(b"ABS_Y", ax(type=b"action", act=b"mapping_up", actneg=b"mapping_down"))])),
        ("channel 16, velocity 127", one(keys=[(b"KEY_A", b"127,15"), (b"x1f", b"c-2"), (b"KEY_D", b"G8,0")], channel=16, velocity=127)),
        # key codes and axis codes are separate number spaces that overlap below 0x40 (KEY_ESC = 1 = ABS_Y, KEY_1 = 2 = ABS_Z, KEY_Q = 16 =
        # ABS_HAT0X): keys by name and axes by raw code - and the other way round - with equal numbers in one sub-handler, all of them stay
        ("keys by name and axes by raw code with equal numbers",
         one(keys=[(b"KEY_ESC", b"60"), (b"KEY_1", b"61,2"), (b"KEY_Q", b"c3")],
             axes=[(b"x01", ax(cc=7)), (b"x02", ax(type=b"pitch_bend", off=1)), (b"x10", ax(type=b"key", note=40, noteneg=41)), (b"ABS_X", ax(cc=9))])),
        ("keys by raw code and axes by name with equal numbers",
         one(keys=[(b"x01", b"60"), (b"x02", b"61"), (b"x10", b"62"), (b"x00", b"63")],
             axes=[(b"ABS_Y", ax(cc=7)), (b"ABS_Z", ax(cc=8)), (b"ABS_HAT0X", ax(type=b"key", note=40, noteneg=41)), (b"ABS_X", ax(cc=9))])),
        ("two mappings of the same name: the last is the default",
         dict(pg.clone(base), mappings=[dict(name=b"a", keys=[dict(sub=b"", map=[(b"KEY_A", b"1")])], analog=[]),
                                        dict(name=b"b", keys=[], analog=[]),
                                        dict(name=b"a", keys=[dict(sub=b"", map=[(b"KEY_A", b"2")])], analog=[])])),
        ("sub-handlers of the same name: the last non-empty key table and the last analog table win",
         dict(pg.clone(base), mappings=[dict(name=b"a",
                                             keys=[dict(sub=b"s", map=[(b"KEY_A", b"1")]), dict(sub=b"s", map=[(b"KEY_B", b"2")]),
                                                   dict(sub=b"s", map=[])],
                                             analog=[dict(sub=b"s", defdz=pg.f2b(0.5), map=[(b"ABS_X", ax(cc=1))], dz=[(b"ABS_X", pg.f2b(0.1))]),
                                                     dict(sub=b"s", defdz=pg.f2b(0.25), map=[], dz=[])])])),
        ("colours beyond 24 bits and negative", one(rgb=[0x123456, -1, 1 << 24, (1 << 32) + 0xabcdef, -(1 << 40) + 7, 255, 256])),
        ("shipped-style gamepad", one(keys=[(b"BTN_A", b"C3"), (b"BTN_B", b"D#3,1")],
                                      axes=[(b"ABS_X", ax(cc=1)), (b"ABS_HAT0Y", ax(type=b"key", note=14, noteneg=15))],
                                      actions=[(b"BTN_SELECT", b"channel_down"), (b"BTN_START", b"channel_up")],
                                      exit=[b"BTN_SELECT", b"BTN_START"], cmode=b"interrupt", velocity=64)),
    ]
    return out


def stats_of(d, st):
    for m in d["mappings"]:
        for ks in m["keys"]:
            for k, v in ks["map"]:
                st["key by hex" if k[:1] == b"x" else "key by name"] += 1
                n = v.split(b",")[0]
                st["note by number" if n.lstrip(b"+-").isdigit() else "note by name"] += 1
                st["value with offset" if b"," in v else "value without offset"] += 1
        for a in m["analog"]:
            for k, x in a["map"]:
                ty = x["type"].decode()
                st["axis " + ty] += 1
                for f in ("ccneg", "noteneg", "actneg"):
                    if x[f] is not None and {"ccneg": "cc", "noteneg": "key", "actneg": "action"}[f] == ty:
                        st["axis %s with %s" % (ty, f)] += 1
                if x["off"]:
                    st["axis with channel_offset"] += 1
                if x["offneg"]:
                    st["axis with channel_offset_negative"] += 1
            st["deadzone entries"] += len(a["dz"])
    st["mappings"] += len(d["mappings"])
    st["velocity 0" if d["velocity"] == 0 else "velocity set"] += 1


def category(v):
    import re
    w = v["what"]
    m = re.search(r"(panicked|did not return|is rejected|invalid configuration is accepted: [a-z_-]+|decoder|differ|monitor [a-z_]+|"
                  r"model (accepts|rejects)|tables)", w)
    k = m.group(1) if m else w[:30]
    codes = v["replay"].get("verdict_codes") if isinstance(v["replay"], dict) else None
    return k + (str(codes) if codes else "")


def diversify(run_):
    """only the first violations are printed: put one of every category first (stable)"""
    seen, first, rest = set(), [], []
    for v in run_.violations:
        c = category(v)
        (rest if c in seen else first).append(v)
        seen.add(c)
    prio = ["panicked", "did not return", "monitor", "differ", "default-channel", "actneg", "key-off", "model", "is rejected"]

    def rank(v):
        c = category(v)
        for i, p in enumerate(prio):
            if p in c:
                return i
        return len(prio)
    first.sort(key=rank)
    run_.violations[:] = first + rest
    run_.coverage["violation_categories"] = sorted(seen)


def run(run_):
    tier, seed = run_.tier, run_.seed
    run_.proof_obligations()
    rng = random.Random(seed)
    binary, err = go_build("config")
    if binary is None:
        run_.violation("harness for package config does not build against the repository: " + err,
                       {"correspondence": "C10 harness build", "error": err}, no_input=True)
        return
    tables, err = run_harness(binary, "c10tables", {})
    if tables is None:
        run_.violation("C10 harness (tables) failed: " + err, {"correspondence": "C10 tables dump", "error": err}, no_input=True)
        return
    gen = pg.Gen(rng, tables)
    n_desc = 220 if tier == "quick" else 2500
    n_coq_inv = 500 if tier == "quick" else 6000

    # ---- inputs
    cases = []    # dict(kind, expect, desc (or None), text, label)
    st = collections.Counter()
    for label, d in corpus(gen):
        cases.append(dict(kind="valid", expect="ok", desc=d, text=pg.print_toml(d, rng), label="corpus: " + label))
    for i in range(n_desc):
        d = gen.description()
        cases.append(dict(kind="valid", expect="ok", desc=d, text=pg.print_toml(d, rng), label="random description %d" % i))
    valid = list(cases)
    inv_kinds = collections.Counter()
    for c in valid:
        stats_of(c["desc"], st)
        for kind, md, over, extra in pg.invalidations(c["desc"], rng):
            dd = md if md is not None else c["desc"]
            cases.append(dict(kind=kind, expect="error", desc=md, text=pg.print_toml(dd, rng, over=over, extra=extra),
                              label="%s of [%s]" % (kind, c["label"])))
            inv_kinds[kind.split("@")[0]] += 1

    out, err = run_harness(binary, "c10", {"inputs": [base64.b64encode(c["text"]).decode() for c in cases],
                                           "want_config": True, "want_dec": True}, timeout=1800)
    if out is None:
        run_.violation("C10 harness failed: " + err, {"correspondence": "C10 harness run", "error": err}, no_input=True)
        return
    res = out["results"]
    errkinds = collections.Counter()
    # same bytes, same answer: every input is parsed a second time after all the others (see the harness)
    for i in (out.get("unstable") or [])[:3]:
        c = cases[i]
        run_.violation("ParseData gives a different result for %s when the same bytes are parsed again after other files of this run (first call: %s): "
                       "what an accepted file says may not depend on what was parsed before" % (c["label"], res[i]["class"]),
                       {"call": "config.ParseData (twice, other inputs in between)", "toml": c["text"].decode("utf-8", "replace"),
                        "toml_base64": base64.b64encode(c["text"]).decode(), "case": c["label"], "first_result": res[i]["class"],
                        "history": "all %d inputs of this run in order, then this input again" % len(cases)})
    run_.coverage["inputs_parsed_twice"] = out.get("rerun", 0)

    def replay_of(c, r, **kw):
        d = {"call": "config.ParseData", "toml": c["text"].decode("utf-8", "replace"),
             "toml_base64": base64.b64encode(c["text"]).decode(), "case": c["label"], "expect": c["expect"],
             "implementation": {"class": r["class"], "error": r.get("err", "")}}
        d.update(kw)
        return d

    # ---- python-side expectations (all cases)
    for c, r in zip(cases, res):
        if r["class"] == "error":
            errkinds[pg.classify_error(r.get("err", ""))] += 1
        if r["class"] in ("panic", "hang"):
            run_.violation("ParseData %s on %s: %s" % ("panicked" if r["class"] == "panic" else "did not return", c["label"], r.get("err", "")),
                           replay_of(c, r))
            continue
        if c["expect"] == "ok" and r["class"] != "ok":
            run_.violation("a valid configuration (%s) is rejected: %s" % (c["label"], r.get("err", "")), replay_of(c, r))
        if c["expect"] == "error" and r["class"] == "ok":
            run_.violation("an invalid configuration is accepted: %s" % c["label"], replay_of(c, r))
        if c["desc"] is not None:
            if r["dec_class"] != "ok":
                run_.violation("the decoder does not accept the well-typed file of %s: %s %s" % (c["label"], r["dec_class"], r.get("dec_err", "")),
                               replay_of(c, r, correspondence="decoder oracle: faithful on well-typed input"))
            elif pg.from_go_dec(r["dec"]) != pg.normalize(c["desc"]):
                run_.violation("the decoded structure differs from what the file of %s states" % c["label"],
                               replay_of(c, r, correspondence="decoder oracle: faithful on well-typed input",
                                         decoded=json.dumps(r["dec"])[:2000]))
        elif r["dec_class"] == "ok":
            run_.violation("the decoder accepts a file with an unknown field: %s" % c["label"],
                           replay_of(c, r, correspondence="decoder oracle: DisallowUnknownFields"))

    # ---- the model in coqc: every valid description and a sample of the invalidations
    idx_valid = [i for i, c in enumerate(cases) if c["kind"] == "valid"]
    idx_inv = [i for i, c in enumerate(cases) if c["kind"] != "valid" and c["desc"] is not None]
    rng.shuffle(idx_inv)
    idx_inv = sorted(idx_inv[:n_coq_inv])
    chosen = idx_valid + idx_inv
    tabs = "Definition T := Eval vm_compute in %s.\n" % pg.ctables(tables)
    emit_problems = []

    def case_literal(i):
        c, r = cases[i], res[i]
        if r["class"] == "ok":
            lit, why = pg.cpconfig(r["cfg"])
            if lit is None:
                emit_problems.append((i, why))
                obs = "IErr"
            else:
                obs = "(IOk %s)" % lit
        else:
            obs = "IErr"
        return "(%s, %s)" % (pg.ctoml(c["desc"]), obs)

    shards = [chosen[k:k + SHARD] for k in range(0, len(chosen), SHARD)]
    items = []
    for si, sh in enumerate(shards):
        body = pg.PREAMBLE + tabs
        for j, i in enumerate(sh):
            body += "Definition c%d : toml_cfg * impl_obs := %s.\n" % (j, case_literal(i))
        body += "Definition F := Eval vm_compute in c10_failures T %s.\nPrint F.\n" % clist(["c%d" % j for j in range(len(sh))])
        body += "Definition A := Eval vm_compute in c10_model_accepts T %s.\nPrint A.\n" % clist(["c%d" % j for j in range(len(sh))])
        if si == 0:
            ncorp = len([i for i in sh if cases[i]["label"].startswith("corpus")])
            body += "Definition ST := Eval vm_compute in c10_selftest T %s.\nPrint ST.\n" % clist(["c%d" % j for j in range(ncorp)])
            body += "Definition TOK := Eval vm_compute in tables_ok T %s %s %s.\nPrint TOK.\n" % (
                clist([pg.cstr(x) for x in tables["actions"]]), clist([pg.cstr(x) for x in tables["types"]]),
                clist([pg.cstr(x) for x in tables["cmodes"]]))
        items.append(("c10_%d" % si, body))
    outs = coq_eval_many(items, timeout=1800)
    for i, why in emit_problems:
        run_.violation("ParseData returned a Config outside the model's types for %s: %s" % (cases[i]["label"], why),
                       replay_of(cases[i], res[i]))
    model_accepts = 0
    CODES = {1: "the model accepts the file, the implementation rejects it", 2: "the model rejects the file, the implementation accepts it",
             3: "the model crashes", 4: "monitor reflects_b (C10_sound) fails on the returned Config",
             5: "monitor wf_pconfig_b (C10_ranges) fails on the returned Config", 10: "identifier differs", 11: "key mappings differ",
             12: "action mapping differs", 13: "exit sequence differs", 14: "collision mode differs", 15: "defaults differ",
             16: "colours differ"}
    for sh, o in zip(shards, outs):
        defs = extract_defs(o)
        if "F" not in defs or isinstance(defs["F"], tuple) or "A" not in defs:
            raise CheckError("cannot read the verdicts from coqc output: %r" % (o[-500:],))
        model_accepts += defs["A"]
        if "ST" in defs:
            # the original model and the fixed model must not be indistinguishable on the corpus (else the comparison is vacuous)
            run_.coverage["selftest_original_model_mismatches"] = len(defs["ST"])
            fixed_fail = {j for (j, _) in defs["F"]}
            orig_fail = {j for (j, _) in defs["ST"]}
            if not (fixed_fail ^ orig_fail):
                run_.violation("self-test: the pre-fix variant of the model is indistinguishable from the model on the corpus witnesses",
                               {"correspondence": "c10_selftest (Run/ParserRun.v)", "original": sorted(orig_fail), "model": sorted(fixed_fail)},
                               no_input=True)
        if "TOK" in defs and defs["TOK"] != []:
            names = {1: "SupportedActions", 2: "SupportedMappingTypes", 3: "SupportedCollisionModes", 4: "duplicate evdev names",
                     5: "evdev code beyond 16 bits", 6: "evdev name starting with x"}
            run_.violation("the tables of the linked packages differ from the model's: %s" % [names.get(x, x) for x in defs["TOK"]],
                           {"correspondence": "tables_ok (Run/ParserRun.v)", "codes": defs["TOK"],
                            "actions": [bytes(x).decode() for x in tables["actions"]]}, no_input=True)
        for (j, codes) in defs["F"]:
            i = sh[j]
            c, r = cases[i], res[i]
            what = "; ".join(CODES.get(x, str(x)) for x in codes)
            run_.violation("%s: %s" % (c["label"], what),
                           replay_of(c, r, verdict_codes=codes, verdict=what,
                                     returned_config=json.dumps(r.get("cfg"))[:3000] if r.get("cfg") else None))
    if tables["false_entries"]:
        run_.violation("a Supported* table contains a false entry (would be treated as supported by a lookup without ,ok)",
                       {"correspondence": "tables", "false_entries": tables["false_entries"]}, no_input=True)

    diversify(run_)
    ok_valid = sum(1 for i in idx_valid if res[i]["class"] == "ok")
    distinct_valid = len({cases[i]["text"] for i in idx_valid})
    distinct_inv = len({c["text"] for c in cases if c["kind"] != "valid"})
    run_.coverage.update({
        "evaluations": len(cases),
        "distinct_nontrivial": distinct_valid + distinct_inv,
        "rule": "distinct file contents: valid descriptions (each compared field for field with the model in coqc and checked by the "
                "reflects_b / wf_pconfig_b monitors) + single-field invalidations of them (each must be rejected with an error; one random "
                "site per invalidation kind and description, incl. an unknown field at every nesting level); "
                "every one is non-trivial by construction (it exercises the accept or one reject path)",
        "valid_descriptions": len(idx_valid), "valid_accepted_by_implementation": ok_valid,
        "invalidations": len(cases) - len(idx_valid), "invalidation_kinds": dict(inv_kinds),
        "cases_through_coq_model": len(chosen), "of_which_invalidations": len(idx_inv), "model_accepts": model_accepts,
        "implementation_error_kinds": dict(errkinds),
        "generator_distribution": dict(st),
        "file_sizes": {"min": min(len(c["text"]) for c in cases), "max": max(len(c["text"]) for c in cases),
                       "mean": round(sum(len(c["text"]) for c in cases) / len(cases))},
        "tables": {"KEYFromString": len(tables["keys"]), "ABSFromString": len(tables["abs"]),
                   "SupportedActions": len(tables["actions"]), "SupportedMappingTypes": len(tables["types"]),
                   "SupportedCollisionModes": len(tables["cmodes"])},
        "samples": [{"case": c["label"], "toml": c["text"].decode("utf-8", "replace")[:700], "implementation": r["class"],
                     "error": r.get("err", "")[:160]}
                    for c, r in [(cases[i], res[i]) for i in (idx_valid[:2] + idx_valid[-1:] + idx_inv[:3])]],
        "exhaustive": False,
        "correspondence_obligations": 4,
    })
    run_.assumptions += [
        "the go-toml v2.0.3 decoder is an oracle: strict on unknown fields and faithful on well-typed input (both checked on every generated file: the decoded structure is compared with the description)",
        "two names of one TOML table never denote the same evdev code (Go map iteration order would decide which wins); fields a mapping type does not use are ignored",
        "strconv.Atoi / ParseUint / strings.Split behave as modelled outside the generated inputs (Model/Parser.v: atoi, parse_uint16_hex, split_comma)",
        "evdev name tables are data: dumped from the linked go-evdev on every run and passed to the model; Supported* tables compared exhaustively (tables_ok)",
    ]


def replay(run_, data):
    """re-run one saved file: the decoded structure (oracle) is given to the model, the implementation's Config to the monitors"""
    run_.proof_obligations()
    rp = data["replay"]
    if "toml_base64" not in rp:
        return run(run_)
    binary, err = go_build("config")
    if binary is None:
        run_.violation("harness does not build: " + err, {"error": err}, no_input=True)
        return
    tables, err = run_harness(binary, "c10tables", {})
    out, err2 = run_harness(binary, "c10", {"inputs": [rp["toml_base64"]], "want_config": True, "want_dec": True})
    if tables is None or out is None:
        run_.violation("C10 harness failed: %s" % (err or err2), {"error": err or err2}, no_input=True)
        return
    r = out["results"][0]
    rep = dict(rp, implementation={"class": r["class"], "error": r.get("err", "")})
    if r["class"] in ("panic", "hang"):
        run_.violation("ParseData %s: %s" % (r["class"], r.get("err", "")), rep)
        return
    if rp.get("expect") == "ok" and r["class"] != "ok":
        run_.violation("a valid configuration is rejected: %s" % r.get("err", ""), rep)
    if rp.get("expect") == "error" and r["class"] == "ok":
        run_.violation("an invalid configuration is accepted", rep)
    if r["dec_class"] == "ok":
        obs = "IErr"
        if r["class"] == "ok":
            lit, why = pg.cpconfig(r["cfg"])
            obs = "(IOk %s)" % lit if lit else "IErr"
        body = pg.PREAMBLE + "Definition T := Eval vm_compute in %s.\n" % pg.ctables(tables)
        body += "Definition c0 : toml_cfg * impl_obs := (%s, %s).\n" % (pg.ctoml(pg.from_go_dec(r["dec"])), obs)
        body += "Definition F := Eval vm_compute in c10_failures T [c0].\nPrint F.\n"
        defs = extract_defs(coq_eval("c10_replay", body))
        if defs.get("F") != []:
            run_.violation("model and implementation disagree on the replayed file: verdict %r" % (defs.get("F"),), rep)
    run_.coverage.update({"evaluations": 1, "distinct_nontrivial": 1, "rule": "replay of one saved file", "samples": [rep],
                          "correspondence_obligations": 1})
