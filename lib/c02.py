"""C02: release pinned to the press; state actions are silent."""
from common import *
import devgen
from devprop import DevProp
import c01


class C02(DevProp):
    pid = "C02"
    fail_term = "c02_failures k"
    mis_term = "notes_mismatch k"
    soak = True
    monitor_name = ("C02 monitor (press messages are Note On/Off of the pair resolved in the observed state; release messages are Note Off of "
                    "the pair recorded at the press; non-panic action keys are silent)")
    correspondence_name = "C02 view (messages of every step that is not a panic press)"
    rule = ("alternating histories with a high density of octave/semitone/channel/mapping/learning/multinote actions between a key's press and "
            "its release, mappings where held keys are unmapped or mapped elsewhere, channel offsets; templates; non-trivial = distinct cases in "
            "which some note key had a state-changing action pressed between its press and its release")

    def nontrivial_py(self, case, res):
        acts = {a["code"]: a["action"] for a in case["cfg"]["actions"]}
        down = set()
        for e in case["events"]:
            if e["t"] != "k" or e["val"] == 2:
                continue
            if e["val"] == 1:
                if e["code"] in acts and acts[e["code"]] not in ("panic", "exit", "multinote", "mapping", "channel") and any(d not in acts for d in down):
                    return True
                down.add(e["code"])
            else:
                down.discard(e["code"])
        return False

    def perturb(self, case, res):
        # falsify: the first Note Off goes to the neighbouring pitch
        for st in res["steps"]:
            for m in st["midi"]:
                if m[0] & 0xF0 == 0x80 and len(st["midi"]) < 100:
                    m[1] = (m[1] + 1) % 128
                    return res
        return None

    def gen(self, rng, tier):
        cases = c01.templates(rng) + silent_repress_templates()
        for i in range(260 if tier == "quick" else 8000):
            cases.append(self.soak_case(rng))
        return cases

    def soak_case(self, rng):
        """one case of the 'random' stream (also the stream of the extracted-model soak)"""
        cfg = devgen.gen_config(rng, n_maps=rng.choice([2, 3, 3]), with_exit=(rng.random() < 0.15))
        h = devgen.gen_history(rng, cfg, rng.randint(15, 80), p_action=rng.choice([0.5, 0.6, 0.7]), max_down=5)
        return {"cfg": cfg, "abs": [], "events": h + devgen.release_all(h), "tag": "random"}


def silent_repress_templates():
    """A key released while another holder of its pitch remains (or alone), then pressed again where the press is SILENT (transposed out
    of range, or switched to a mapping in which the key is unmapped / mapped elsewhere) and released: that release belongs to a press
    that produced nothing, so it must produce nothing; every other key's Note Off must still carry its own press's pitch."""
    def k(code, val):
        return {"t": "k", "sub": "", "code": code, "val": val}
    A, B, C = 16, 17, 18
    UP, DOWN, MUP, MDOWN = 59, 60, 61, 62
    cases = []
    for cmode in devgen.CMODES:
        for shared in (True, False):
            m0 = [{"sub": "", "code": A, "note": 60, "off": 0}, {"sub": "", "code": B, "note": 60 if shared else 64, "off": 0},
                  {"sub": "", "code": C, "note": 60, "off": 0}]
            m1 = [{"sub": "", "code": B, "note": 60 if shared else 64, "off": 0}, {"sub": "", "code": C, "note": 60, "off": 0}]   # A unmapped
            cfg = {"mappings": [{"name": "M0", "midi": m0, "analog": [], "dz": [], "defdz": [], "subs": []},
                                {"name": "M1", "midi": m1, "analog": [], "dz": [], "defdz": [], "subs": []}],
                   "actions": [{"code": UP, "action": "octave_up"}, {"code": DOWN, "action": "octave_down"},
                               {"code": MUP, "action": "mapping_up"}, {"code": MDOWN, "action": "mapping_down"}],
                   "exitseq": [], "cmode": cmode, "octave": 0, "semitone": 0, "channel": 1, "mapping": 0, "velocity": 64}
            silent = {"octave": ([k(UP, 1), k(UP, 0)] * 6, [k(DOWN, 1), k(DOWN, 0)] * 6),
                      "mapping": ([k(MUP, 1), k(MUP, 0)], [k(MDOWN, 1), k(MDOWN, 0)])}
            for how, (go, back) in silent.items():
                for head in ([k(A, 1), k(B, 1), k(A, 0)], [k(B, 1), k(A, 1), k(A, 0)], [k(A, 1), k(A, 0), k(B, 1)], [k(A, 1), k(A, 0)]):
                    for mid in ([k(A, 1), k(A, 0)], [k(A, 1)] + back + [k(A, 0)] + go):
                        for tail in ([k(B, 0), k(C, 1), k(C, 0)], [k(C, 1), k(B, 0), k(C, 0)], [k(B, 0)]):
                            ev = head + go + mid + back + tail + [k(A, 1), k(A, 0), k(C, 1), k(C, 0)]
                            # keep per-key alternation: B may not be down in heads that never press it
                            down, ok, out = set(), True, []
                            for e in ev:
                                if e["code"] in (A, B, C):
                                    if e["val"] == 1 and e["code"] in down or e["val"] == 0 and e["code"] not in down:
                                        continue
                                    (down.add if e["val"] == 1 else down.discard)(e["code"])
                                out.append(e)
                            cases.append({"cfg": cfg, "abs": [], "events": out, "tag": "silent-repress-" + how})
    return cases


def run(run_):
    C02().run(run_)


def replay(run_, data):
    C02().replay(run_, data)
