"""C02: release pinned to the press; state actions are silent."""
from common import *
import devgen
from devprop import DevProp
import c01


class C02(DevProp):
    pid = "C02"
    fail_term = "c02_failures k"
    mis_term = "notes_mismatch k"
    monitor_name = ("C02 monitor (press messages are Note On/Off of the pair resolved in the observed state; release messages are Note Off of "
                    "the pair recorded at the press; non-panic action keys are silent)")
    correspondence_name = "C02 view (messages of every step that is not a panic press)"
    rule = ("alternating histories with a high density of octave/semitone/channel/mapping/learning/multinote actions between a key's press and "
            "its release, mappings where held keys are unmapped or mapped elsewhere, channel offsets; templates; non-trivial = distinct cases in "
            "which some note key had a state-changing action pressed between its press and its release")

    def nontrivial_py(self, case, res):
        acts = {a["code"]: a["action"] for a in case["cfg"]["actions"]}
        down = set()
        for e in case["events"]:
            if e["t"] != "k" or e["val"] == 2:
                continue
            if e["val"] == 1:
                if e["code"] in acts and acts[e["code"]] not in ("panic", "exit", "multinote", "mapping", "channel") and any(d not in acts for d in down):
                    return True
                down.add(e["code"])
            else:
                down.discard(e["code"])
        return False

    def perturb(self, case, res):
        # falsify: the first Note Off goes to the neighbouring pitch
        for st in res["steps"]:
            for m in st["midi"]:
                if m[0] & 0xF0 == 0x80 and len(st["midi"]) < 100:
                    m[1] = (m[1] + 1) % 128
                    return res
        return None

    def gen(self, rng, tier):
        cases = c01.templates(rng)
        for i in range(260 if tier == "quick" else 8000):
            cfg = devgen.gen_config(rng, n_maps=rng.choice([2, 3, 3]), with_exit=(rng.random() < 0.15))
            h = devgen.gen_history(rng, cfg, rng.randint(15, 80), p_action=rng.choice([0.5, 0.6, 0.7]), max_down=5)
            cases.append({"cfg": cfg, "abs": [], "events": h + devgen.release_all(h), "tag": "random"})
        return cases


def run(run_):
    C02().run(run_)


def replay(run_, data):
    C02().replay(run_, data)
