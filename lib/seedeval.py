#!/usr/bin/env python3
"""Confirms a seeded change (demo fails with it, passes without; existing tests unchanged), runs the checks against it,
and files it under /verif/seeded/<id>[-n]/.   usage: seedeval.py <ID> <out dir> <worktree> [checks...]"""
import json, os, re, shutil, subprocess, sys
ENV = dict(os.environ, GOFLAGS="-mod=mod", GOPROXY="off", GOSUMDB="off", GOTOOLCHAIN="local")


def sh(cmd, cwd=None, timeout=1800):
    r = subprocess.run(cmd, shell=True, cwd=cwd, env=ENV, capture_output=True, text=True, timeout=timeout)
    return r.returncode, r.stdout + r.stderr


def main_demo(wt, meta, outdir):
    """demo in package main (cmd/hidi): overlay build with the ALSA stub, binary run WITHOUT flags (init() calls flag.Parse()),
    selected by the environment variables named in meta['how_to_run_demo']"""
    ov = os.path.join(outdir, "seedeval_overlay.json")
    json.dump({"Replace": {os.path.join(wt, "internal/pkg/midi/driver/alsa/alsa.go"): "/verif/harness/go/alsa_stub/alsa.go"}}, open(ov, "w"))
    binp = os.path.join(outdir, "seedeval_main.test")
    rc, out = sh("go test -c -vet=off -overlay %s -o %s ./cmd/hidi" % (ov, binp), cwd=wt)
    if rc != 0:
        return rc, out
    m = re.search(r"((?:[A-Z_][A-Z0-9_]*=\S+\s+)+)\S*main\.test", meta.get("how_to_run_demo", ""))
    envs = m.group(1) if m else ""
    return sh("cd %s/cmd/hidi && %s %s" % (wt, envs, binp), timeout=600)


def go_tests(wt, run=None, pkg="./internal/..."):
    cmd = "go test -vet=off -count=1 %s %s" % (("-run '%s'" % run) if run else "-skip 'TestSeed|TestDemo'", pkg)
    rc, out = sh(cmd, cwd=wt)
    res = sorted(set(re.findall(r"^(ok|FAIL|---\s+FAIL:?)\s+(\S+)", out, re.M)))
    return rc, res, out


def main():
    pid, outdir, wt = sys.argv[1:4]
    checks = sys.argv[4:] or [pid]
    meta = json.load(open(os.path.join(outdir, "meta.json")))
    demo = os.path.join(outdir, "zz_seed_demo_test.go")
    # where does the demo live in the worktree?
    rc, found = sh("git ls-files --others --exclude-standard | grep zz_seed_demo_test.go", cwd=wt)
    demo_rel = found.strip().split("\n")[0]
    pkg = "./" + os.path.dirname(demo_rel)
    report = {"property": pid, "demo_package": pkg}
    in_main = demo_rel.startswith("cmd/hidi")
    if in_main:
        rc1, o1 = main_demo(wt, meta, outdir)
    else:
        rc1, _, o1 = go_tests(wt, run="TestSeed|TestDemo|Seed", pkg=pkg)
    report["demo_with_change"] = "FAIL" if rc1 != 0 else "PASS"
    # git stash is shared between worktrees of one repository: reverse-apply the delivered patch instead
    patch = os.path.abspath(os.path.join(outdir, "patch.diff"))
    rcr, outr = sh("git apply -R %s" % patch, cwd=wt)
    assert rcr == 0, "cannot reverse patch in worktree: " + outr
    if in_main:
        rc2, o2 = main_demo(wt, meta, outdir)
    else:
        rc2, _, o2 = go_tests(wt, run="TestSeed|TestDemo|Seed", pkg=pkg)
    report["demo_without_change"] = "FAIL" if rc2 != 0 else "PASS"
    _, base, _ = go_tests(wt)
    rca, outa = sh("git apply %s" % patch, cwd=wt)
    assert rca == 0, "cannot re-apply patch: " + outa
    _, withc, _ = go_tests(wt)
    report["existing_tests_same"] = (base == withc)
    report["existing_tests"] = [" ".join(x) for x in withc]
    # run our checks against the change.  Default: against the scratch worktree itself (VERIF_REPO), with evidence and replays
    # redirected (VERIF_SCRATCH_OUT), so that neither /repo nor /verif/evidence is disturbed while other runs are going on.
    # SEEDEVAL_INPLACE=1: git -C /repo apply; ./check; git -C /repo checkout -- .   (as the registered commands run)
    results = {}
    inplace = os.environ.get("SEEDEVAL_INPLACE") == "1"
    if inplace:
        rc, out = sh("git -C /repo status --short")
        assert not out.strip(), "/repo not clean: " + out
        rc, out = sh("git -C /repo apply %s" % os.path.join(outdir, "patch.diff"))
        assert rc == 0, "patch does not apply: " + out
        import tempfile
        keep = tempfile.mkdtemp(prefix="evid-", dir="/verif/.work")
        for f in os.listdir("/verif/evidence"):
            shutil.copy(os.path.join("/verif/evidence", f), keep)
        pre = ""
    else:
        aside = os.path.join(outdir, "demo_aside_test.go.txt")
        shutil.move(os.path.join(wt, demo_rel), aside)          # the demo must not be compiled into the harness binary
        scratch = os.path.join(outdir, "checkout")
        os.makedirs(scratch, exist_ok=True)
        pre = "VERIF_REPO=%s VERIF_SCRATCH_OUT=%s " % (wt, scratch)
    try:
        for c in checks:
            rc, out = sh(pre + "./check %s --tier quick" % c, cwd="/verif", timeout=3000)
            lines = [l for l in out.split("\n") if l.startswith("VIOLATION")]
            allv = out.split("\n")
            first = ""
            for i, l in enumerate(allv):
                if l.startswith("VIOLATION") and i + 1 < len(allv):
                    first = allv[i + 1][:300]
                    break
            results[c] = {"exit": rc, "violation_lines": len(lines), "first": first,
                          "no_failing_input_found": any(l.rstrip().endswith("no-failing-input-found") for l in lines)}
    finally:
        if inplace:
            sh("git -C /repo checkout -- .")
            for f in os.listdir(keep):
                shutil.copy(os.path.join(keep, f), "/verif/evidence")
            shutil.rmtree(keep, ignore_errors=True)
        else:
            shutil.move(aside, os.path.join(wt, demo_rel))
    report["checks"] = results
    report["detected_by"] = [c for c, r in results.items() if r["exit"] != 0]
    n = 0
    dest = os.path.join("/verif/seeded", pid)
    while os.path.exists(dest):
        n += 1
        dest = os.path.join("/verif/seeded", "%s-%d" % (pid, n))
    os.makedirs(dest)
    shutil.copy(os.path.join(outdir, "patch.diff"), dest)
    shutil.copy(demo, dest)
    meta["confirmation"] = report
    meta["what_was_run"] = ["go test (demo) with and without the change in a scratch worktree", "existing tests with and without the change",
                            ("git -C /repo apply patch.diff; ./check <id> --tier quick; git -C /repo checkout -- ." if inplace else
                             "VERIF_REPO=<scratch worktree with the change> ./check <id> --tier quick (evidence/replays redirected)")]
    json.dump(meta, open(os.path.join(dest, "meta.json"), "w"), indent=1)
    print(json.dumps(report, indent=1))


if __name__ == "__main__":
    main()
