"""Shared by C10 and C09: structured descriptions of device configurations, an own TOML printer with per-field overrides,
single-field invalidations, and emitters of Coq literals (toml_cfg / pconfig / tables) for Run/ParserRun.v.

A *description* is a dict with exactly the shape of the decoded TOMLDeviceConfig that the Go harness dumps
(harness/go/config/verif_parser_test.go: prsTConfig), strings as python bytes:
  {cmode, exit:[..], ident:[4], uniq, octave, semitone, channel, defmap, velocity, actions:[(k,v)], rgb:[7],
   mappings:[{name, keys:[{sub, map:[(k,v)]}], analog:[{sub, defdz(bits), map:[(k,axis)], dz:[(k,bits)]}]}]}
  axis = {type, cc, ccneg, note, noteneg (int or None), off, offneg, act, actneg (bytes or None), flip, dzc}
"""
import math, struct
from common import clist, cN, cZ, cbool

ACTIONS = {"mapping_up": "MappingUp", "mapping_down": "MappingDown", "mapping": "AMapping", "octave_up": "OctaveUp",
           "octave_down": "OctaveDown", "semitone_up": "SemitoneUp", "semitone_down": "SemitoneDown",
           "channel_up": "ChannelUp", "channel_down": "ChannelDown", "channel": "AChannel", "multinote": "Multinote",
           "panic": "Panic", "cc_learning": "Learning", "exit": "Exit"}
TYPES = {"cc": "ACC", "pitch_bend": "APitchBend", "key": "AKeySim", "action": "AActionSim"}
CMODES = {"off": "COff", "no_repeat": "CNoRepeat", "interrupt": "CInterrupt", "retrigger": "CRetrigger"}
RGB_FIELDS = ["white", "black", "c", "unavailable", "other", "active", "active_external"]
NOTE_LETTERS = ["C", "C#", "D", "D#", "E", "F", "F#", "G", "G#", "A", "A#", "B"]


def f2b(x):
    return struct.unpack("<Q", struct.pack("<d", x))[0]


def b2f(b):
    return struct.unpack("<d", struct.pack("<Q", b))[0]


def note_name(n, rng):
    s = NOTE_LETTERS[n % 12] + str(n // 12 - 2)
    if rng.random() < 0.4:
        s = s.lower()
    return s


# ----------------------------------------------------------------------------- generator of valid descriptions

# every event name the kernel headers of this machine know (KEY_*, BTN_*, ABS_*, REL_*, SW_*, MSC_*, LED_* ...), plus a built-in list of
# names newer than the evdev library's snapshot in case the header is absent: a name that is not in the table of ITS section must be rejected
# whatever other table knows it
KERNEL_NAMES = ["KEY_LINK_PHONE", "KEY_REFRESH_RATE_TOGGLE", "KEY_NEXT_ELEMENT", "KEY_PREVIOUS_ELEMENT", "KEY_AUTOPILOT_ENGAGE_TOGGLE",
                "KEY_MARK_WAYPOINT", "KEY_SOS", "KEY_NAV_CHART", "KEY_FISHING_CHART", "KEY_SINGLE_RANGE_RADAR", "KEY_DUAL_RANGE_RADAR",
                "KEY_RADAR_OVERLAY", "KEY_TRADITIONAL_SONAR", "KEY_CLEARVU_SONAR", "KEY_SIDEVU_SONAR", "KEY_NAV_INFO", "KEY_BRIGHTNESS_MENU",
                "ABS_PROFILE", "KEY_MACRO1", "KEY_DICTATE", "KEY_CAMERA_ACCESS_ENABLE", "REL_WHEEL_HI_RES", "SW_MACHINE_COVER", "MSC_SCAN", "LED_CAPSL"]
try:
    import re as _re
    for _m in _re.finditer(r"^#define\s+((?:KEY|BTN|ABS|REL|SW|MSC|LED|SND|REP)_[A-Z0-9_]+)\s", open("/usr/include/linux/input-event-codes.h").read(), _re.M):
        if _m.group(1) not in KERNEL_NAMES:
            KERNEL_NAMES.append(_m.group(1))
except OSError:
    pass
FOREIGN_KEY_NAMES, FOREIGN_ABS_NAMES = [], []      # kernel names absent from the key / axis table of the implementation (filled by Gen)


class Gen:
    def __init__(self, rng, tables):
        self.rng = rng
        self.keys = [(bytes(e["name"]), e["code"]) for e in tables["keys"]]
        self.abs = [(bytes(e["name"]), e["code"]) for e in tables["abs"]]
        kn, an = {n for n, _ in self.keys}, {n for n, _ in self.abs}
        FOREIGN_KEY_NAMES[:] = [n.encode() for n in KERNEL_NAMES if n.encode() not in kn]
        FOREIGN_ABS_NAMES[:] = [n.encode() for n in KERNEL_NAMES if n.encode() not in an]

    def hexname(self, code):
        r = self.rng
        fmt = r.choice(["x%x", "x%X", "x%02x", "x%04x", "x%03X", "x%06x"])
        return (fmt % code).encode()

    def evnames(self, table, n, maxcode=0x2ff):
        """n names (by name or hex) denoting pairwise distinct codes"""
        r, out, used = self.rng, [], set()
        tries = 0
        while len(out) < n and tries < 10 * n + 20:
            tries += 1
            if r.random() < 0.6:
                name, code = r.choice(table)
            else:
                code = r.randrange(0, maxcode + 1) if r.random() < 0.9 else r.randrange(0, 65536)
                name = self.hexname(code)
            if code in used:
                continue
            used.add(code)
            out.append(name)
        return out

    def note_text(self):
        r = self.rng
        n = r.randrange(128)
        k = r.random()
        if k < 0.5:
            s = str(n)
        elif k < 0.55:
            s = "+" + str(n)
        elif k < 0.6:
            s = "0" * r.randrange(1, 3) + str(n)
        else:
            s = note_name(n, r)
        if r.random() < 0.45:
            o = r.randrange(16)
            s += "," + (str(o) if r.random() < 0.9 else r.choice(["+", "0", "00"]) + str(o))
        return s.encode()

    def deadzone(self):
        r = self.rng
        k = r.random()
        if k < 0.3:
            return f2b(0.0)
        if k < 0.8:
            return f2b(round(r.random(), r.randrange(1, 4)))
        if k < 0.9:
            return f2b(r.uniform(-2, 2))
        return f2b(r.choice([1e-7, 1e22, 0.1 + 0.2, -0.0, 5e-324, 1.7976931348623157e308, float("inf"), float("-inf")]))

    def axis(self):
        r = self.rng
        ty = r.choice(["cc", "pitch_bend", "key", "action"])
        opt = lambda v: v if r.random() < 0.5 else None
        a = dict(type=ty.encode(), cc=None, ccneg=None, note=None, noteneg=None, off=0, offneg=0, act=None, actneg=None,
                 flip=r.random() < 0.4, dzc=r.random() < 0.3)
        if ty == "cc":
            a["cc"] = r.randrange(120)
            a["ccneg"] = opt(r.randrange(120))
            a["off"] = r.choice([0, r.randrange(16)])
            a["offneg"] = r.choice([0, r.randrange(16)])
        elif ty == "pitch_bend":
            a["off"] = r.choice([0, r.randrange(16)])
        elif ty == "key":
            a["note"] = r.randrange(128)
            a["noteneg"] = opt(r.randrange(128))
            a["off"] = r.choice([0, r.randrange(16)])
            a["offneg"] = r.choice([0, r.randrange(16)])
        else:
            a["act"] = r.choice(list(ACTIONS)).encode()
            a["actneg"] = opt(r.choice(list(ACTIONS)).encode())
        # fields the mapping type does not use may be present with any value (they are ignored)
        if r.random() < 0.15:
            if ty != "cc":
                a["cc"] = r.choice([5, 300, -1])
            if ty != "key":
                a["note"] = r.choice([60, 999])
            if ty == "action":
                a["off"] = r.choice([3, 99])
            if ty in ("action", "pitch_bend"):
                a["offneg"] = r.choice([4, 77])
            if ty != "action":
                a["act"] = r.choice([b"panic", b"whatever"])
        return a

    def description(self, size=None):
        r = self.rng
        big = size if size is not None else r.random()
        nmap = r.choice([1, 1, 2, 3, 4]) if big > 0.2 else 1
        subs = [b"", b"Touchpad", b"Motion Sensors", b"kbd", "ü-sub".encode()]
        names = []
        for i in range(nmap):
            if names and r.random() < 0.2:
                names.append(r.choice(names))       # duplicate mapping name: the last one is the default
            else:
                names.append(r.choice([b"Default", b"Piano", b"a", b"", b"Chromatic \"2\"", "Акк".encode(), b"m%d" % i]))
        mappings = []
        for name in names:
            keys = []
            for _ in range(r.choice([0, 1, 1, 2, 3])):
                n = r.choice([0, 0, 1, 2, 5, 12]) if big > 0.3 else r.choice([0, 1, 3])
                keys.append(dict(sub=r.choice(subs), map=[(k, self.note_text()) for k in self.evnames(self.keys, n)]))
            analog = []
            for _ in range(r.choice([0, 1, 1, 2])):
                n = r.choice([0, 1, 2, 4, 6])
                axes = self.evnames(self.abs, n, maxcode=0x3f)
                dzn = self.evnames(self.abs, r.choice([0, 0, 1, 3]), maxcode=0x3f)
                analog.append(dict(sub=r.choice(subs), defdz=self.deadzone(), map=[(k, self.axis()) for k in axes],
                                   dz=[(k, self.deadzone()) for k in dzn]))
            mappings.append(dict(name=name, keys=keys, analog=analog))
        rgb = []
        for _ in range(7):
            k = r.random()
            rgb.append(0 if k < 0.3 else r.randrange(1 << 24) if k < 0.9 else r.choice([-1, 1 << 24, (1 << 32) + 0x123456, -(1 << 40) + 7]))
        acts = [(k, r.choice(list(ACTIONS)).encode()) for k in self.evnames(self.keys, r.choice([0, 0, 1, 3, 6]))]
        return dict(
            cmode=r.choice(list(CMODES)).encode(),
            exit=self.evnames(self.keys, r.choice([0, 0, 1, 2, 3])),
            ident=[r.choice([0, r.randrange(65536)]) for _ in range(4)],
            uniq=r.choice([b"", b"aa:bb:cc", "ünïq".encode(), b"a\"b\\c"]),
            octave=r.choice([0, 0, r.randrange(-5, 6), r.choice([-129, 300, 1 << 40])]),
            semitone=r.choice([0, 0, r.randrange(-12, 13), -1000]),
            channel=r.randrange(1, 17),
            defmap=r.choice(names),
            velocity=r.choice([0, 0, 64, r.randrange(0, 128)]),
            actions=acts, rgb=rgb, mappings=mappings)


# ----------------------------------------------------------------------------- TOML printer

def toml_str(b, rng=None):
    s = b.decode("utf-8")
    plain = all(0x20 <= ord(c) != 0x7f for c in s)
    if rng is not None and plain and "'" not in s and rng.random() < 0.3:
        return "'" + s + "'"
    out = []
    for c in s:
        o = ord(c)
        if c == '"':
            out.append('\\"')
        elif c == "\\":
            out.append("\\\\")
        elif o < 0x20 or o == 0x7f:
            out.append("\\u%04x" % o)
        else:
            out.append(c)
    return '"' + "".join(out) + '"'


def toml_key(b):
    s = b.decode("utf-8")
    if s and all(c.isascii() and (c.isalnum() or c in "_-") for c in s):
        return s
    return toml_str(b)


def toml_int(v, rng=None):
    if rng is not None and v >= 0:
        k = rng.random()
        if k < 0.15:
            return "0x%x" % v
        if k < 0.2:
            return "0o%o" % v
        if k < 0.25:
            return "0b%s" % bin(v)[2:]
        if k < 0.3 and v >= 1000:
            s = str(v)
            return s[:-3] + "_" + s[-3:]
        if k < 0.35:
            return "+%d" % v
    return str(v)


def toml_float(bits):
    x = b2f(bits)
    if math.isnan(x):
        return "nan"
    if math.isinf(x):
        return "inf" if x > 0 else "-inf"
    s = repr(x)
    if "." not in s and "e" not in s and "E" not in s:
        s += ".0"
    if "e" in s and "." not in s.split("e")[0]:
        m, e = s.split("e")
        s = m + ".0e" + e
    return s


def toml_bool(b):
    return "true" if b else "false"


DELETE = ("@delete",)
DUP = ("@dup",)


class Printer:
    """Prints a description.  [over] maps a field path (tuple) to replacement text for the VALUE, DELETE (omit the line)
    or DUP (print the line twice); [extra] maps a table path to extra 'key = value' lines (unknown fields);
    [rng] varies the surface syntax (inline tables vs sub-tables, omitted zero fields, number bases, quoting)."""

    def __init__(self, rng=None, over=None, extra=None, omit_zero=True):
        self.rng, self.over, self.extra, self.omit_zero = rng, over or {}, extra or {}, omit_zero
        self.lines = []

    def coin(self, p=0.5):
        return self.rng is not None and self.rng.random() < p

    def field(self, path, key, text, zero=False):
        """one 'key = value' line; zero=True: the value is the Go zero value, so the line may be omitted"""
        o = self.over.get(path)
        if o is DELETE:
            return
        if o is None and zero and self.omit_zero and self.coin(0.5):
            return
        if o is not None and o is not DUP:
            text = o
        if self.coin(0.04) and key.replace("_", "").isalnum():
            # a known field under another spelling of the same key (TOML: bare, literal-quoted and basic-quoted keys are the same key)
            key = self.rng.choice(["'%s'" % key, '"%s"' % key, '"%s"' % key.replace("_", "\\u005f", 1), '"\\u%04x%s"' % (ord(key[0]), key[1:])])
        line = "%s = %s" % (key, text)
        self.lines.append(line)
        if o is DUP:
            self.lines.append(line)

    def header(self, path, text):
        o = self.over.get(path + ("@header",))
        if o is DELETE:
            return
        self.lines.append(o if isinstance(o, str) else text)
        if o is DUP:
            self.lines.append(text)

    def extras(self, path):
        for l in self.extra.get(path, []):
            self.lines.append(l)

    def axis_fields(self, path, a):
        """list of (key, text) of one axis entry, honouring overrides"""
        out = []

        def f(name, text, zero=False):
            o = self.over.get(path + (name,))
            if o is DELETE:
                return
            if o is None and zero and self.omit_zero and self.coin(0.5):
                return
            out.append((name, text if (o is None or o is DUP) else o))
            if o is DUP:
                out.append((name, text))
        r = self.rng
        f("type", toml_str(a["type"], r))
        for name, k in (("cc", "cc"), ("cc_negative", "ccneg"), ("note", "note"), ("note_negative", "noteneg")):
            if a[k] is not None:
                f(name, toml_int(a[k], r))
            elif path + (name,) in self.over and self.over[path + (name,)] not in (DELETE, DUP):
                f(name, "0")
        f("channel_offset", toml_int(a["off"], r), zero=(a["off"] == 0))
        f("channel_offset_negative", toml_int(a["offneg"], r), zero=(a["offneg"] == 0))
        for name, k in (("action", "act"), ("action_negative", "actneg")):
            if a[k] is not None:
                f(name, toml_str(a[k], r))
            elif path + (name,) in self.over and self.over[path + (name,)] not in (DELETE, DUP):
                f(name, '""')
        f("flip_axis", toml_bool(a["flip"]), zero=not a["flip"])
        f("deadzone_at_center", toml_bool(a["dzc"]), zero=not a["dzc"])
        for l in self.extra.get(path, []):
            k, v = l.split(" = ", 1)
            out.append((k, v))
        if r is not None:
            r.shuffle(out)
        return out

    def text(self, d):
        r = self.rng
        L = self.lines
        self.field(("cmode",), "collision_mode", toml_str(d["cmode"], r), zero=(d["cmode"] == b""))
        els = []
        for i, k in enumerate(d["exit"]):
            o = self.over.get(("exit", i))
            if o is DELETE:
                continue
            els.append(o if isinstance(o, str) else toml_str(k, r))
            if o is DUP:
                els.append(toml_str(k, r))
        ex = "[" + ", ".join(els) + "]"
        self.field(("exit",), "exit_sequence", ex, zero=(d["exit"] == []))
        self.extras(())
        sections = ["identifier", "defaults", "action_mapping", "open_rgb", "mapping"]
        if r is not None and r.random() < 0.5:
            r.shuffle(sections)
        for sec in sections:
            if sec == "identifier":
                self.header(("ident",), "[identifier]")
                for i, n in enumerate(["bus", "vendor", "product", "version"]):
                    self.field(("ident", n), n, toml_int(d["ident"][i], r) if not self.coin(0.5) else "0x%04x" % d["ident"][i],
                               zero=(d["ident"][i] == 0))
                self.field(("ident", "uniq"), "uniq", toml_str(d["uniq"], r), zero=(d["uniq"] == b""))
                self.extras(("ident",))
            elif sec == "defaults":
                self.header(("defaults",), "[defaults]")
                for n in ["octave", "semitone", "channel"]:
                    self.field(("defaults", n), n, toml_int(d[n], r), zero=(d[n] == 0))
                self.field(("defaults", "mapping"), "mapping", toml_str(d["defmap"], r), zero=(d["defmap"] == b""))
                self.field(("defaults", "velocity"), "velocity", toml_int(d["velocity"], r), zero=(d["velocity"] == 0))
                self.extras(("defaults",))
            elif sec == "action_mapping":
                if d["actions"] or not self.coin(0.5) or ("actions",) in self.extra:
                    self.header(("actions",), "[action_mapping]")
                    for k, v in d["actions"]:
                        self.field(("actions", k), toml_key(self.over.get(("actions", k, "@key"), k)), toml_str(v, r))
                    self.extras(("actions",))
            elif sec == "open_rgb":
                if any(d["rgb"]) or not self.coin(0.5) or ("rgb",) in self.extra or any(p[0] == "rgb" for p in self.over):
                    self.header(("rgb",), "[open_rgb]")
                    for i, n in enumerate(RGB_FIELDS):
                        v = d["rgb"][i]
                        self.field(("rgb", n), n, ("0x%06x" % v) if (0 <= v and self.coin(0.6)) else toml_int(v, r), zero=(v == 0))
                    self.extras(("rgb",))
            else:
                for mi, m in enumerate(d["mappings"]):
                    self.header(("mapping", mi), "[[mapping]]")
                    self.field(("mapping", mi, "name"), "name", toml_str(m["name"], r), zero=(m["name"] == b""))
                    self.extras(("mapping", mi))
                    for ki, ks in enumerate(m["keys"]):
                        p = ("mapping", mi, "keys", ki)
                        self.header(p, "[[mapping.keys]]")
                        self.field(p + ("sub",), "subhandler", toml_str(ks["sub"], r), zero=(ks["sub"] == b""))
                        self.extras(p)
                        if ks["map"] or not self.coin(0.5) or p + ("map", "@header") in self.over:
                            self.header(p + ("map",), "[mapping.keys.map]")
                            for k, v in ks["map"]:
                                self.field(p + ("map", k), toml_key(self.over.get(p + ("map", k, "@key"), k)), toml_str(v, r))
                    for ai, an in enumerate(m["analog"]):
                        p = ("mapping", mi, "analog", ai)
                        self.header(p, "[[mapping.analog]]")
                        self.field(p + ("sub",), "subhandler", toml_str(an["sub"], r), zero=(an["sub"] == b""))
                        self.field(p + ("defdz",), "default_deadzone", toml_float(an["defdz"]), zero=(an["defdz"] == 0))
                        self.extras(p)
                        inline, tables = [], []
                        for k, a in an["map"]:
                            replaced = isinstance(self.over.get(p + ("map", k)), str)
                            (inline if (replaced or not self.coin(0.3)) else tables).append((k, a))
                        blocks = ["map", "dz"]
                        if self.coin(0.5):
                            blocks.reverse()
                        for b in blocks:
                            if b == "map":
                                if an["map"] or not self.coin(0.5) or p + ("map", "@header") in self.over:
                                    if inline or not tables or p + ("map", "@header") in self.over:
                                        self.header(p + ("map",), "[mapping.analog.map]")
                                    for k, a in inline:
                                        kk = toml_key(self.over.get(p + ("map", k, "@key"), k))
                                        o = self.over.get(p + ("map", k))
                                        if o is DELETE:
                                            continue
                                        if isinstance(o, str):
                                            L.append("%s = %s" % (kk, o))
                                            continue
                                        fs = self.axis_fields(p + ("map", k), a)
                                        line = "%s = { %s }" % (kk, ", ".join("%s = %s" % kv for kv in fs))
                                        L.append(line)
                                        if o is DUP:
                                            L.append(line)
                                    for k, a in tables:
                                        kk = toml_key(self.over.get(p + ("map", k, "@key"), k))
                                        o = self.over.get(p + ("map", k))
                                        if o is DELETE:
                                            continue
                                        L.append("[mapping.analog.map.%s]" % kk)
                                        for kv in self.axis_fields(p + ("map", k), a):
                                            L.append("%s = %s" % kv)
                                        if o is DUP:
                                            L.append("[mapping.analog.map.%s]" % kk)
                            else:
                                if an["dz"] or not self.coin(0.5) or p + ("dz", "@header") in self.over:
                                    self.header(p + ("dz",), "[mapping.analog.deadzones]")
                                    for k, v in an["dz"]:
                                        self.field(p + ("dz", k), toml_key(self.over.get(p + ("dz", k, "@key"), k)), toml_float(v))
        return ("\n".join(l for l in L if l is not None) + "\n").encode("utf-8")


def print_toml(d, rng=None, over=None, extra=None, omit_zero=True):
    return Printer(rng, over, extra, omit_zero).text(d)


# ----------------------------------------------------------------------------- single-field invalidations

def clone(d):
    import copy
    return copy.deepcopy(d)


def invalidations(d, rng):
    """list of (kind, mutated description or None, printer overrides or None, extra or None): each makes exactly one field
    invalid (one random site per kind).  Kinds whose site does not exist in [d] are skipped."""
    r = rng
    out = []
    keysites = [(mi, ki, ei) for mi, m in enumerate(d["mappings"]) for ki, ks in enumerate(m["keys"]) for ei in range(len(ks["map"]))]
    axsites = [(mi, ai, ei) for mi, m in enumerate(d["mappings"]) for ai, a in enumerate(m["analog"]) for ei in range(len(a["map"]))]
    dzsites = [(mi, ai, ei) for mi, m in enumerate(d["mappings"]) for ai, a in enumerate(m["analog"]) for ei in range(len(a["dz"]))]

    def mut(kind, f):
        m = clone(d)
        f(m)
        out.append((kind, m, None, None))

    BADKEYS = [b"KEY_BOGUS", b"key_a", b"x", b"xZZ", b"x10000", b"x+1", b"x1_0", b"x-1", b"x 1", b"X1e", b"", b"ABS_X", b"xfffff"]
    BADABS = [b"ABS_BOGUS", b"abs_x", b"x", b"xg", b"x10000", b"KEY_A", b"", b"x+3"]
    if keysites:
        def setkey(m, site, fk=None, fv=None):
            mi, ki, ei = site
            k, v = m["mappings"][mi]["keys"][ki]["map"][ei]
            m["mappings"][mi]["keys"][ki]["map"][ei] = (fk(k) if fk else k, fv(v) if fv else v)
        for kind, vals in [
            ("key-name-unknown", None),
            ("key-note-name", [b"H1", b"E#1", b"B#2", b"C9", b"C-3", b"", b"c", b"C#", b"60.0", b"0x3c", b" 60", b"6_0", b"G#8", b"9223372036854775808",
                               # octaves of more than one digit (the 8-bit note arithmetic wraps: bands of them would land inside 0..127)
                               b"e19", b"c20", b"a29", b"c40", b"c-14", b"d#-13", b"g#-24", b"c-35", b"c03", b"c00", b"c-00", b"c10", b"c-10", b"f#127", b"c256"]),
            ("key-note-range", [b"128", b"-1", b"1000", b"-0128", b"9223372036854775807"]),
            ("key-offset-range", [b"60,16", b"C3,-1", b"0,255", b"60,9223372036854775807"]),
            ("key-offset-text", [b"60,a", b"60,", b"C3, 1", b"60,1.0", b"60,0x1", b"60,99999999999999999999"]),
            ("key-field-count", [b"60,1,2", b"60,,", b",,", b"C3,1,"]),
        ]:
            site = r.choice(keysites)
            if vals is None:
                bad = r.choice(BADKEYS) if (r.random() < 0.5 or not FOREIGN_KEY_NAMES) else r.choice(FOREIGN_KEY_NAMES)
                mut(kind, lambda m: setkey(m, site, fk=lambda k: bad))
            else:
                bad = r.choice(vals)
                mut(kind, lambda m: setkey(m, site, fv=lambda v: bad))
    if axsites:
        def ax(m, site):
            mi, ai, ei = site
            return m["mappings"][mi]["analog"][ai]["map"][ei][1]

        def setaxname(m, site, name):
            mi, ai, ei = site
            k, a = m["mappings"][mi]["analog"][ai]["map"][ei]
            m["mappings"][mi]["analog"][ai]["map"][ei] = (name, a)
        site = r.choice(axsites)
        bad = r.choice(BADABS) if (r.random() < 0.5 or not FOREIGN_ABS_NAMES) else r.choice(FOREIGN_ABS_NAMES)
        mut("axis-name-unknown", lambda m: setaxname(m, site, bad))
        site = r.choice(axsites)
        bad = r.choice([b"", b"CC", b"slider", b"cc ", b"keys", b"pitchbend", b"Key"])
        mut("axis-type-unsupported", lambda m: ax(m, site).update(type=bad))
        bytype = lambda ty: [s for s in axsites if d["mappings"][s[0]]["analog"][s[1]]["map"][s[2]][1]["type"] == ty]
        OFFS = [16, -1, 256, 300, 255, -256, 1 << 40]
        for ty, fields in [(b"cc", [("cc", "absent"), ("cc", [120, -1, 128, 256, 261, 1 << 33]), ("ccneg", [120, -1, 300]),
                                    ("off", OFFS), ("offneg", OFFS)]),
                           (b"pitch_bend", [("off", OFFS)]),
                           (b"key", [("note", "absent"), ("note", [128, -1, 256, 316]), ("noteneg", [128, -1, 256]),
                                     ("off", OFFS), ("offneg", OFFS)]),
                           (b"action", [("act", "absent"), ("act", [b"", b"bogus", b"Panic", b"octave_up ", b"mapping_left"]),
                                        ("actneg", [b"", b"bogus", b"EXIT", b"cc"])])]:
            sites = bytype(ty)
            if not sites:
                continue
            for fld, vals in fields:
                site = r.choice(sites)
                if vals == "absent":
                    mut("axis-%s-%s-absent" % (ty.decode(), fld), lambda m: ax(m, site).update({fld: None}))
                else:
                    bad = r.choice(vals)
                    mut("axis-%s-%s-invalid" % (ty.decode(), fld), lambda m: ax(m, site).update({fld: bad}))
    if dzsites:
        site = r.choice(dzsites)
        bad = r.choice(BADABS) if (r.random() < 0.5 or not FOREIGN_ABS_NAMES) else r.choice(FOREIGN_ABS_NAMES)

        def setdz(m):
            mi, ai, ei = site
            k, v = m["mappings"][mi]["analog"][ai]["dz"][ei]
            m["mappings"][mi]["analog"][ai]["dz"][ei] = (bad, v)
        mut("deadzone-name-unknown", setdz)
    if d["actions"]:
        i = r.randrange(len(d["actions"]))
        bad = r.choice(BADKEYS) if (r.random() < 0.5 or not FOREIGN_KEY_NAMES) else r.choice(FOREIGN_KEY_NAMES)
        mut("action-key-unknown", lambda m: m["actions"].__setitem__(i, (bad, m["actions"][i][1])))
        i2 = r.randrange(len(d["actions"]))
        bada = r.choice([b"", b"bogus", b"Panic", b"octave", b"exit "])
        mut("action-unsupported", lambda m: m["actions"].__setitem__(i2, (m["actions"][i2][0], bada)))
    else:
        bada = r.choice([b"", b"bogus", b"Panic"])
        mut("action-unsupported", lambda m: m["actions"].append((b"KEY_A", bada)))
    badc = r.choice([b"", b"Off", b"foo", b"norepeat", b"no-repeat", b"off "])
    mut("collision-mode-unsupported", lambda m: m.update(cmode=badc))
    names = {m["name"] for m in d["mappings"]}
    badn = r.choice([n for n in [b"", b"nope", b"default", b"Default ", b"DEFAULT"] if n not in names])
    mut("default-mapping-missing", lambda m: m.update(defmap=badn))
    bade = r.choice(BADKEYS) if (r.random() < 0.5 or not FOREIGN_KEY_NAMES) else r.choice(FOREIGN_KEY_NAMES)
    mut("exit-key-unknown", lambda m: m["exit"].insert(r.randrange(len(m["exit"]) + 1), bade))
    badv = r.choice([-1, 128, 255, 1000, -64])
    mut("velocity-range", lambda m: m.update(velocity=badv))
    badch = r.choice([0, 17, -1, 255, 256, 1 << 32])
    mut("default-channel-range", lambda m: m.update(channel=badch))
    mut("no-mappings", lambda m: m.update(mappings=[], defmap=b""))
    # unknown fields at every nesting level (the decoder's DisallowUnknownFields)
    levels = [(), ("ident",), ("defaults",), ("rgb",)]
    if d["mappings"]:
        mi = r.randrange(len(d["mappings"]))
        levels.append(("mapping", mi))
        m = d["mappings"][mi]
        if m["keys"]:
            levels.append(("mapping", mi, "keys", r.randrange(len(m["keys"]))))
        if m["analog"]:
            ai = r.randrange(len(m["analog"]))
            levels.append(("mapping", mi, "analog", ai))
            if m["analog"][ai]["map"]:
                k = r.choice(m["analog"][ai]["map"])[0]
                levels.append(("mapping", mi, "analog", ai, "map", k))
    for lv in levels:
        line = r.choice(["bogus = 1", "colour = \"red\"", "nam = \"x\"", "channel_offset_neg = 1", "typ = \"cc\"", "velocity2 = 3",
                         # the same in every spelling TOML has for a key: literal-quoted, basic-quoted, with escape sequences, empty, dotted
                         "'bogus' = 1", "\"bogus\" = 1", "\"note\\tbook\" = 1", "\"colou\\u0072\" = 1", "\"b\\\\s\" = 1", "\"\\U0001F3B9\" = 1",
                         "\"\" = 1", "'' = 1", "bogus.sub = 1", "\"bo gus\".\"s\\tb\" = 1", "\"\\u0062ogus\" = {a = 1}", "\"q\\\"uote\" = 1"])
        nm = "unknown-field@" + "/".join(str(x) if not isinstance(x, bytes) else "axis" for x in lv if not isinstance(x, int))
        out.append((nm or "unknown-field@top", None, None, {lv: [line]}))
    return out


# ----------------------------------------------------------------------------- Coq literals

def cstr(b):
    return clist([str(x) for x in b])


def copt_z(v):
    return "None" if v is None else "(SZ %s)" % cZ(v)


def copt_s(v):
    return "None" if v is None else "(SS %s)" % cstr(v)


def caxis(a):
    return "(AX %s %s %s %s %s %s %s %s %s %s %s)" % (
        cstr(a["type"]), copt_z(a["cc"]), copt_z(a["ccneg"]), copt_z(a["note"]), copt_z(a["noteneg"]), cZ(a["off"]),
        cZ(a["offneg"]), copt_s(a["act"]), copt_s(a["actneg"]), cbool(a["flip"]), cbool(a["dzc"]))


def ctoml(d):
    ms = []
    for m in d["mappings"]:
        ks = clist(["(KS %s %s)" % (cstr(k["sub"]), clist(["(%s, %s)" % (cstr(a), cstr(b)) for a, b in k["map"]])) for k in m["keys"]])
        an = clist(["(AS %s %s %s %s)" % (cstr(a["sub"]), cN(a["defdz"]),
                                          clist(["(%s, %s)" % (cstr(k), caxis(x)) for k, x in a["map"]]),
                                          clist(["(%s, %s)" % (cstr(k), cN(v)) for k, v in a["dz"]])) for a in m["analog"]])
        ms.append("(TM %s %s %s)" % (cstr(m["name"]), ks, an))
    return "(TC %s %s %s %s %s %s %s %s %s %s %s %s %s %s%%Z %s)" % (
        cstr(d["cmode"]), clist([cstr(k) for k in d["exit"]]), cN(d["ident"][0]), cN(d["ident"][1]), cN(d["ident"][2]),
        cN(d["ident"][3]), cstr(d["uniq"]), cZ(d["octave"]), cZ(d["semitone"]), cZ(d["channel"]), cstr(d["defmap"]),
        cZ(d["velocity"]), clist(["(%s, %s)" % (cstr(a), cstr(b)) for a, b in d["actions"]]),
        clist([cZ(v) for v in d["rgb"]]), clist(ms))


def from_go_dec(j):
    """the harness' dump of the decoded TOMLDeviceConfig -> description (bytes for strings)"""
    B = lambda x: bytes(x)
    ms = []
    for m in j["mappings"]:
        keys = [dict(sub=B(k["sub"]), map=[(B(e["k"]), B(e["v"])) for e in k["map"]]) for k in m["keys"]]
        analog = []
        for a in m["analog"]:
            amap = []
            for e in a["map"]:
                v = e["v"]
                amap.append((B(e["k"]), dict(type=B(v["type"]), cc=v["cc"], ccneg=v["ccneg"], note=v["note"], noteneg=v["noteneg"],
                                             off=v["off"], offneg=v["offneg"], act=None if v["act"] is None else B(v["act"]),
                                             actneg=None if v["actneg"] is None else B(v["actneg"]), flip=v["flip"], dzc=v["dzc"])))
            analog.append(dict(sub=B(a["sub"]), defdz=a["defdz"], map=amap, dz=[(B(e["k"]), e["v"]) for e in a["dz"]]))
        ms.append(dict(name=B(m["name"]), keys=keys, analog=analog))
    return dict(cmode=B(j["cmode"]), exit=[B(x) for x in j["exit"]], ident=list(j["ident"]), uniq=B(j["uniq"]),
                octave=j["octave"], semitone=j["semitone"], channel=j["channel"], defmap=B(j["defmap"]), velocity=j["velocity"],
                actions=[(B(e["k"]), B(e["v"])) for e in j["actions"]], rgb=list(j["rgb"]), mappings=ms)


def normalize(d):
    """maps sorted by key (the Go dump is sorted; the description is in generation order)"""
    d = clone(d)
    d["actions"] = sorted(d["actions"])
    for m in d["mappings"]:
        for k in m["keys"]:
            k["map"] = sorted(k["map"])
        for a in m["analog"]:
            a["map"] = sorted(a["map"], key=lambda kv: kv[0])
            a["dz"] = sorted(a["dz"])
    return d


def cpconfig(c):
    """canonical Config JSON of the harness -> pconfig literal, or (None, reason) when it cannot be expressed"""
    def act(s):
        return ACTIONS.get(s, "ANone")
    if c["cmode"] not in CMODES:
        return None, "collision mode %r of the returned Config is not a supported one" % c["cmode"]
    if c["defaults"][3] < 0:
        return None, "default mapping index %d is negative" % c["defaults"][3]
    ms = []
    for m in c["mappings"]:
        midi = clist(["(%s, %s)" % (cstr(s["sub"]), clist(["(%d, KY %d %d)" % (e["code"], e["note"], e["off"]) for e in s["map"]]))
                      for s in m["midi"]])
        an = clist(["(%s, %s)" % (cstr(s["sub"]), clist(["(%d, AN %s %d %d %d %d %d %d %s %s %s %s %s)" % (
            e["code"], TYPES.get(e["type"], "AUnknown"), e["cc"], e["ccneg"], e["note"], e["noteneg"], e["off"], e["offneg"],
            act(e["act"]), act(e["actneg"]), cbool(e["flip"]), cbool(e["bidi"]), cbool(e["dzc"])) for e in s["map"]]))
            for s in m["analog"]])
        dz = clist(["(%s, %s)" % (cstr(s["sub"]), clist(["(%d, %d)" % (e["code"], e["bits"]) for e in s["map"]])) for s in m["dz"]])
        dd = clist(["(%s, %d)" % (cstr(s["sub"]), s["bits"]) for s in m["defdz"]])
        ms.append("(PM %s %s %s %s %s)" % (cstr(m["name"]), midi, an, dz, dd))
    df = c["defaults"]
    return "(PC %d %d %d %d %s %s %s %s %s %s %s %s %d%%nat %s %s)" % (
        c["id"][0], c["id"][1], c["id"][2], c["id"][3], cstr(c["uniq"]), clist(ms),
        clist(["(%d, %s)" % (e["code"], act(e["act"])) for e in c["actions"]]), clist([str(x) for x in c["exit"]]),
        CMODES[c["cmode"]], cZ(df[0]), cZ(df[1]), cZ(df[2]), df[3], cZ(df[4]),
        clist(["(%d, %d, %d)" % tuple(x) for x in c["colors"]])), None


def ctables(t):
    f = lambda l: clist(["(%s, %d)" % (cstr(e["name"]), e["code"]) for e in l])
    return "(TB %s %s)" % (f(t["keys"]), f(t["abs"]))


PREAMBLE = ("From Coq Require Import List NArith ZArith Bool.\n"
            "From HIDI Require Import Base.AList Model.Notes Model.Device Model.Parser Run.ParserRun.\n"
            "Import ListNotations.\nOpen Scope N_scope.\n")


def classify_error(msg):
    """coarse kind of a ParseData error message (evidence only)"""
    import re
    pats = [("decode", r"^parsing failed: "), ("key-name", r"failed to parse evcode key|EvCode name|convertion hex"),
            ("field-count", r"comma-separated"), ("offset", r"channel offset"), ("note-range", r"note value outside"),
            ("note", r"failed to parse note"), ("mapping-type", r"mapping type not supported|unexpected mapping type"),
            ("cc", r"cc value"), ("note-missing", r"note value not set"), ("action", r"action (not supported|value not set)|unsupported action"),
            ("collision", r"collision_mode"), ("default-mapping", r"default mapping"), ("velocity", r"velocity"),
            ("channel", r"default channel")]
    for k, p in pats:
        if re.search(p, msg):
            return k
    return "other"
