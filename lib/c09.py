"""C09: configuration parsing is total — error or configuration, never a panic or a hang."""
import base64, collections, glob, hashlib, json, os, random
from common import *
import common
import parsergen as pg

ILL = ["1979-05-27", "1979-05-27T07:32:00Z", "1979-05-27T07:32:00", "1979-05-27 07:32:00.5-07:00", "07:32:00", "1.5", "-0.0", "1e3",
       "\"str\"", "'lit'", "\"\"", "[1, 2]", "[]", "[\"a\"]", "[[1]]", "[{a = 1}]", "{a = 1}", "{}", "{a = {b = 1}}", "true", "false",
       "9223372036854775807", "9223372036854775808", "-9223372036854775808", "-9223372036854775809", "99999999999999999999999",
       "nan", "inf", "-inf", "+nan", "-1", "0", "65535", "65536", "256", "1e400", "\"\"\"multi\nline\"\"\"", "0x", "1__0", "", "0xffffffffffffffffff",
       "[1979-05-27]", "{type = 1979-05-27}", "[07:32:00, 1]", "1_000", "+5", "0b101", "\"\\u00e9\"", "\"\\ud800\""]
TOKENS = ["[", "]", "[[", "]]", "=", "\n", "\n", " ", ",", "{", "}", "\"", "'", ".", "#", "mapping", "keys", "analog", "map", "deadzones",
          "identifier", "defaults", "action_mapping", "open_rgb", "collision_mode", "exit_sequence", "name", "subhandler", "type", "cc",
          "note", "channel", "velocity", "KEY_A", "ABS_X", "x1e", "\"off\"", "\"cc\"", "\"key\"", "\"action\"", "\"C3\"", "1", "0", "-1",
          "1979-05-27", "07:32:00", "1.5", "true", "nan", "inf", "\"\"\"", "'''", "\\", "\t", "\r\n", "\x00", "\xff", "é", "0x10", "1e9"]


def shipped_device_files():
    return sorted(glob.glob(os.path.join(common.REPO, "cmd/hidi/hidi-config/factory/**/*.toml"), recursive=True))


def corrupt(data, rng):
    b = bytearray(data)
    for _ in range(rng.choice([1, 1, 2, 3, 6])):
        if not b:
            b = bytearray(rng.randbytes(3))
        k = rng.randrange(8)
        p = rng.randrange(len(b))
        if k == 0:
            b[p] = rng.randrange(256)
        elif k == 1:
            b[p] ^= 1 << rng.randrange(8)
        elif k == 2:
            del b[p:p + rng.choice([1, 1, 2, 5, 40])]
        elif k == 3:
            b[p:p] = rng.randbytes(rng.choice([1, 1, 2, 8])) if rng.random() < 0.5 else rng.choice(TOKENS).encode("latin-1")
        elif k == 4:
            q = min(len(b), p + rng.choice([1, 5, 30, 200]))
            b[p:p] = b[p:q]                     # duplicate a range
        elif k == 5:
            del b[p:]                           # truncate
        elif k == 6:
            lines = bytes(b).split(b"\n")
            i, j = rng.randrange(len(lines)), rng.randrange(len(lines))
            lines[i], lines[j] = lines[j], lines[i]
            b = bytearray(b"\n".join(lines))
        else:
            lines = bytes(b).split(b"\n")
            i = rng.randrange(len(lines))
            lines.insert(i, lines[rng.randrange(len(lines))])   # duplicate a line elsewhere
            b = bytearray(b"\n".join(lines))
    return bytes(b[:65536])


def arbitrary(rng, big=False):
    k = rng.random()
    if big:
        n = rng.choice([4096, 20000, 65536])
        if k < 0.3:
            return rng.randbytes(n)
        if k < 0.5:
            return (rng.choice(["[", "[[", "{a=", "a.", "\"", "[a.", "x=[", "a=1\n", "[[mapping]]\n", "#"]) * n).encode()[:n]
        return "".join(rng.choice(TOKENS) for _ in range(n // 3)).encode("latin-1")[:n]
    if k < 0.35:
        return rng.randbytes(rng.choice([0, 1, 2, 3, 8, 20, 64, 200]))
    if k < 0.5:
        return bytes(rng.choice(b"[]=\"'\n .,{}#abcxKEY_019-:TZ+e") for _ in range(rng.randrange(1, 60)))
    return "".join(rng.choice(TOKENS) for _ in range(rng.randrange(1, 40))).encode("latin-1")


def field_paths(d):
    """every field of a printed description (for overrides)"""
    ps = [("cmode",), ("exit",)] + [("exit", i) for i in range(len(d["exit"]))]
    ps += [("ident", n) for n in ("bus", "vendor", "product", "version", "uniq")]
    ps += [("defaults", n) for n in ("octave", "semitone", "channel", "mapping", "velocity")]
    ps += [("actions", k) for k, _ in d["actions"]] + [("rgb", n) for n in pg.RGB_FIELDS]
    for mi, m in enumerate(d["mappings"]):
        ps.append(("mapping", mi, "name"))
        for ki, ks in enumerate(m["keys"]):
            p = ("mapping", mi, "keys", ki)
            ps += [p + ("sub",)] + [p + ("map", k) for k, _ in ks["map"]]
        for ai, an in enumerate(m["analog"]):
            p = ("mapping", mi, "analog", ai)
            ps += [p + ("sub",), p + ("defdz",)] + [p + ("dz", k) for k, _ in an["dz"]]
            for k, _ in an["map"]:
                ps.append(p + ("map", k))
                ps += [p + ("map", k, f) for f in ("type", "cc", "cc_negative", "note", "note_negative", "channel_offset",
                                                    "channel_offset_negative", "action", "action_negative", "flip_axis", "deadzone_at_center")]
    return ps


def header_paths(d):
    hs = [(("ident",), "identifier"), (("defaults",), "defaults"), (("actions",), "action_mapping"), (("rgb",), "open_rgb")]
    for mi, m in enumerate(d["mappings"]):
        hs.append((("mapping", mi), "mapping"))
        for ki, _ in enumerate(m["keys"]):
            hs += [(("mapping", mi, "keys", ki), "mapping.keys"), (("mapping", mi, "keys", ki, "map"), "mapping.keys.map")]
        for ai, _ in enumerate(m["analog"]):
            hs += [(("mapping", mi, "analog", ai), "mapping.analog"), (("mapping", mi, "analog", ai, "map"), "mapping.analog.map"),
                   (("mapping", mi, "analog", ai, "dz"), "mapping.analog.deadzones")]
    return hs


def illtyped(d, rng, n):
    """n texts: the fully printed description with one field ill-typed / deleted / duplicated, one header of the wrong
    kind, or a dotted key where a scalar is expected"""
    paths, heads = field_paths(d), header_paths(d)
    out = []
    for _ in range(n):
        k = rng.random()
        if k < 0.62:
            p = rng.choice(paths)
            v = rng.choice(ILL)
            out.append(("ill-typed " + "/".join(str(x) if not isinstance(x, bytes) else x.decode() for x in p) + " = " + v[:24],
                        pg.print_toml(d, None, over={p: v}, omit_zero=False)))
        elif k < 0.72:
            p = rng.choice(paths)
            o = rng.choice([pg.DELETE, pg.DUP])
            out.append(("%s %s" % ("deleted" if o is pg.DELETE else "duplicated", p), pg.print_toml(d, None, over={p: o}, omit_zero=False)))
        elif k < 0.86:
            p, name = rng.choice(heads)
            form = rng.choice(["[%s]", "[[%s]]", "%s = 5", "%s = \"x\"", "%s = []", "%s = {}", "%s = [1]", "%s = 1979-05-27", "[%s.x]", "[[%s.x]]",
                               "%s = [{}]", "%s = [[]]", "[%s", "%s = {a = 1}", "[%s]\n[%s]"])
            txt = form.replace("%s", name)
            o = rng.choice([txt, pg.DELETE, pg.DUP])
            out.append(("header %s -> %r" % (name, o if isinstance(o, str) else o[0]),
                        pg.print_toml(d, None, over={p + ("@header",): o}, omit_zero=False)))
        else:
            lv = rng.choice([(), ("ident",), ("defaults",), ("rgb",), ("actions",)] + [h for h, _ in heads if len(h) in (2, 4)])
            line = rng.choice(["channel.x = 1", "defaults.channel.x = 1", "bus.a = 1", "name.first = \"a\"", "mapping.name = \"z\"",
                               "white.r = 1", "KEY_A.b = \"c\"", "subhandler.a = 1", "map.KEY_B.c = 1", "keys.map.KEY_C = \"1\"",
                               "analog.map.ABS_X.type = \"cc\"", "a.b.c.d = 1979-05-27", "identifier.bus = 07:32:00", "\"\" = 1",
                               "defaults = 1", "mapping = 1", "collision_mode.x = 1", "exit_sequence.a = 1"])
            out.append(("dotted key at %s: %s" % (lv, line), pg.print_toml(d, None, extra={lv: [line]}, omit_zero=False)))
    return out


def near_valid(gen, rng, n):
    out = []
    while len(out) < n:
        d = gen.description(size=rng.random() * 0.6)
        if d["mappings"] and rng.random() < 0.12:
            # a legal but very long mapping name without a blank (error texts quote it): combined with every invalidation below
            i = rng.randrange(len(d["mappings"]))
            old = d["mappings"][i]["name"]
            pat, ln = rng.choice([b"M", b"x_", b"\xc3\xa9"]), rng.choice([150, 198, 199, 200, 201, 255, 256, 1000, 5000])
            new = (pat * 3000)[:ln - (ln % 2 if len(pat) == 2 else 0)]
            if all(m["name"] != new for m in d["mappings"]):
                d["mappings"][i]["name"] = new
                if d.get("defmap") == old and not any(m["name"] == old for m in d["mappings"]):
                    d["defmap"] = new
        invs = pg.invalidations(d, rng)
        paths = field_paths(d)
        for _ in range(6):
            k = rng.random()
            if k < 0.45 and invs:
                kind, md, over, extra = rng.choice(invs)
                out.append(("near-valid: " + kind, pg.print_toml(md if md is not None else d, rng, over=over, extra=extra)))
            elif k < 0.7:
                p = rng.choice(paths)
                out.append(("near-valid: field %s" % ("deleted" if k < 0.6 else "duplicated"),
                            pg.print_toml(d, rng, over={p: pg.DELETE if k < 0.6 else pg.DUP}, omit_zero=False)))
            elif k < 0.85:
                p = rng.choice(paths)
                out.append(("near-valid: field corrupted", pg.print_toml(d, rng, over={p: arbitrary(rng).decode("latin-1")}, omit_zero=False)))
            else:
                out.append(("near-valid: bytes corrupted", corrupt(pg.print_toml(d, rng), rng)))
    return out[:n]


def hidi_inputs(rng, n):
    shipped = open(os.path.join(common.REPO, "cmd/hidi/hidi-config/hidi.toml"), "rb").read()
    FIELDS = ["pool_rate", "discovery_rate", "stabilization_period", "log_view_rate", "log_buffer_size"]
    RATES = ["0", "-1", "-120", "1", "120", "1000000000", "1000000001", "9223372036854775807", "-9223372036854775808",
             "9223372036854775808", "0x0", "+0", "-0", "0b0", "1_0"]
    out = [("shipped hidi.toml", shipped), ("empty file", b""), ("[HIDI] only", b"[HIDI]\n"), ("no HIDI table", b"[OTHER]\npool_rate = 1\n"),
           ("pool_rate = 0", b"[HIDI]\npool_rate = 0\ndiscovery_rate = 1\n"), ("discovery_rate = 0", b"[HIDI]\npool_rate = 120\ndiscovery_rate = 0\n"),
           ("pool_rate absent", b"[HIDI]\ndiscovery_rate = 1\nstabilization_period = 500\n"),
           ("discovery_rate absent", b"[HIDI]\npool_rate = 120\n"), ("negative rates", b"[HIDI]\npool_rate = -4\ndiscovery_rate = -1\n"),
           ("HIDI as array", b"[[HIDI]]\npool_rate = 1\ndiscovery_rate = 1\n"), ("HIDI scalar", b"HIDI = 5\n"),
           ("lower-case table", b"[hidi]\npool_rate = 3\ndiscovery_rate = 2\n"),
           ("dotted", b"HIDI.pool_rate = 3\nHIDI.discovery_rate = 2\n"), ("dotted too deep", b"HIDI.pool_rate.x = 3\n"),
           ("inline", b"HIDI = {pool_rate = 3, discovery_rate = 2, stabilization_period = 9223372036854775807}\n")]
    # many keys the structure does not know (ignored by the decoder): whatever is done about them - nobody reads the log channel yet
    for n in (127, 128, 129, 130, 200, 1000):
        body = "".join("unknown_%d = %d\n" % (i, i) for i in range(n))
        out.append(("%d unknown keys in [HIDI]" % n, ("[HIDI]\npool_rate = 120\ndiscovery_rate = 1\n" + body).encode()))
        out.append(("%d unknown top-level keys" % n, (body + "[HIDI]\npool_rate = 120\ndiscovery_rate = 1\n").encode()))
    while len(out) < n:
        k = rng.random()
        if k < 0.45:
            lines = ["[HIDI]"]
            fs = [f for f in FIELDS if rng.random() < 0.8]
            rng.shuffle(fs)
            for f in fs:
                v = rng.choice(RATES) if rng.random() < 0.6 else rng.choice(ILL)
                lines.append("%s = %s" % (f, v))
                if rng.random() < 0.05:
                    lines.append("%s = %s" % (f, v))
            if rng.random() < 0.15:
                lines.append(rng.choice(["bogus = 1", "pool_rate.x = 1", "[HIDI.sub]", "[HIDI]", "[[HIDI]]", "[other]\na = 1"]))
            out.append(("generated hidi.toml", ("\n".join(lines) + "\n").encode("utf-8", "replace")))
        elif k < 0.75:
            out.append(("corrupted shipped hidi.toml", corrupt(shipped, rng)))
        else:
            out.append(("arbitrary bytes", arbitrary(rng)))
    return out[:n]


def printable(b, n=400):
    return b[:n].decode("latin-1").encode("unicode_escape").decode("ascii")


def run_chunked(binary, mode, inputs, extra, run_, flags=True, chunk=20000, dec_quota=None, rng=None):
    """run the harness over the inputs in chunks; a dying harness (fatal error) is a failing input"""
    results = []
    for k in range(0, len(inputs), chunk):
        part = inputs[k:k + chunk]
        inp = dict(extra, inputs=[base64.b64encode(b).decode() for _, b in part])
        out, err = run_harness(binary, mode, inp, timeout=3600, flags=flags)
        if out is None:
            idx = None
            for p in glob.glob(os.path.join(workdir(), "out-%s-*.json.progress" % mode)):
                try:
                    idx = int(open(p).read().strip())
                except Exception:  # noqa
                    pass
                os.unlink(p)
            if idx is not None and idx < len(part):
                lab, b = part[idx]
                run_.violation("the test process died while parsing an input (%s): %s" % (lab, err[-300:]),
                               {"call": mode, "input_base64": base64.b64encode(b).decode(), "input": printable(b), "stream": lab})
            else:
                run_.violation("C09 harness failed: " + err, {"correspondence": "C09 harness run", "error": err}, no_input=True)
            return None
        if dec_quota is not None:
            # keep the decoded structure of at most dec_quota distinct results of this chunk (model comparison sample)
            idx = [i for i, r in enumerate(out["results"]) if r.get("dec") is not None]
            rng.shuffle(idx)
            seen, kept = set(), 0
            for i in idx:
                r = out["results"][i]
                h = hashlib.sha1(json.dumps(r["dec"], sort_keys=True).encode()).digest() + r["class"].encode()
                if kept < dec_quota and h not in seen and r["class"] in ("ok", "error"):
                    seen.add(h)
                    kept += 1
                else:
                    r["dec"] = None
        results += out["results"]
        if out.get("unstable"):
            i = out["unstable"][0]
            lab, b = part[i]
            run_.violation("correspondence 'same bytes, same answer' no longer checks: ParseData classifies %d input(s) differently when they are parsed "
                           "again after the other inputs of the run (first: %s)" % (len(out["unstable"]), lab),
                           {"theorem_or_correspondence": "C09 view (ParseData is a function of the bytes)", "input_base64": base64.b64encode(b).decode(),
                            "input": printable(b), "stream": lab}, no_input=True)
        if mode == "c09hidi":
            results_missing = out.get("missing")
            run_.coverage["missing_file"] = results_missing
    return results


def run(run_, only_input=None):
    tier, seed = run_.tier, run_.seed
    run_.proof_obligations()
    rng = random.Random(seed)
    binary, err = go_build("config")
    if binary is None:
        run_.violation("harness for package config does not build against the repository: " + err,
                       {"correspondence": "C09 harness build", "error": err}, no_input=True)
        return
    mbinary, err = go_build("main")
    if mbinary is None:
        run_.violation("harness for package main (cmd/hidi) does not build against the repository: " + err,
                       {"correspondence": "C09 harness build (cmd/hidi)", "error": err}, no_input=True)
        return
    tables, err = run_harness(binary, "c10tables", {})
    if tables is None:
        run_.violation("C09 harness (tables) failed: " + err, {"correspondence": "tables dump", "error": err}, no_input=True)
        return
    gen = pg.Gen(rng, tables)
    quick = tier == "quick"
    n_a, n_b, n_c, n_h = (2000, 1800, 900, 700) if quick else (120000, 100000, 60000, 20000)
    n_model = 700 if quick else 6000
    shipped = [open(p, "rb").read() for p in shipped_device_files()]

    # ---- device configurations
    inputs = []       # (stream label, bytes)
    if only_input is not None:
        inputs = [("replay", only_input)] if only_input[0] == "device" else []
    else:
        hdr = b'collision_mode = "off"\n[defaults]\nmapping = "a"\nchannel = 1\n[[mapping]]\nname = "a"\n'
        for lab, b in [
            ("action axis without action_negative", hdr + b'[[mapping.analog]]\n[mapping.analog.map]\nABS_X = {type = "action", action = "octave_up"}\n'),
            ("inline table where a string is expected", hdr + b'[[mapping.keys]]\n[mapping.keys.map]\nKEY_A = {a = 1}\n'),
            ("date where a number is expected", hdr + b'[[mapping.analog]]\n[mapping.analog.map]\nABS_X = {type = "cc", cc = 1979-05-27}\n'),
            ("time where a bool is expected", hdr + b'[[mapping.analog]]\n[mapping.analog.map]\nABS_X = {type = "cc", cc = 1, flip_axis = 07:32:00}\n'),
            ("date-time where a string is expected", b'collision_mode = 1979-05-27T07:32:00Z\n'),
            ("date where an array is expected", b'exit_sequence = 1979-05-27\n'),
            ("minimal valid file", hdr),
        ]:
            inputs.append(("a: corpus: " + lab, b))
        for p, b in zip(shipped_device_files(), shipped):
            inputs.append(("a: shipped file " + os.path.basename(p), b))
        # over-long names where a name from a fixed vocabulary is expected (they end up in error messages): 31..33, 64, 1000 and 70000 bytes
        for n in (31, 32, 33, 64, 1000, 70000):
            nm = ("x" * n).encode()
            for lab, b in [
                ("collision_mode", b'collision_mode = "' + nm + b'"\n[defaults]\nmapping = "a"\nchannel = 1\n[[mapping]]\nname = "a"\n'),
                ("action", hdr + b'[action_mapping]\nKEY_A = "' + nm + b'"\n'),
                ("action key", hdr + b'[action_mapping]\n' + nm + b' = "panic"\n'),
                ("analog type", hdr + b'[[mapping.analog]]\n[mapping.analog.map]\nABS_X = {type = "' + nm + b'"}\n'),
                ("analog action", hdr + b'[[mapping.analog]]\n[mapping.analog.map]\nABS_X = {type = "action", action = "' + nm + b'", action_negative = "panic"}\n'),
                ("axis name", hdr + b'[[mapping.analog]]\n[mapping.analog.map]\n' + nm + b' = {type = "cc", cc = 1}\n'),
                ("key name", hdr + b'[[mapping.keys]]\n[mapping.keys.map]\n' + nm + b' = "c1"\n'),
                ("note name", hdr + b'[[mapping.keys]]\n[mapping.keys.map]\nKEY_A = "' + nm + b'"\n'),
                ("default mapping", b'collision_mode = "off"\n[defaults]\nmapping = "' + nm + b'"\nchannel = 1\n[[mapping]]\nname = "a"\n'),
                ("exit sequence key", b'exit_sequence = ["' + nm + b'"]\n' + hdr),
            ]:
                inputs.append(("a: corpus: over-long %s name (%d bytes)" % (lab, n), b))
        # very short files, exhaustively: every file of 0, 1 and 2 bytes (a file caught while it is being written, byte-order marks cut short)
        inputs.append(("a: empty file", b""))
        for x in range(256):
            inputs.append(("a: every 1-byte file", bytes([x])))
        for x in range(256):
            for y in range(256):
                inputs.append(("a: every 2-byte file", bytes([x, y])))
        # a file re-read while it is still being written: every prefix of a shipped file (with and without byte-order marks) up to 200 bytes,
        # then every 23rd (quick) / every (thorough) prefix
        for bi, b in enumerate(shipped[:2] if quick else shipped):
            for bom in (b"", b"\xef\xbb\xbf", b"\xff\xfe", b"\xfe\xff"):
                full = bom + b
                step = 23 if quick else 1
                cuts = list(range(0, min(200, len(full)))) + list(range(200, len(full), step))
                if bom and quick:
                    cuts = cuts[:60]
                for n in cuts:
                    inputs.append(("a: prefix of a shipped file" + (" after a byte-order mark" if bom else ""), full[:n]))
        for i in range(n_a):
            k = rng.random()
            if k < 0.45 and shipped:
                inputs.append(("a: byte-level corruption of a shipped file", corrupt(rng.choice(shipped), rng)))
            elif k < 0.46 or (quick and i < 25):
                inputs.append(("a: arbitrary bytes (large)", arbitrary(rng, big=True)))
            else:
                inputs.append(("a: arbitrary bytes", arbitrary(rng)))
        bases = [gen.description(size=0.5) for _ in range(3 if quick else 40)]
        bases = [b for b in bases if b["mappings"]] or [gen.description(size=0.9)]
        for i in range(n_b):
            lab, txt = illtyped(bases[i % len(bases)], rng, 1)[0]
            inputs.append(("b: " + lab, txt))
        for lab, txt in near_valid(gen, rng, n_c):
            inputs.append(("c: " + lab, txt))
        # every PAIR of [defaults] numbers at boundary-ish values together (loops / arithmetic that combine two fields, e.g. folding
        # semitones into octaves, only go wrong for particular combinations; single-field edits never reach them)
        B = {"octave": [-128, -11, -10, -9, -1, 0, 1, 9, 10, 11, 127], "semitone": [-128, -127, -25, -24, -13, -12, -11, -1, 0, 1, 11, 12, 13, 24, 25, 127, 128],
             "channel": [0, 1, 2, 15, 16, 17], "velocity": [0, 1, 64, 126, 127, 128]}
        names = list(B)
        pairs = [(x, y) for i, x in enumerate(names) for y in names[i + 1:]]
        base = next((b for b in bases if b["mappings"]), bases[0])
        for (x, y) in pairs:
            combos = [(vx, vy) for vx in B[x] for vy in B[y]]
            if quick and len(combos) > 70:
                combos = rng.sample(combos, 70) + [(vx, vy) for vx in (B[x][0], B[x][-1], 10, -10) for vy in (12, -12, B[y][0], B[y][-1]) if vx in B[x] and vy in B[y]]
            for (vx, vy) in combos:
                d = pg.clone(base)
                d[x], d[y] = vx, vy
                inputs.append(("c: defaults pair %s/%s at boundary values" % (x, y), pg.print_toml(d, rng, omit_zero=False)))
    if only_input is not None and only_input[0] == "device":
        inputs = [("replay", only_input[1])]
    nchunks = max(1, (len(inputs) + 19999) // 20000)
    results = run_chunked(binary, "c09", inputs, {"want_config": False, "want_dec": True, "dec_max_len": 6000}, run_,
                          dec_quota=n_model // nchunks + 1, rng=rng) if inputs else []
    if results is None:
        return
    by_stream = collections.defaultdict(collections.Counter)
    errkinds = collections.Counter()
    panics = collections.Counter()
    nontrivial = set()
    for (lab, b), r in zip(inputs, results):
        by_stream[lab[:1]][r["class"]] += 1
        by_stream[lab[:1]]["decoder " + r["dec_class"]] += 1
        if r["class"] == "error":
            errkinds[pg.classify_error(r.get("err", ""))] += 1
        if r["dec_class"] in ("ok", "panic"):
            nontrivial.add(hashlib.sha1(b).digest())
        if r["class"] in ("panic", "hang"):
            panics[norm_msg(r.get("err", ""))] += 1
            run_.violation("ParseData %s (%s): %s" % ("panicked" if r["class"] == "panic" else "did not return within the watchdog", lab, r.get("err", "")),
                           {"call": "config.ParseData", "input_base64": base64.b64encode(b).decode(), "input": printable(b), "stream": lab,
                            "implementation": {"class": r["class"], "error": r.get("err", "")}, "decoder_alone": r["dec_class"]})
        if r["dec_class"] == "hang":
            run_.violation("the TOML decoder did not return within the watchdog (%s)" % lab,
                           {"call": "toml.Decoder.Decode", "input_base64": base64.b64encode(b).decode(), "input": printable(b)})

    # ---- the model on the oracle's outcome
    cases, seen, budget = [], set(), 0
    order = list(range(len(inputs)))
    rng.shuffle(order)
    trivial = []
    for i in order:
        r = results[i]
        if r["class"] not in ("ok", "error"):
            continue
        cls = 0 if r["class"] == "ok" else 1
        if r["dec_class"] == "ok":
            if "dec" not in r or r["dec"] is None or len(cases) >= n_model:
                continue
            h = hashlib.sha1(json.dumps(r["dec"], sort_keys=True).encode()).digest() + bytes([cls])
            if h in seen:
                continue
            seen.add(h)
            cases.append((i, "(DecOk %s, %d)" % (pg.ctoml(pg.from_go_dec(r["dec"])), cls)))
        elif r["dec_class"] in ("error", "panic"):
            trivial.append((i, "(%s, %d)" % ("DecErr" if r["dec_class"] == "error" else "DecPanic", cls)))
    tabs = "Definition T := Eval vm_compute in %s.\n" % pg.ctables(tables)
    SH = 50
    shards = [cases[k:k + SH] for k in range(0, len(cases), SH)]
    TSH = 4000
    tshards = [trivial[k:k + TSH] for k in range(0, len(trivial), TSH)]
    items = []
    for si, sh in enumerate(shards):
        body = pg.PREAMBLE + tabs
        for j, (i, lit) in enumerate(sh):
            body += "Definition c%d : dec_outcome toml_cfg * N := %s.\n" % (j, lit)
        body += "Definition F := Eval vm_compute in c09_failures T %s.\nPrint F.\n" % clist(["c%d" % j for j in range(len(sh))])
        items.append(("c09_%d" % si, body))
    for si, sh in enumerate(tshards):
        body = pg.PREAMBLE + "Definition T := TB [] [].\n"
        body += "Definition cs : list (dec_outcome toml_cfg * N) := %s.\n" % clist([lit for _, lit in sh])
        body += "Definition F := Eval vm_compute in c09_failures T cs.\nPrint F.\n"
        items.append(("c09_t%d" % si, body))
    outs = coq_eval_many(items, timeout=1800) if items else []
    class_mismatches = []
    for sh, o in zip(shards + tshards, outs):
        defs = extract_defs(o)
        if "F" not in defs or isinstance(defs["F"], tuple):
            raise CheckError("cannot read the verdicts from coqc output: %r" % (o[-500:],))
        for (j, codes) in defs["F"]:
            i = sh[j][0]
            lab, b = inputs[i]
            r = results[i]
            # the implementation neither crashed nor hung here (those are reported above): C09 itself holds on this input; what no
            # longer checks is the correspondence between ParseData's accept/reject decision and the model's (C10 is about that decision)
            class_mismatches.append((i, codes))
    for (i, codes) in class_mismatches[:2]:
        lab, b = inputs[i]
        r = results[i]
        run_.violation("correspondence 'C09 view: ok / error class of ParseData == convert over the decoder's outcome' no longer checks (%d inputs): "
                       "ParseData returns %s where the model (guard over the decoder's outcome %s) %s (%s)%s" % (
                           len(class_mismatches), "a configuration" if r["class"] == "ok" else "an error: " + r.get("err", "")[:120], r["dec_class"],
                           "returns an error" if 2 in codes else "returns a configuration" if 1 in codes else "crashes", lab,
                           "" if run_.violations else "; no input of this run makes ParseData crash or hang"),
                       {"theorem_or_correspondence": "C09 view (ok / error class), theorems C09_convert_total / C09_parse_total are about the model",
                        "call": "config.ParseData", "input_base64": base64.b64encode(b).decode(), "input": printable(b), "stream": lab,
                        "verdict_codes": codes, "implementation": {"class": r["class"], "error": r.get("err", "")}},
                       no_input=True)

    # ---- hidi.toml through LoadHIDIConfig
    if only_input is not None:
        hin = [("replay", only_input[1])] if only_input[0] == "hidi" else []
    else:
        hin = hidi_inputs(rng, n_h)
    hres = run_chunked(mbinary, "c09hidi", hin, {"dir": os.path.join(workdir(), "hidi")}, run_, flags=False) if hin else []
    if hres is None:
        return
    hstats = collections.Counter()
    hcases = []
    for (lab, b), r in zip(hin, hres):
        hstats[r["class"]] += 1
        hstats["decoder " + r["dec_class"]] += 1
        if r["dec_class"] in ("ok", "panic"):
            nontrivial.add(hashlib.sha1(b"hidi" + b).digest())
        if r["class"] in ("panic", "hang"):
            panics["hidi: " + norm_msg(r.get("err", ""))] += 1
            run_.violation("LoadHIDIConfig %s (%s): %s" % ("panicked" if r["class"] == "panic" else "did not return within the watchdog", lab, r.get("err", "")),
                           {"call": "main.LoadHIDIConfig", "input_base64": base64.b64encode(b).decode(), "input": printable(b), "stream": lab,
                            "implementation": {"class": r["class"], "error": r.get("err", "")}, "decoder_alone": r["dec_class"],
                            "decoded_rates": r.get("raw")})
            continue
        if r["class"] == "ok" and (r["dur"][0] < 0 or r["dur"][1] < 0):
            run_.violation("LoadHIDIConfig accepts a rate that gives a negative period (%s): %r" % (lab, r["dur"]),
                           {"call": "main.LoadHIDIConfig", "input_base64": base64.b64encode(b).decode(), "input": printable(b), "stream": lab,
                            "durations_ns": r["dur"], "decoded_rates": r.get("raw")})
        obs = "(HOk %s %s %s)" % tuple(cZ(x) for x in r["dur"]) if r["class"] == "ok" else "HErr"
        dec = {"ok": "(DecOk (HR %s %s %s))" % tuple(cZ(x) for x in r["raw"]), "error": "DecErr", "panic": "DecPanic"}.get(r["dec_class"])
        if dec is None:
            run_.violation("the TOML decoder did not return within the watchdog on a hidi.toml (%s)" % lab,
                           {"call": "toml.Unmarshal", "input_base64": base64.b64encode(b).decode(), "input": printable(b)})
            continue
        hcases.append(((lab, b, r), "(%s, %s)" % (dec, obs)))
    if hcases:
        body = pg.PREAMBLE + "Definition cs : list (dec_outcome hidi_raw * hidi_obs) := %s.\n" % clist([lit for _, lit in hcases])
        body += "Definition F := Eval vm_compute in hidi_failures cs.\nPrint F.\n"
        defs = extract_defs(coq_eval("c09_hidi", body))
        if "F" not in defs or isinstance(defs["F"], tuple):
            raise CheckError("cannot read the hidi verdicts from coqc output")
        for (j, codes) in defs["F"]:
            (lab, b, r), _ = hcases[j]
            run_.violation("LoadHIDIConfig and the model disagree (%s): implementation %s %r, verdict %r" % (lab, r["class"], r["dur"], codes),
                           {"call": "main.LoadHIDIConfig", "input_base64": base64.b64encode(b).decode(), "input": printable(b), "stream": lab,
                            "verdict_codes": codes, "implementation": {"class": r["class"], "error": r.get("err", ""), "durations_ns": r["dur"]},
                            "decoded_rates": r.get("raw")})
    miss = run_.coverage.get("missing_file")
    if miss and miss.get("class") != "error":
        run_.violation("LoadHIDIConfig on a missing file: %r" % (miss,), {"call": "main.LoadHIDIConfig", "input": "path that does not exist"})

    diversify(run_)
    sizes = [len(b) for _, b in inputs] + [len(b) for _, b in hin]
    hist = collections.Counter("<=64" if s <= 64 else "<=1024" if s <= 1024 else "<=8192" if s <= 8192 else "<=65536" for s in sizes)
    take = lambda pred: [{"stream": lab, "input": printable(b, 240), "outcome": r["class"], "error": r.get("err", "")[:120], "decoder": r["dec_class"]}
                         for (lab, b), r in zip(inputs, results) if pred(lab, r)][:2]
    run_.coverage.update({
        "evaluations": len(inputs) + len(hin),
        "distinct_nontrivial": len(nontrivial),
        "rule": "distinct inputs that get past TOML syntax: the decoder alone returns a structure (so the conversion / rate arithmetic runs) "
                "or the decoder itself panics (so the recover path runs); inputs the decoder rejects with an error are counted as trivial",
        "streams": {"a (arbitrary bytes, corrupted shipped files)": dict(by_stream["a"]), "b (valid TOML, ill-typed/missing/duplicated fields, dotted keys)": dict(by_stream["b"]),
                    "c (near-valid configurations)": dict(by_stream["c"]), "hidi.toml": dict(hstats)},
        "implementation_error_kinds": dict(errkinds),
        "panic_messages": dict(panics),
        "input_sizes": dict(hist), "max_input_size": max(sizes) if sizes else 0,
        "model_compared": {"decoded structures through convert in coqc": len(cases), "decoder error/panic outcomes through guard in coqc": len(trivial),
                           "hidi.toml cases in coqc": len(hcases)},
        "samples": take(lambda l, r: l.startswith("a") and r["dec_class"] == "ok") + take(lambda l, r: l.startswith("b") and r["dec_class"] == "panic")
                   + take(lambda l, r: l.startswith("b") and r["class"] == "ok") + take(lambda l, r: l.startswith("c"))
                   + [{"stream": "hidi: " + lab, "input": printable(b, 160), "outcome": r["class"], "error": r.get("err", "")[:100]} for (lab, b), r in list(zip(hin, hres))[4:7]],
        "exhaustive": False,
        "watchdog_s": 5,
        "correspondence_obligations": 3,
    })
    run_.assumptions += [
        "the go-toml v2.0.3 decoder is an oracle with outcomes ok / error / panic; that it terminates and that its panics are recoverable ones is not proved (searched: every call runs under a 5 s watchdog)",
        "os.ReadFile failing is an error return (checked once with a missing path); file contents above 64 KiB are outside the quantifier",
        "time.Duration arithmetic is int64: division truncates towards zero, multiplication wraps (Model/Parser.v: hidi_convert)",
    ]


def norm_msg(m):
    import re
    return re.sub(r"\d{5,}", "N", m)[:70]


PRIO = ["panic conversion", "hidi panic runtime error: integer divide", "panic decoder subslice", "hidi accepts a rate", "panic decoder reflect.Set",
        "hidi panic", "panic decoder"]


def category(v):
    w = v["what"]
    rp = v["replay"] if isinstance(v["replay"], dict) else {}
    err = rp.get("implementation", {}).get("error", "") if isinstance(rp.get("implementation"), dict) else ""
    if "LoadHIDIConfig" in w:
        return "hidi " + ("panic " + norm_msg(err)[:30] if "panicked" in w else w[15:45])
    if "panicked" in w:
        return "panic " + ("conversion" if rp.get("decoder_alone") == "ok" else "decoder") + " " + norm_msg(err)[:24]
    return w[:40]


def diversify(run_):
    seen, first, rest = set(), [], []
    for v in run_.violations:
        c = category(v)
        (rest if c in seen else first).append(v)
        seen.add(c)

    def rank(v):
        c = category(v)
        for i, p in enumerate(PRIO):
            if c.startswith(p):
                return i
        return len(PRIO)
    first.sort(key=rank)
    run_.violations[:] = first + rest
    run_.coverage["violation_categories"] = sorted(seen)


def replay(run_, data):
    rp = data["replay"]
    if "input_base64" not in rp:
        return run(run_)
    b = base64.b64decode(rp["input_base64"])
    kind = "hidi" if "LoadHIDIConfig" in rp.get("call", "") or "Unmarshal" in rp.get("call", "") else "device"
    run(run_, only_input=(kind, b))
    run_.coverage["rule"] = "replay of one saved input"
