#!/usr/bin/env python3
"""Evaluates a behaviour-preserving change (refactoring written by an independent sub-agent that saw only the property text):
the existing tests must behave as before, and NONE of our checks may raise an alarm on it.  A VIOLATION here is a false alarm
of the machinery (or the change is not harmless after all - decided by reading the replay).
usage: benigneval.py <ID> <out dir> <worktree> [checks...]     files the result under /verif/benign/<ID>[-n]/"""
import json, os, re, shutil, subprocess, sys
ENV = dict(os.environ, GOFLAGS="-mod=mod", GOPROXY="off", GOSUMDB="off", GOTOOLCHAIN="local")

# which checks look at which part of the code
RELATED = {
    "device": ["C01", "C02", "C03", "C04", "C05", "C06", "C07", "C08", "C13", "C14", "C16", "C17"],
    "config": ["C09", "C10", "C11", "C12", "C19", "C05"],
    "input": ["C20"],
    "utils": ["C15"],
    "midi": ["C15", "C05", "C06"],
    "cmd/hidi": ["C18", "C09"],
}


def sh(cmd, cwd=None, timeout=3000):
    r = subprocess.run(cmd, shell=True, cwd=cwd, env=ENV, capture_output=True, text=True, timeout=timeout)
    return r.returncode, r.stdout + r.stderr


def go_tests(wt):
    rc, out = sh("go test -vet=off -count=1 -skip 'TestSeed|TestDemo|TestBenign' ./internal/...", cwd=wt)
    return sorted(set(re.findall(r"^(ok|FAIL|---\s+FAIL:?)\s+(\S+)", out, re.M)))


def main():
    pid, outdir, wt = sys.argv[1:4]
    meta = json.load(open(os.path.join(outdir, "meta.json")))
    patch = os.path.abspath(os.path.join(outdir, "patch.diff"))
    files = re.findall(r"^\+\+\+ b/(\S+)", open(patch).read(), re.M)
    checks = sys.argv[4:]
    if not checks:
        s = {pid}
        for f in files:
            for k, v in RELATED.items():
                if ("/" + k + "/" in "/" + f) or f.startswith(k):
                    s.update(v)
            if "/device/config/" in f:
                s.difference_update(set(RELATED["device"]) - set(RELATED["config"]) - {pid})
        checks = sorted(s)
    # move test files of the agent aside: they must not be compiled into the harness binary
    rc, found = sh("git ls-files --others --exclude-standard | grep -E 'zz_.*_test.go'", cwd=wt)
    aside = []
    for rel in [x for x in found.strip().split("\n") if x]:
        dst = os.path.join(outdir, "aside_" + rel.replace("/", "_") + ".txt")
        shutil.move(os.path.join(wt, rel), dst)
        aside.append((rel, dst))
    report = {"property": pid, "files_changed": files}
    try:
        withc = go_tests(wt)
        rcr, outr = sh("git apply -R %s" % patch, cwd=wt)
        assert rcr == 0, "cannot reverse patch: " + outr
        base = go_tests(wt)
        rca, outa = sh("git apply %s" % patch, cwd=wt)
        assert rca == 0, "cannot re-apply patch: " + outa
        report["existing_tests_same"] = (base == withc)
        scratch = os.path.join(outdir, "checkout")
        os.makedirs(scratch, exist_ok=True)
        results = {}
        for c in checks:
            rc, out = sh("VERIF_REPO=%s VERIF_SCRATCH_OUT=%s ./check %s --tier quick" % (wt, scratch, c), cwd="/verif")
            lines = out.split("\n")
            vio = [l for l in lines if l.startswith("VIOLATION")]
            first = ""
            for i, l in enumerate(lines):
                if l.startswith("VIOLATION") and i + 1 < len(lines):
                    first = lines[i + 1][:400]
                    break
            results[c] = {"exit": rc, "violation_lines": len(vio), "first": first,
                          "no_failing_input_found": any(l.rstrip().endswith("no-failing-input-found") for l in vio),
                          "tail": "" if rc == 0 else "\n".join(lines[-6:])[:600]}
        report["checks"] = results
        report["alarms"] = [c for c, r in results.items() if r["exit"] != 0]
    finally:
        for rel, dst in aside:
            shutil.move(dst, os.path.join(wt, rel))
    n = 0
    dest = os.path.join("/verif/benign", pid)
    while os.path.exists(dest):
        n += 1
        dest = os.path.join("/verif/benign", "%s-%d" % (pid, n))
    os.makedirs(dest)
    shutil.copy(patch, dest)
    meta["evaluation"] = report
    meta["what_was_run"] = ["existing tests with and without the change in the scratch worktree",
                            "VERIF_REPO=<scratch worktree with the change> ./check <id> --tier quick for every related check (evidence/replays redirected)"]
    json.dump(meta, open(os.path.join(dest, "meta.json"), "w"), indent=1)
    print(json.dumps(report, indent=1))


if __name__ == "__main__":
    main()
