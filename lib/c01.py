"""C01: no stuck notes (quiescence and disconnect)."""
from common import *
import devgen
from devgen import ACTIONS
from devprop import DevProp


def k(code, val, sub=""):
    return {"t": "k", "sub": sub, "code": code, "val": val}


def tap(code):
    return [k(code, 1), k(code, 0)]


def templates(rng, cfg_proto=None):
    """hold A, change state, press B on A's old/new pitch, release in both orders, panic in between."""
    out = []
    for cmode in devgen.CMODES:
        for act in ["octave_up", "octave_down", "semitone_up", "channel_up", "mapping_up", "panic", "cc_learning"]:
            A, B, C = 30, 31, 32
            m0 = [{"sub": "", "code": A, "note": 60, "off": 0}, {"sub": "", "code": B, "note": 60, "off": 0},
                  {"sub": "", "code": C, "note": 48, "off": 0}]
            m1 = [{"sub": "", "code": B, "note": 60, "off": 0}, {"sub": "", "code": C, "note": 72, "off": 1}]
            cfg = {"mappings": [{"name": "M0", "midi": m0, "analog": [], "dz": [], "defdz": [], "subs": []},
                                {"name": "M1", "midi": m1, "analog": [], "dz": [], "defdz": [], "subs": []}],
                   "actions": [{"code": 59, "action": act}, {"code": 60, "action": "octave_up"}, {"code": 61, "action": "panic"}],
                   "exitseq": [], "cmode": cmode, "octave": 0, "semitone": 0, "channel": 1, "mapping": 0, "velocity": 64}
            for order in ([A, B], [B, A]):
                for second in (B, C):
                    for mid in ([], tap(61)):
                        ev = [k(A, 1)] + tap(59) + [k(second, 1)] + mid
                        rel = [A, second] if order[0] == A else [second, A]
                        ev += [k(rel[0], 0)] + tap(60) + [k(rel[1], 0)]
                        out.append({"cfg": cfg, "abs": [], "events": ev, "tag": "template"})
    # a key pressed WHILE a modal action key is held, then the state is switched so that the key's release takes another path
    # (unmapped after a mapping switch / out of range), everything released, the state restored - and then an ordinary tap of that
    # key: every stage must end silent
    A, B = 30, 31
    for cmode in devgen.CMODES:
        for modal in ("cc_learning", "multinote", "octave_up", "channel_up", "panic"):
            for switch in ("mapping", "octave"):
                m0 = [{"sub": "", "code": A, "note": 60, "off": 0}, {"sub": "", "code": B, "note": 60, "off": 0}]
                m1 = [{"sub": "", "code": B, "note": 62, "off": 0}]                                  # A is unmapped in M1
                cfg = {"mappings": [{"name": "M0", "midi": m0, "analog": [], "dz": [], "defdz": [], "subs": []},
                                    {"name": "M1", "midi": m1, "analog": [], "dz": [], "defdz": [], "subs": []}],
                       "actions": [{"code": 59, "action": modal}, {"code": 62, "action": "mapping_up"}, {"code": 63, "action": "mapping_down"},
                                   {"code": 64, "action": "octave_down"}, {"code": 65, "action": "octave_up" if modal != "octave_up" else "semitone_up"}],
                       "exitseq": [], "cmode": cmode, "octave": 0, "semitone": 0, "channel": 1, "mapping": 0, "velocity": 64}
                go, back = (tap(62), tap(63)) if switch == "mapping" else (tap(64) * 6, tap(65) * 6 if modal != "octave_up" else tap(64) * 0)
                if switch == "octave" and modal == "octave_up":
                    continue
                for rel_modal_first in (False, True):
                    ev = [k(59, 1), k(A, 1)] + go
                    ev += ([k(59, 0), k(A, 0)] if rel_modal_first else [k(A, 0), k(59, 0)]) + back
                    ev += tap(A) + tap(B) + [k(A, 1), k(B, 1), k(A, 0), k(B, 0)] + tap(A)
                    out.append({"cfg": cfg, "abs": [], "events": ev, "tag": "template-modal"})
    # the ends of every range, held at disconnect: pitches 0, 1, 126, 127 (directly and reached through a transposition) on the first and the
    # last channel - alone, together, and after a tap of the same key
    for cmode in devgen.CMODES:
        for chan in (1, 16):
            keys = [(30, 127, 0), (31, 0, 0), (32, 126, 15), (33, 1, 15), (34, 115, 0), (35, 12, 15)]
            cfg = {"mappings": [{"name": "M0", "midi": [{"sub": "", "code": c, "note": n, "off": o} for c, n, o in keys], "analog": [], "dz": [], "defdz": [], "subs": []}],
                   "actions": [{"code": 60, "action": "octave_up"}, {"code": 61, "action": "octave_down"}],
                   "exitseq": [], "cmode": cmode, "octave": 0, "semitone": 0, "channel": chan, "mapping": 0, "velocity": 64}
            for c, n, o in keys[:4]:
                out.append({"cfg": cfg, "abs": [], "events": [k(c, 1)], "tag": "template-extremes-held"})
                out.append({"cfg": cfg, "abs": [], "events": tap(c) + [k(c, 1)], "tag": "template-extremes-held"})
            out.append({"cfg": cfg, "abs": [], "events": [k(c, 1) for c, n, o in keys[:4]], "tag": "template-extremes-held"})
            out.append({"cfg": cfg, "abs": [], "events": tap(60) + [k(34, 1)], "tag": "template-extremes-held"})               # 115 + 12 = 127
            out.append({"cfg": cfg, "abs": [], "events": tap(61) + [k(35, 1)] + tap(60) + [k(30, 1)], "tag": "template-extremes-held"})   # 12 - 12 = 0
    # the complete exit chord is down (the application has been asked to terminate, the device lives on until it does): other keys released
    # meanwhile still release their notes
    for cmode in devgen.CMODES:
        for exitk in ([56, 1], [1, 56], [56, 1, 42]):
            m0 = [{"sub": "", "code": 30, "note": 60, "off": 0}, {"sub": "", "code": 31, "note": 64, "off": 0}, {"sub": "", "code": 56, "note": 54, "off": 0}]
            cfg = {"mappings": [{"name": "M0", "midi": m0, "analog": [], "dz": [], "defdz": [], "subs": []}], "actions": [{"code": 1, "action": "panic"}],
                   "exitseq": exitk, "cmode": cmode, "octave": 0, "semitone": 0, "channel": 1, "mapping": 0, "velocity": 64}
            ev = [k(30, 1), k(31, 1)] + [k(c, 1) for c in exitk] + [k(30, 0)] + [k(c, 0) for c in reversed(exitk)] + [k(31, 0)] + tap(30) + [k(30, 1)]
            out.append({"cfg": cfg, "abs": [], "events": ev, "tag": "template-exit-chord-down"})
            for j in range(3, len(ev)):
                out.append({"cfg": cfg, "abs": [], "events": ev[:j], "tag": "template-exit-chord-down"})
    # keys of NAMED sub-handlers (a pad's "Touchpad", a second keyboard interface) held at disconnect - alone, together with the same code on
    # the unnamed handler, after a tap
    for cmode in devgen.CMODES:
        m0 = [{"sub": "", "code": 30, "note": 60, "off": 0}, {"sub": "Touchpad", "code": 30, "note": 67, "off": 1},
              {"sub": "Touchpad", "code": 31, "note": 72, "off": 0}, {"sub": "aux", "code": 32, "note": 60, "off": 0}]
        cfg = {"mappings": [{"name": "M0", "midi": m0, "analog": [], "dz": [], "defdz": [], "subs": []}], "actions": [{"code": 60, "action": "octave_up"}],
               "exitseq": [], "cmode": cmode, "octave": 0, "semitone": 0, "channel": 1, "mapping": 0, "velocity": 64}
        T = "Touchpad"
        for ev in ([k(31, 1, T)], [k(30, 1, T)], [k(30, 1, ""), k(31, 1, T)], [k(31, 1, T), k(31, 0, T), k(31, 1, T)], [k(32, 1, "aux"), k(30, 1, "")],
                   [k(31, 1, T)] + tap(60), [k(30, 1, T), k(32, 1, "aux"), k(31, 1, T)]):
            out.append({"cfg": cfg, "abs": [], "events": ev, "tag": "template-named-handler-held"})
    return out


class C01(DevProp):
    pid = "C01"
    fail_term = "c01_failures k"
    mis_term = "c01_mismatch k"
    nontrivial_term = None
    soak = True
    monitor_name = "C01 monitor (nothing sounding whenever no key is down; nothing sounding after the disconnect clean-up)"
    correspondence_name = "C01 view (sounding set at quiescent points and after clean-up, State().Notes per event)"
    rule = ("alternating key histories over 1-3 mappings with shared pitches, all actions, all four collision modes; templates "
            "(hold, change state, overlap a second key on the old/new pitch, release in both orders, panic in between); for a subset every "
            "prefix is run as its own device and disconnected (stream closed) there; non-trivial = distinct cases with >= 2 keys down "
            "simultaneously and a state-changing action pressed while a note key was down")

    def nontrivial_py(self, case, res):
        acts = {a["code"] for a in case["cfg"]["actions"]}
        down, seen_overlap, seen_act = set(), False, False
        for e in case["events"]:
            if e["t"] != "k" or e["val"] == 2:
                continue
            if e["val"] == 1:
                if e["code"] in acts:
                    if any(d not in acts for d in down):
                        seen_act = True
                down.add(e["code"])
                if sum(1 for d in down if d not in acts) >= 2:
                    seen_overlap = True
            else:
                down.discard(e["code"])
        return seen_overlap and seen_act

    def perturb(self, case, res):
        # falsify: a Note On that nothing ever releases, sent with the last event
        if not res["steps"]:
            return None
        res["steps"][-1]["midi"].append([0x99, 3, 64])
        return res

    def gen(self, rng, tier):
        cases = templates(rng)
        n_rand = 220 if tier == "quick" else 6000
        n_pref = 25 if tier == "quick" else 400
        for i in range(n_rand):
            cases.append(self.soak_case(rng))
        for i in range(n_pref):
            cfg = devgen.gen_config(rng, with_exit=False)
            h = devgen.gen_history(rng, cfg, rng.randint(8, 22), p_action=0.35, repeats=False)
            for j in range(len(h) + 1):
                cases.append({"cfg": cfg, "abs": [], "events": h[:j], "tag": "disconnect-at-prefix"})
        for t in templates(rng)[:: (6 if tier == "quick" else 1)]:
            for j in range(len(t["events"]) + 1):
                cases.append({"cfg": t["cfg"], "abs": [], "events": t["events"][:j], "tag": "template-disconnect-at-prefix"})
        return cases

    def soak_case(self, rng):
        """one case of the 'random' stream (also the stream of the extracted-model soak); every case ends with the disconnect
        clean-up, half of them with keys still down"""
        cfg = devgen.gen_config(rng, with_exit=(rng.random() < 0.2))
        h = devgen.gen_history(rng, cfg, rng.randint(10, 70), p_action=rng.choice([0.2, 0.35, 0.5]))
        if rng.random() < 0.5:
            h = h + devgen.release_all(h)
        return {"cfg": cfg, "abs": [], "events": h, "tag": "random"}


class C01A(DevProp):
    """histories with key-emulating axes: quiescent = no key down and every such axis physically at rest"""
    pid = "C01"
    imports = "Model.AnalogF Model.AnalogSpec Run.AnalogRun"
    case_type = "c01acase"
    fail_term = "c01a_failures k"
    mis_term = "c01a_mismatch k"
    nontrivial_term = None
    monitor_name = "C01 monitor with key-emulating axes (nothing sounding whenever no key is down and every key-emulating axis is physically below 49 % of travel; nothing after clean-up)"
    correspondence_name = "C01 view (note messages of axis events and State().Notes)"
    rule = C01.rule

    def emit(self, case, res):
        import agen
        ax = clist(["(Build_c1axis %d %s%%Z %s%%Z %s %s)" % (x["code"], cZ(x["mn"]), cZ(x["mx"]), cbool(x["dzc"]), agen.fbits(x["dzbits"])) for x in case["axes"]])
        return "(Build_c01acase %s %s)" % (ax, agen.emit_acase(case, res))

    def evaluate(self, cases, results, tag):
        import math, devrun
        evals = [("FAIL", "enum_fail (fun k => %s) 0 cases" % self.fail_term),
                 ("MIS", "enum_some (fun k => %s) 0 cases" % self.mis_term),
                 ("NT", "enum_true (fun k => false) 0 cases")]
        n = max(3, min(20, math.ceil(len(cases) / 8)))
        return devrun.eval_shards(cases, results, evals, imports=self.imports, shard=n, emit=self.emit, case_type=self.case_type, tag=tag + "a")

    def nontrivial_py(self, case, res):
        return any(e["t"] == "a" for e in case["events"]) and any(st["midi"] for st in res["steps"])

    def known_signature(self, case, res):
        cfg = case["cfg"]
        keysim = {}
        for m in cfg["mappings"]:
            for an in m["analog"]:
                if an["type"] == "key":
                    keysim.setdefault((an["sub"], an["code"]), []).append(an)
        unstable = any(len(v) != len(cfg["mappings"]) or any(x != v[0] for x in v) for v in keysim.values())
        acts = {a_["code"]: a_["action"] for a_ in cfg["actions"]}
        switched = any(e["t"] == "k" and e["val"] == 1 and acts.get(e["code"]) in ("mapping_up", "mapping_down") for e in case["events"])
        return "K2-keysim-mapping-switch" if (unstable and switched) else None

    def gen(self, rng, tier):
        import agen
        from agen import bits
        cases = []
        ACT = {"octave_up": 59, "octave_down": 60, "semitone_up": 61, "channel_up": 63, "channel_down": 64, "mapping_up": 65, "mapping_down": 66, "panic": 67}

        def a(code, val):
            return {"t": "a", "sub": "", "code": code, "val": val}

        def mk(stable, n_ev, tag):
            kinds = [rng.choice([(-128, 127), (-32768, 32767), (0, 255), (-1, 1)]) for _ in range(rng.choice([1, 2]))]
            analogs, absl, axes = [], [], []
            dz = rng.choice([0.0, 0.0, 0.1])
            for i, (mn, mx) in enumerate(kinds):
                code = [agen.ABS_X, agen.ABS_HAT0X][i]
                analogs.append(agen.analog(code, "key", note=rng.choice([40, 60, 90]), noteneg=rng.choice([41, 61]), off=rng.choice([0, 3]), offneg=rng.choice([0, 5]),
                                           bidi=rng.random() < 0.8, flip=False))
                absl.append({"code": code, "min": mn, "max": mx})
                axes.append({"code": code, "mn": mn, "mx": mx, "dzc": False, "dzbits": bits(dz)})
            keys = [{"sub": "", "code": 16 + j, "note": rng.choice([60, 61, 72]), "off": 0} for j in range(3)]
            cfg = agen.base_cfg(analogs, defdz=[{"sub": "", "bits": str(bits(dz))}], keys=keys, actions=[{"code": c, "action": n_} for n_, c in ACT.items()],
                                cmode=rng.choice(devgen.CMODES), n_maps=2, channel=rng.randint(1, 16))
            if not stable:
                cfg["mappings"][1]["analog"] = []
            ev, down = [], set()
            for _ in range(n_ev):
                r = rng.random()
                if r < 0.45:
                    x = rng.choice(axes)
                    mn, mx = x["mn"], x["mx"]
                    ev.append(a(x["code"], rng.choice([mn, mx, 0 if mn < 0 else (mn + mx) // 2, int(mx * 0.8), int(mn * 0.8) if mn < 0 else mn + (mx - mn) // 10,
                                                       int(mx * 0.3) if mn < 0 else (mn + mx) // 2 + (mx - mn) // 10])))
                elif r < 0.7:
                    act = rng.choice(list(ACT.values()))
                    ev += [k(act, 1), k(act, 0)]
                else:
                    code = 16 + rng.randrange(3)
                    if code in down:
                        down.discard(code)
                        ev.append(k(code, 0))
                    else:
                        down.add(code)
                        ev.append(k(code, 1))
            for code in sorted(down):
                ev.append(k(code, 0))
            for x in axes:   # back to rest
                ev.append(a(x["code"], 0 if x["mn"] < 0 else (x["mn"] + x["mx"]) // 2))
            return {"cfg": cfg, "abs": absl, "events": ev, "axes": axes, "tag": tag}

        # K2 corpus witness: deflect, switch to a mapping that does not emulate keys on the axis, return to centre
        c = mk(False, 0, "corpus-K2")
        x = c["axes"][0]
        c["events"] = [a(x["code"], x["mx"]), k(65, 1), k(65, 0), a(x["code"], 0 if x["mn"] < 0 else (x["mn"] + x["mx"]) // 2)]
        cases.append(c)
        for i in range(60 if tier == "quick" else 1500):
            cases.append(mk(True, rng.randint(15, 50), "keysim-random"))
        return cases


def run(run_):
    C01().run(run_)
    if not run_.violations:
        cov1 = dict(run_.coverage)
        C01A().run(run_)
        cov2 = run_.coverage
        for k_ in ("evaluations", "distinct_nontrivial", "monitor_failures", "view_mismatches", "crashes"):
            cov2[k_] = cov1.get(k_, 0) + cov2.get(k_, 0)
        cov2["generator_distribution"] = {"key_histories": cov1.get("generator_distribution"), "axis_histories": cov2.get("generator_distribution")}
        cov2["samples"] = cov1.get("samples", []) + cov2.get("samples", [])[:1]
        cov2["correspondence_obligations"] = 4


def replay(run_, data):
    C01().replay(run_, data)
