"""C01: no stuck notes (quiescence and disconnect)."""
from common import *
import devgen
from devgen import ACTIONS
from devprop import DevProp


def k(code, val, sub=""):
    return {"t": "k", "sub": sub, "code": code, "val": val}


def tap(code):
    return [k(code, 1), k(code, 0)]


def templates(rng, cfg_proto=None):
    """hold A, change state, press B on A's old/new pitch, release in both orders, panic in between."""
    out = []
    for cmode in devgen.CMODES:
        for act in ["octave_up", "octave_down", "semitone_up", "channel_up", "mapping_up", "panic", "cc_learning"]:
            A, B, C = 30, 31, 32
            m0 = [{"sub": "", "code": A, "note": 60, "off": 0}, {"sub": "", "code": B, "note": 60, "off": 0},
                  {"sub": "", "code": C, "note": 48, "off": 0}]
            m1 = [{"sub": "", "code": B, "note": 60, "off": 0}, {"sub": "", "code": C, "note": 72, "off": 1}]
            cfg = {"mappings": [{"name": "M0", "midi": m0, "analog": [], "dz": [], "defdz": [], "subs": []},
                                {"name": "M1", "midi": m1, "analog": [], "dz": [], "defdz": [], "subs": []}],
                   "actions": [{"code": 59, "action": act}, {"code": 60, "action": "octave_up"}, {"code": 61, "action": "panic"}],
                   "exitseq": [], "cmode": cmode, "octave": 0, "semitone": 0, "channel": 1, "mapping": 0, "velocity": 64}
            for order in ([A, B], [B, A]):
                for second in (B, C):
                    for mid in ([], tap(61)):
                        ev = [k(A, 1)] + tap(59) + [k(second, 1)] + mid
                        rel = [A, second] if order[0] == A else [second, A]
                        ev += [k(rel[0], 0)] + tap(60) + [k(rel[1], 0)]
                        out.append({"cfg": cfg, "abs": [], "events": ev, "tag": "template"})
    return out


class C01(DevProp):
    pid = "C01"
    fail_term = "c01_failures k"
    mis_term = "c01_mismatch k"
    nontrivial_term = None
    monitor_name = "C01 monitor (nothing sounding whenever no key is down; nothing sounding after the disconnect clean-up)"
    correspondence_name = "C01 view (sounding set at quiescent points and after clean-up, State().Notes per event)"
    rule = ("alternating key histories over 1-3 mappings with shared pitches, all actions, all four collision modes; templates "
            "(hold, change state, overlap a second key on the old/new pitch, release in both orders, panic in between); for a subset every "
            "prefix is run as its own device and disconnected (stream closed) there; non-trivial = distinct cases with >= 2 keys down "
            "simultaneously and a state-changing action pressed while a note key was down")

    def nontrivial_py(self, case, res):
        acts = {a["code"] for a in case["cfg"]["actions"]}
        down, seen_overlap, seen_act = set(), False, False
        for e in case["events"]:
            if e["t"] != "k" or e["val"] == 2:
                continue
            if e["val"] == 1:
                if e["code"] in acts:
                    if any(d not in acts for d in down):
                        seen_act = True
                down.add(e["code"])
                if sum(1 for d in down if d not in acts) >= 2:
                    seen_overlap = True
            else:
                down.discard(e["code"])
        return seen_overlap and seen_act

    def gen(self, rng, tier):
        cases = templates(rng)
        n_rand = 220 if tier == "quick" else 6000
        n_pref = 25 if tier == "quick" else 400
        for i in range(n_rand):
            cfg = devgen.gen_config(rng, with_exit=(rng.random() < 0.2))
            h = devgen.gen_history(rng, cfg, rng.randint(10, 70), p_action=rng.choice([0.2, 0.35, 0.5]))
            if rng.random() < 0.5:
                h = h + devgen.release_all(h)
            cases.append({"cfg": cfg, "abs": [], "events": h, "tag": "random"})
        for i in range(n_pref):
            cfg = devgen.gen_config(rng, with_exit=False)
            h = devgen.gen_history(rng, cfg, rng.randint(8, 22), p_action=0.35, repeats=False)
            for j in range(len(h) + 1):
                cases.append({"cfg": cfg, "abs": [], "events": h[:j], "tag": "disconnect-at-prefix"})
        for t in templates(rng)[:: (6 if tier == "quick" else 1)]:
            for j in range(len(t["events"]) + 1):
                cases.append({"cfg": t["cfg"], "abs": [], "events": t["events"][:j], "tag": "template-disconnect-at-prefix"})
        return cases


def run(run_):
    C01().run(run_)


def replay(run_, data):
    C01().replay(run_, data)
