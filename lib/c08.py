"""C08: analog key emulation lifecycle."""
import itertools
from common import *
import devgen, agen
from agen import bits
from devprop import DevProp

ACT = {"octave_up": 59, "octave_down": 60, "semitone_up": 61, "semitone_down": 62, "channel_up": 63, "channel_down": 64, "cc_learning": 65}


def a(code, val, sub=""):
    return {"t": "a", "sub": sub, "code": code, "val": val}


def k(code, val):
    return {"t": "k", "sub": "", "code": code, "val": val}


def zone_raws(mn, mx):
    """raw values landing in each zone (deadzone 0): Neg, Gap-, Mid, Gap+, Pos; a gap value may not exist on coarse axes"""
    if mn < 0:
        z = {"Neg": [mn, int(mn * 0.75), -(-mn // 2)], "Mid": [0, int(mx * 0.3), int(mn * 0.3)], "Pos": [mx, int(mx * 0.75), -(-mx // 2) + 1]}
        g = [v for v in range(int(mx * 0.485), int(mx * 0.505) + 1) if 0.49 <= v / mx < 0.5]
        gn = [v for v in range(int(mn * 0.505), int(mn * 0.485) + 1) if 0.49 <= v / mn < 0.5]
    else:
        span = mx - mn
        z = {"Neg": [mn, mn + span // 8, mn + span // 4], "Mid": [mn + span // 2, mn + int(span * 0.4), mn + int(span * 0.6)],
             "Pos": [mx, mx - span // 8, mn + (3 * span) // 4 + 1]}
        g = [v for v in range(mn, mx + 1) if 0.49 <= (v / mx) * 2 - 1 < 0.5][:3] if span <= 70000 else []
        gn = [v for v in range(mn, mx + 1) if 0.49 <= -((v / mx) * 2 - 1) < 0.5][:3] if span <= 70000 else []
    z["Gap+"] = g[:3]
    z["Gap-"] = gn[:3]
    # positions hugging the thresholds 0.49 and 0.5 from both sides (they tie the model's zone constants to the code's literals)
    span = mx - mn
    for frac in (0.4849, 0.4875, 0.4899, 0.4901, 0.4999, 0.5001):
        for sgn in (1, -1):
            raw = int(sgn * frac * (mx if sgn > 0 else -mn)) if mn < 0 else int(mn + span * (0.5 + sgn * frac / 2))
            if mn <= raw <= mx:
                z["Mid" if frac < 0.49 else ("Pos" if sgn > 0 else "Neg") if frac >= 0.5 else ("Gap+" if sgn > 0 else "Gap-")].append(raw)
    return z


class C08(DevProp):
    pid = "C08"
    imports = "Model.AnalogF Run.AnalogRun"
    case_type = "c08case"
    fail_term = "c08_failures k"
    mis_term = "c08_mismatch (c8_k k)"
    nontrivial_term = "c08_notes k"
    monitor_name = ("C08 monitor (per axis event: note messages equal the lifecycle rule - on at half travel once, off below 49 %, nothing in between, "
                    "silent without a configured note, Note Off = recorded pair - with transposition/channel read from State(); never both directions)")
    correspondence_name = "C08 view (note messages of axis events and State().Notes)"
    rule = ("hat (-1/0/1) and stick axes (8/16-bit), signed and unsigned, flipped or not, with and without a negative note, distinct notes and channel "
            "offsets; direction scripts containing every ordered pair of {Neg, Gap-, Mid, Gap+, Pos}; octave/semitone/channel actions interleaved "
            "(also while a direction is on); non-trivial = distinct cases in which key emulation produced note messages")

    def emit(self, case, res):
        return "(Build_c08case %s)" % agen.emit_acase(case, res)

    def evaluate(self, cases, results, tag):
        import math, devrun
        evals = [("FAIL", "enum_fail (fun k => %s) 0 cases" % self.fail_term),
                 ("MIS", "enum_some (fun k => %s) 0 cases" % self.mis_term),
                 ("NT", "enum_true (fun k => %s) 0 cases" % self.nontrivial_term)]
        n = max(3, min(20, math.ceil(len(cases) / 8)))
        return devrun.eval_shards(cases, results, evals, imports=self.imports, shard=n, emit=self.emit, case_type=self.case_type, tag=tag)

    def gen(self, rng, tier):
        cases = []
        n = 48 if tier == "quick" else 1500
        zones = ["Neg", "Gap-", "Mid", "Gap+", "Pos"]
        allpairs = list(itertools.product(zones, zones))
        for ci in range(n):
            kind = ["hat", "s8", "s16", "u8", "u16", "s16"][ci % 6]
            mn, mx = {"hat": (-1, 1), "s8": (-128, 127), "s16": (-32768, 32767), "u8": (0, 255), "u16": (0, 65535)}[kind]
            flip = (ci // 6) % 2 == 1
            with_neg = (ci // 12) % 3 != 2
            note, noteneg = rng.choice([0, 3, 36, 60, 100, 124, 127]), rng.choice([1, 2, 48, 72, 125, 126])
            # unsigned axes: with and without deadzone_at_center (re-centred by the dead-zone shaping instead of by the emulation branch)
            an = agen.analog(agen.ABS_HAT0X if kind == "hat" else agen.ABS_X, "key", note=note, noteneg=(noteneg if with_neg else 0),
                             off=rng.choice([0, 2, 15]), offneg=rng.choice([0, 5]), flip=flip, bidi=with_neg,
                             dzc=(mn == 0 and (ci // 2) % 2 == 1))
            code = an["code"]
            other = agen.analog(agen.ABS_Y, "key", note=64, noteneg=65, off=1, offneg=1, bidi=True)
            absl = [{"code": code, "min": mn, "max": mx}, {"code": agen.ABS_Y, "min": -128, "max": 127}]
            dz = rng.choice([0.0, 0.0, 0.1])
            cfg = agen.base_cfg([an, other], defdz=[{"sub": "", "bits": str(bits(dz))}], actions=[{"code": c, "action": n_} for n_, c in ACT.items()],
                                cmode=devgen.CMODES[(ci // 5) % 4], channel=rng.randint(1, 16), octave=rng.choice([0, 0, 1, -1, 5, 10, -10, 11, -11, 12, -12, 17]), semitone=rng.choice([0, 0, 3, 9, -9]))
            if ci % 8 in (3, 7):
                # the lowest pair the tracker can hold: note 0 on the first channel (index 0) - a zero value that must not be mistaken for
                # "nothing tracked"; reached directly or through transposition
                base = rng.choice([0, 12, 24])
                an["note"], an["off"] = base, 0
                if with_neg:
                    an["noteneg"], an["offneg"] = base, 0
                cfg["channel"], cfg["octave"], cfg["semitone"] = 1, -(base // 12), 0
            zr = zone_raws(mn, mx)
            script = list(allpairs)
            rng.shuffle(script)
            script = script[: (18 if tier == "quick" else 25)]
            ev = []
            for (p, q) in script:
                for zname in (p, q):
                    vals = zr[zname]
                    if not vals:
                        continue
                    ev.append(a(code, rng.choice(vals)))
                    if rng.random() < 0.25:
                        act = rng.choice(list(ACT.values()))
                        ev += [k(act, 1), k(act, 0)]
                    elif rng.random() < 0.08:      # up/down chord: the pair reset takes a code path of its own
                        up, down = rng.choice([(59, 60), (61, 62), (63, 64)])
                        first, second = (up, down) if rng.random() < 0.5 else (down, up)
                        ev += [k(first, 1), k(second, 1), k(first, 0), k(second, 0)]
                    if rng.random() < 0.1:
                        ev.append(a(agen.ABS_Y, rng.choice([-128, 0, 127, 60, -60])))
            ev += [a(code, zr["Mid"][0]), a(agen.ABS_Y, 0)]
            cases.append({"cfg": cfg, "abs": absl, "events": ev, "tag": kind + ("-flip" if flip else "") + ("" if with_neg else "-noneg")})
        # level-triggered, not edge-triggered: a direction entered while its note is out of range (silent), the transposition brought back in
        # range with the stick still deflected, then ANOTHER report beyond half travel in the same direction: the note must come on now
        for cmode in devgen.CMODES[:2]:
            for kind, (mn, mx) in (("s16", (-32768, 32767)), ("u8", (0, 255)), ("s8", (-128, 127))):
                for neg in (False, True):
                    an = agen.analog(agen.ABS_X, "key", note=120, noteneg=5, off=0, offneg=2, bidi=True)
                    cfg = agen.base_cfg([an], actions=[{"code": c, "action": n_} for n_, c in ACT.items()], cmode=cmode, channel=2)
                    zr = zone_raws(mn, mx)
                    z = zr["Neg" if neg else "Pos"]
                    away, back = (ACT["octave_down"], ACT["octave_up"]) if neg else (ACT["octave_up"], ACT["octave_down"])
                    ev = [k(away, 1), k(away, 0), a(agen.ABS_X, z[0]), k(back, 1), k(back, 0), a(agen.ABS_X, z[1]), a(agen.ABS_X, z[0]),
                          a(agen.ABS_X, zr["Mid"][0]), a(agen.ABS_X, z[1]), a(agen.ABS_X, zr["Mid"][0])]
                    cases.append({"cfg": cfg, "abs": [{"code": agen.ABS_X, "min": mn, "max": mx}], "events": ev, "tag": "out-of-range-at-entry"})
        # axes are independent: several emulating axes whose code numbers are prefixes of one another as decimal strings (1 / 16 / 17, 2 / 24 /
        # 26) - every ordered pair: one held while the other reports centre, a direction, centre again
        codes = [agen.ABS_Y, agen.ABS_HAT0X, agen.ABS_HAT0Y, agen.ABS_Z, 24, 26]
        ans = [agen.analog(c, "key", note=40 + 3 * i, noteneg=41 + 3 * i, off=i % 3, offneg=(i + 1) % 3, bidi=True) for i, c in enumerate(codes)]
        cfgi = agen.base_cfg(ans, actions=[{"code": c, "action": n_} for n_, c in ACT.items()], cmode="interrupt", channel=1)
        absi = [{"code": c, "min": -1, "max": 1} for c in codes]
        for x in codes:
            ev = []
            for y in codes:
                if x != y:
                    ev += [a(x, 1), a(y, 0), a(y, -1), a(y, 0), a(y, 1), a(x, -1), a(y, 0), a(x, 0)]
            cases.append({"cfg": cfgi, "abs": absi, "events": ev, "tag": "independent-axes"})
        # two sources on one pitch: two emulating axes whose notes coincide only after a transposition between the deflections, and an
        # emulating axis against an ordinary key on the same (channel, pitch) - in every collision mode (the lifecycle of an emulated key is
        # its own: on at half travel, off on the way back, Note Off = the pair that was sent), every release order
        HX, HY, KEY = agen.ABS_HAT0X, agen.ABS_HAT0Y, 30
        for cmode in devgen.CMODES:
            for order in range(4):
                ax = agen.analog(HX, "key", note=60, noteneg=57, bidi=True)
                ay = agen.analog(HY, "key", note=62, noteneg=59, off=0, bidi=True)
                cfg = agen.base_cfg([ax, ay], keys=[{"sub": "", "code": KEY, "note": 62, "off": 0}], cmode=cmode,
                                    actions=[{"code": c, "action": n_} for n_, c in ACT.items()], channel=3)
                absl = [{"code": HX, "min": -1, "max": 1}, {"code": HY, "min": -1, "max": 1}]
                up2 = [k(61, 1), k(61, 0)] * 2
                down2 = [k(62, 1), k(62, 0)] * 2
                rel = [[a(HY, 0), a(HX, 0)], [a(HX, 0), a(HY, 0)]][order % 2]
                if order < 2:       # axis against axis
                    ev = [a(HY, 1)] + up2 + [a(HX, 1)] + rel + [a(HX, 1), a(HX, 0)] + down2 + [a(HY, 1), a(HY, 0), a(HX, 1), a(HX, 0)]
                else:               # key against axis, both orders of engaging
                    first = [k(KEY, 1), a(HY, 1)] if order == 2 else [a(HY, 1), k(KEY, 1)]
                    ev = first + [a(HY, 0), k(KEY, 0), a(HY, 1), a(HY, 0), k(KEY, 1), k(KEY, 0)] + first + [k(KEY, 0), a(HY, 0), a(HY, -1), a(HY, 0)]
                cases.append({"cfg": cfg, "abs": absl, "events": ev, "tag": "two-sources-one-pitch"})
        return cases


def run(run_):
    C08().run(run_)


def replay(run_, data):
    p = C08()
    case = data["replay"].get("case")
    p.run(run_, cases=[case] if case else None)
