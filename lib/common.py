"""Shared machinery for the HIDI checks: Go overlay builds, running the Coq model, evidence, replays."""
import atexit, glob, hashlib, json, os, re, shutil, subprocess, sys, time
from concurrent.futures import ThreadPoolExecutor

VERIF = os.path.dirname(os.path.dirname(os.path.abspath(__file__)))
REPO = os.environ.get("VERIF_REPO", "/repo")
COQ = os.path.join(VERIF, "coq")
WORKROOT = os.path.join(VERIF, ".work")
# evaluation of scratch worktrees (seeded / benign changes): VERIF_REPO points at the worktree and VERIF_SCRATCH_OUT at a
# directory that receives evidence/ and replays/ instead of /verif's own (which describe /repo only)
OUTROOT = os.environ.get("VERIF_SCRATCH_OUT", VERIF)
WORK = os.path.join(WORKROOT, "run-%d" % os.getpid())
GOENV = dict(os.environ, GOFLAGS="-mod=mod", GOPROXY="off", GOSUMDB="off", GOTOOLCHAIN="local",
             CGO_ENABLED=os.environ.get("CGO_ENABLED", "1"))

# harness dir -> package path inside /repo
PKGS = {
    "config": "internal/pkg/midi/device/config",
    "device": "internal/pkg/midi/device",
    "input": "internal/pkg/input",
    "utils": "internal/pkg/utils",
    "midi": "internal/pkg/midi",
    "main": "cmd/hidi",
}
ALSA_STUB = os.path.join(VERIF, "harness/go/alsa_stub/alsa.go")


def workdir():
    os.makedirs(WORK, exist_ok=True)
    return WORK


def _cleanup():
    shutil.rmtree(WORK, ignore_errors=True)


atexit.register(_cleanup)


class CheckError(Exception):
    """Machinery failure that is not a verdict (e.g. Coq development does not build)."""


# ----------------------------------------------------------------------------- Go side

def overlay_file():
    w = workdir()
    repl = {}
    for d, pkg in PKGS.items():
        for f in sorted(glob.glob(os.path.join(VERIF, "harness/go", d, "*.go"))):
            repl[os.path.join(REPO, pkg, os.path.basename(f))] = f
    if os.path.exists(ALSA_STUB):
        repl[os.path.join(REPO, "internal/pkg/midi/driver/alsa/alsa.go")] = ALSA_STUB
    p = os.path.join(w, "overlay.json")
    with open(p, "w") as fh:
        json.dump({"Replace": repl}, fh)
    return p


def go_build(hdir, race=False):
    """Build the in-package test binary of PKGS[hdir] from /repo's working tree with the verif overlay.
    Returns (path, None) or (None, error text)."""
    w = workdir()
    out = os.path.join(w, "%s%s.test" % (hdir, "-race" if race else ""))
    if os.path.exists(out):
        return out, None
    cmd = ["go", "test", "-c", "-vet=off", "-tags", "verif", "-overlay", overlay_file(), "-o", out]
    if race:
        cmd.append("-race")
    if os.environ.get("VERIF_COVER"):      # diagnostic only (lib/coverage.py): statement coverage of /repo under a check's harness runs
        cmd += ["-cover"]
    cmd.append("./" + PKGS[hdir])
    r = subprocess.run(cmd, cwd=REPO, env=GOENV, capture_output=True, text=True, timeout=900)
    if r.returncode != 0 or not os.path.exists(out):
        return None, (r.stdout + r.stderr)[-4000:]
    return out, None


_seq = [0]


def run_harness(binary, mode, inp, timeout=600, env_extra=None, cwd=None, flags=True, prefix=None):
    """Run one harness mode: JSON in, JSON out. Returns (obj, None) or (None, error text)."""
    w = workdir()
    _seq[0] += 1
    fin = os.path.join(w, "in-%s-%d.json" % (mode, _seq[0]))
    fout = os.path.join(w, "out-%s-%d.json" % (mode, _seq[0]))
    with open(fin, "w") as fh:
        json.dump(inp, fh)
    env = dict(GOENV, VERIF_MODE=mode, VERIF_IN=fin, VERIF_OUT=fout)
    if env_extra:
        env.update(env_extra)
    cmd = (prefix or []) + [binary]
    if flags:
        cmd += ["-test.run", "^TestVerif$", "-test.count=1", "-test.timeout", "%ds" % (timeout + 30)]
        if os.environ.get("VERIF_COVER"):
            os.makedirs(os.environ["VERIF_COVER"], exist_ok=True)
            cmd += ["-test.coverprofile", os.path.join(os.environ["VERIF_COVER"], "%s-%d-%d.out" % (mode, os.getpid(), _seq[0]))]
    try:
        r = subprocess.run(cmd, env=env, cwd=cwd or w, capture_output=True, text=True, timeout=timeout + 60)
    except subprocess.TimeoutExpired:
        return None, "harness timeout after %ds" % timeout
    if not os.path.exists(fout):
        txt = r.stdout + r.stderr
        return None, "harness produced no output (exit %d): %s%s" % (r.returncode, txt[:1500] + ("\n[...]\n" if len(txt) > 4500 else ""),
                                                                     txt[1500:][-3000:] if len(txt) > 1500 else "")
    try:
        with open(fout) as fh:
            obj = json.load(fh)
    except Exception as e:  # noqa
        return None, "harness output unreadable: %s" % e
    obj["_exit"] = r.returncode
    obj["_stderr"] = (r.stdout + r.stderr)[-2000:]
    os.unlink(fin)
    os.unlink(fout)
    return obj, None


# ----------------------------------------------------------------------------- Coq side

FORBIDDEN = re.compile(r"\b(Admitted|admit|Axiom|Axioms|Parameter|Parameters|Conjecture|Conjectures|Admit Obligations|"
                       r"Unset Guard Checking|Unset Positivity Checking|Unset Universe Checking|bypass_check|"
                       r"type-in-type|impredicative-set|native_compute)\b")


def strip_comments(src):
    out, depth, i = [], 0, 0
    while i < len(src):
        if src.startswith("(*", i):
            depth += 1
            i += 2
        elif src.startswith("*)", i) and depth:
            depth -= 1
            i += 2
        else:
            if depth == 0:
                out.append(src[i])
            i += 1
    return "".join(out)


def scan_forbidden():
    bad = []
    for f in sorted(glob.glob(os.path.join(COQ, "theories/**/*.v"), recursive=True)) + [os.path.join(COQ, "_CoqProject")]:
        src = strip_comments(open(f).read())
        for m in FORBIDDEN.finditer(src):
            bad.append("%s: %s" % (os.path.relpath(f, VERIF), m.group(0)))
        # Variable/Hypothesis outside a section
        depth = 0
        for line in src.split("\n"):
            s = line.strip()
            if re.match(r"^Section\b", s):
                depth += 1
            elif re.match(r"^End\b", s) and depth:
                depth -= 1
            elif depth == 0 and re.match(r"^(Variable|Variables|Hypothesis|Hypotheses|Context)\b", s):
                bad.append("%s: %s outside a section" % (os.path.relpath(f, VERIF), s.split()[0]))
    return bad


def ensure_coq_built():
    """Full .vo build (no -vos). Returns the make log."""
    if not os.path.exists(os.path.join(COQ, "Makefile")):
        subprocess.run(["coq_makefile", "-f", "_CoqProject", "-o", "Makefile"], cwd=COQ, check=True,
                       capture_output=True)
    os.makedirs(WORKROOT, exist_ok=True)
    r = subprocess.run(["flock", os.path.join(WORKROOT, "make.lock"), "make", "-j16"], cwd=COQ, capture_output=True,
                       text=True, timeout=3600)
    if r.returncode != 0:
        raise CheckError("Coq development does not build:\n" + (r.stdout + r.stderr)[-3000:])
    return r.stdout


def coqc(vfile, timeout=900, mem_gb=12):
    cmd = "ulimit -v %d; exec coqc -q -Q %s HIDI -w none %s" % (mem_gb * 1024 * 1024, os.path.join(COQ, "theories"), vfile)
    try:
        r = subprocess.run(["bash", "-c", cmd], cwd=os.path.dirname(vfile), capture_output=True, text=True,
                           timeout=timeout)
    except subprocess.TimeoutExpired:
        return 124, "", "coqc timeout"
    return r.returncode, r.stdout, r.stderr


def coq_eval(name, body, timeout=900):
    """Compile a generated file in the work dir; returns stdout (raises CheckError on failure)."""
    w = workdir()
    vfile = os.path.join(w, name + ".v")
    with open(vfile, "w") as fh:
        fh.write(body)
    rc, out, err = coqc(vfile, timeout)
    for ext in (".vo", ".vok", ".vos", ".glob"):
        try:
            os.unlink(os.path.join(w, name + ext))
        except OSError:
            pass
    try:
        os.unlink(os.path.join(w, "." + name + ".aux"))
    except OSError:
        pass
    if rc != 0:
        raise CheckError("coqc failed on %s: %s" % (vfile, (out + err)[-3000:]))
    os.unlink(vfile)
    return out


def coq_eval_many(items, timeout=900, jobs=8):
    """items: list of (name, body) -> list of stdout, evaluated in parallel."""
    with ThreadPoolExecutor(max_workers=jobs) as ex:
        return list(ex.map(lambda nb: coq_eval(nb[0], nb[1], timeout), items))


def property_theorems(pid):
    f = os.path.join(COQ, "theories/Properties/%s.v" % pid)
    src = strip_comments(open(f).read())
    return re.findall(r"^\s*(?:Theorem|Corollary|Lemma)\s+([A-Za-z0-9_']+)", src, re.M)


def check_theorems(pid):
    """Re-open the compiled property file and ask the kernel for each theorem's assumptions.
    Returns dict: theorem -> list of axioms ([] = closed under the global context)."""
    names = property_theorems(pid)
    body = "Require Import HIDI.Properties.%s.\n" % pid
    for n in names:
        body += 'Goal True. idtac "@@THM %s". exact I. Qed.\nPrint Assumptions %s.\n' % (n, n)
    out = coq_eval("thms_%s" % pid, body)
    res, cur = {}, None
    for line in out.split("\n"):
        m = re.match(r"@@THM (\S+)", line)
        if m:
            cur = m.group(1)
            res[cur] = []
            continue
        if cur is None or not line.strip():
            continue
        if "Closed under the global context" in line or line.startswith("Axioms:"):
            continue
        # an axiom is printed as "Qualified.name : type" with the type possibly continued on indented lines
        # (for long names the " :" itself moves to the next line)
        m = re.match(r"^([A-Za-z_][A-Za-z0-9_.']*)\s*(:|$)", line)
        if m and not line.startswith(" "):
            res[cur].append(m.group(1))
    missing = [n for n in names if n not in res]
    if missing:
        raise CheckError("theorems not found after build: %s" % missing)
    return res


# C05 / C06 also contain the grid evaluations (Proofs/AnalogGrid*.v, AnalogProofs.v): coqchk re-checks their vm casts with its own
# slow reduction (hours), so for these two the independent checker runs on the modules holding the general (non-grid) proofs;
# the grid lemmas are checked by coqc's kernel (full .vo build) only.
COQCHK_MODULES = {
    "C05": ["HIDI.Proofs.DeviceWf", "HIDI.Proofs.ParserDevice", "HIDI.Proofs.AnalogEndstop", "HIDI.Proofs.AnalogGeneral2"],
    "C06": ["HIDI.Proofs.AnalogEndstop", "HIDI.Proofs.AnalogGeneral", "HIDI.Proofs.AnalogGeneral2"],
}


def coqchk(pid, timeout=3000):
    """Independent re-check of the compiled property module and everything it depends on (thorough tier).
    Returns the list of axioms coqchk reports for the whole context ([] = none)."""
    mods = list(COQCHK_MODULES.get(pid, ["HIDI.Properties.%s" % pid]))
    # coqchk runs for a long time: it works on a snapshot of the compiled files (taken under the build lock) so that it neither
    # blocks nor is disturbed by a concurrent build
    snap = os.path.join(workdir(), "vo-snapshot")
    shutil.rmtree(snap, ignore_errors=True)
    os.makedirs(os.path.join(snap, "theories"))
    r = subprocess.run(["flock", "-s", os.path.join(WORKROOT, "make.lock"), "rsync", "-a", "--include=*/", "--include=*.vo",
                        "--exclude=*", os.path.join(COQ, "theories") + "/", os.path.join(snap, "theories") + "/"],
                       capture_output=True, text=True, timeout=600)
    if r.returncode != 0:
        raise CheckError("cannot snapshot the compiled files for coqchk: " + r.stderr[-500:])
    try:
        r = subprocess.run(["coqchk", "-silent", "-o", "-Q", "theories", "HIDI"] + mods, cwd=snap, capture_output=True, text=True,
                           timeout=timeout)
    except subprocess.TimeoutExpired:
        raise CheckError("coqchk did not finish within %d s on %s" % (timeout, mods))
    finally:
        shutil.rmtree(snap, ignore_errors=True)
    out = r.stdout + r.stderr
    if r.returncode != 0:
        raise CheckError("coqchk rejects Properties/%s.vo:\n%s" % (pid, out[-2000:]))
    m = re.search(r"\* Axioms:(.*?)\n\s*\n\* ", out, re.S)
    if not m:
        raise CheckError("cannot read coqchk's context summary:\n" + out[-1500:])
    body = m.group(1).strip()
    for bad in ("type-in-type", "unsafe (co)fixpoints", "positivity is assumed"):
        mm = re.search(re.escape(bad) + r":\s*(\S+)", out)
        if mm and mm.group(1) != "<none>":
            raise CheckError("coqchk: development relies on %s" % bad)
    if body == "<none>":
        return [], mods
    return [l.strip() for l in body.split("\n") if l.strip()], mods


# ---- parsing Coq terms printed by vm_compute (lists, tuples, numbers, constructors)

_tok = re.compile(r"\s*(\[|\]|\(|\)|;|,|-?\d+|[A-Za-z_][A-Za-z0-9_.']*|%[A-Za-z_]+|\"(?:[^\"]|\"\")*\")")


def parse_coq_term(text):
    toks = [t for t in _tok.findall(text) if not t.startswith("%")]
    pos = [0]

    def atom():
        t = toks[pos[0]]
        pos[0] += 1
        if t == "[":
            items = []
            if toks[pos[0]] == "]":
                pos[0] += 1
                return items
            while True:
                items.append(app())
                t2 = toks[pos[0]]
                pos[0] += 1
                if t2 == "]":
                    return items
                assert t2 == ";", t2
        if t == "(":
            items = [app()]
            while toks[pos[0]] == ",":
                pos[0] += 1
                items.append(app())
            assert toks[pos[0]] == ")", toks[pos[0]]
            pos[0] += 1
            return items[0] if len(items) == 1 else tuple(items)
        if re.match(r"-?\d+$", t):
            return int(t)
        if t.startswith('"'):
            return t[1:-1].replace('""', '"')
        if t == "true":
            return True
        if t == "false":
            return False
        if t == "None":
            return None
        return {"c": t}

    def app():
        head = atom()
        args = []
        while pos[0] < len(toks) and toks[pos[0]] not in ("]", ")", ";", ","):
            args.append(atom())
        if args:
            if isinstance(head, dict) and head["c"] == "Some" and len(args) == 1:
                return ("Some", args[0])
            return {"c": head["c"] if isinstance(head, dict) else head, "args": args}
        return head

    v = app()
    return v


def extract_defs(out):
    """From coqc output containing 'NAME = term : type' blocks (Print of constants) return {NAME: parsed term}."""
    res = {}
    flat = re.sub(r"\s+", " ", out)
    for m in re.finditer(r"(?:^| )([A-Za-z_][A-Za-z0-9_']*) = (.*?) : [a-zA-Z(]", flat):
        name, term = m.group(1), m.group(2)
        try:
            res[name] = parse_coq_term(term)
        except Exception:  # noqa
            res[name] = ("UNPARSED", term)
    return res


# ----------------------------------------------------------------------------- Coq literals

def cN(n):
    return str(int(n))


def cZ(n):
    n = int(n)
    return "(%d)" % n if n < 0 else str(n)


def cbool(b):
    return "true" if b else "false"


def clist(items):
    return "[" + "; ".join(items) + "]"


def copt(x, f=lambda v: v):
    return "None" if x is None else "(Some %s)" % f(x)


def cbytes(bs):
    return clist([cN(b) for b in bs])


# ----------------------------------------------------------------------------- verdicts, evidence, replays

def load_known():
    p = os.path.join(VERIF, "known_findings.json")
    if not os.path.exists(p):
        return []
    return json.load(open(p)).get("findings", [])


class Run:
    def __init__(self, pid, tier, seed):
        self.pid, self.tier, self.seed = pid, tier, seed
        self.t0 = time.time()
        self.violations = []   # list of dict(kind, what, replay-object)
        self.known_hits = []
        self.coverage = {}
        self.assumptions = []
        self.thm_axioms = {}

    def proof_obligations(self):
        """Checks the Coq side: forbidden constructs, build, theorems of Properties/<pid>.v present with axiom lists."""
        bad = scan_forbidden()
        if bad:
            raise CheckError("forbidden constructs in the Coq development: %s" % bad[:5])
        ensure_coq_built()
        self.thm_axioms = check_theorems(self.pid)
        if self.tier == "thorough":
            ax, mods = coqchk(self.pid)
            allowed = {a for v in self.thm_axioms.values() for a in v}
            extra = [a for a in ax if a.split()[0].replace("Coq.Logic.", "").replace("Coq.Reals.", "") not in allowed]
            self.coverage["coqchk"] = {"cmd": "coqchk -silent -o -Q theories HIDI " + " ".join(mods),
                                       "axioms_in_context": ax or "none",
                                       "note": ("grid modules (kernel evaluation, AnalogGrid*/AnalogProofs) are not re-checked by coqchk"
                                                if self.pid in COQCHK_MODULES else "whole property module and its dependencies")}
            if extra:
                raise CheckError("coqchk reports axioms that Print Assumptions did not: %s" % extra)
        return self.thm_axioms

    def violation(self, what, replay, no_input=False, signature=None):
        """Register a violation unless it matches a known finding (by signature id)."""
        for k in load_known():
            if k.get("property") == self.pid and k.get("status") == "known" and signature is not None \
                    and k.get("id") == signature:
                if k["id"] not in [h["id"] for h in self.known_hits]:
                    self.known_hits.append(k)
                return False
        self.violations.append({"what": what, "replay": replay, "no_input": no_input})
        return True

    def finish(self, level="proof"):
        wall = time.time() - self.t0
        for k in self.known_hits:
            print("KNOWN-FINDING: property=%s %s: %s" % (self.pid, k["id"], k["what"]))
        rc = 0
        if self.violations:
            rc = 1
            os.makedirs(os.path.join(OUTROOT, "replays"), exist_ok=True)
            seen = 0
            for i, v in enumerate(self.violations[:5]):
                path = os.path.join(OUTROOT, "replays", "%s-%d-%d.json" % (self.pid, self.seed, i))
                with open(path, "w") as fh:
                    json.dump({"property": self.pid, "seed": self.seed, "tier": self.tier, "what": v["what"],
                               "no_failing_input_found": v["no_input"], "replay": v["replay"]}, fh, indent=1)
                print("VIOLATION property=%s replay=%s%s" % (self.pid, path,
                                                             " no-failing-input-found" if v["no_input"] else ""))
                print("  " + v["what"][:400])
                seen += 1
        cov = dict(self.coverage)
        thms = self.thm_axioms
        axioms = sorted({a for v in thms.values() for a in v})
        n_corr = cov.pop("correspondence_obligations", 1)
        n_corr_ok = cov.pop("correspondence_discharged", 0 if self.violations else n_corr)
        cov.setdefault("obligations", len(thms) + n_corr)
        cov.setdefault("discharged", len(thms) + n_corr_ok)
        cov.setdefault("checker_cmd", "make -C /verif/coq (coqc 8.16.1, full .vo build) + coqc Print Assumptions on "
                                      "Properties/%s.v + coqc vm_compute on generated cases" % self.pid)
        tb = ["Coq 8.16.1 kernel and bytecode VM (vm_compute); no native_compute",
              "axioms reported by Print Assumptions for Properties/%s.v: %s" % (self.pid, ", ".join(axioms) if axioms else "none (closed under the global context)"),
              "hand-written Gallina model tied to /repo by the per-run correspondence check (Go overlay harness, python emitters)",
              ] + self.assumptions
        cov.setdefault("trusted_base", tb)
        cov["theorems"] = {k: (v if v else "closed") for k, v in thms.items()}
        ev = {"property_id": self.pid, "tier": self.tier, "seed": self.seed, "level": level, "coverage": cov,
              "assumptions": self.assumptions, "wall_s": round(wall, 2), "violations": len(self.violations),
              "known_findings_reported": [k["id"] for k in self.known_hits]}
        os.makedirs(os.path.join(OUTROOT, "evidence"), exist_ok=True)
        with open(os.path.join(OUTROOT, "evidence", "%s.json" % self.pid), "w") as fh:
            json.dump(ev, fh, indent=1, sort_keys=True)
        return rc
