#!/usr/bin/env python3
"""Regenerates /verif/MANIFEST.json from the table below (keeps it valid at all times)."""
import json, os, sys
HERE = os.path.dirname(os.path.dirname(os.path.abspath(__file__)))
BASE = open('/root/.vp/BASELINE.json').read() if os.path.exists('/root/.vp/BASELINE.json') else '{}'
baseline_cmd = json.loads(BASE).get('cmd', "cd /repo && go test -mod=mod -json -vet=off -count=1 -timeout 25m ./...")

ALL = ["C%02d" % i for i in range(1, 21)]

CHECKS = {
 "C11": dict(
   text="Proof: Coq theorems over ALL byte strings (no length bound) that the uint8 model of StringToNote equals an independent "
        "specification of the 128 names, that names and numbers round-trip, and that the accepted language is exactly an explicit "
        "280-entry table (C11_spec, C11_roundtrip, C11_inverse, C11_table). The model is tied to /repo on every run by sweeping the real "
        "StringToNote exhaustively over all strings of length <= 3 (quick) / <= 4 (thorough, 18.1 M strings) over [a-zA-Z0-9#- ] plus sampled "
        "longer/arbitrary-byte strings against the proved table, inside coqc (vm_compute), and NoteToPitch/NoteToOctave over 0..127.",
   note="Trusted: Coq kernel + VM; hand-written model; Go regexp/Atoi outside the swept space assumed to behave as on it. No axioms.",
   technique="Coq proof (finite sweep lifted by lemma to all strings) + exhaustive differential correspondence",
   design="§5 C11"),
 "C14": dict(
   text="Proof: Coq theorems over every configuration and every key history (no hypothesis; sequence keys may be note or action keys): the "
        "termination signal is raised at an event only if it is a press after which every key of a non-empty sequence is down, with the set "
        "of keys down defined from the history alone (C14_never_before); on such a press the output is exactly one signal, no MIDI, and only "
        "the key tracker changes (C14_fires_and_swallows); an empty sequence never signals (C14_empty). Tie to /repo: the real Device is "
        "stepped through generated histories (all press orders of sequences of length 0-3, release/re-press, other keys interleaved, random) "
        "and the decidable monitor the theorems are about is evaluated in coqc on the implementation's per-event signal counts, MIDI and State().",
   note="Trusted: Coq kernel + VM; hand-written device model (Model/Device.v) compared per event with the implementation; Go channel semantics of the buffered signal channel. No axioms.",
   technique="Coq proof by case analysis of the step function lifted to histories + per-event differential correspondence",
   design="§5 C14"),
 "C20": dict(
   text="Proof: Coq theorems over all handler lists (unbounded, by induction): the groups partition the handlers (Permutation, NoDup of "
        "locations, no empty group), two handlers share a device iff equal physical location, each handler is in exactly one device, the "
        "device type rule (joystick if any joystick-like handler, else keyboard if any standard keyboard, else not playable), order-freedom "
        "(Permutation l l' -> same set of (location, multiset of handlers, type)) and that HandlerType depends only on the SET of capabilities "
        "(C20_partition, C20_same_phys, C20_type, C20_order_free, C20_handler_type_set, plus a monitor proved equivalent to the grouping "
        "predicate). Tie to /repo: the real input.Normalize / HandlerType run on all n! orders of multisets up to 5 handlers and on random "
        "larger multisets, all 512 capability subsets; monitor and view comparison evaluated in coqc on the observed devices.",
   note="Trusted: Coq kernel + VM; hand-written model of Normalize/HandlerType/DetermineDeviceType; evdev.Open failing on synthetic handlers (they are still grouped); Device.ID (taken from the first-discovered handler) is outside the view. No axioms.",
   technique="Coq proof by induction over handler lists + exhaustive-permutation differential correspondence",
   design="§5 C20"),
 "C12": dict(
   text="Proof: Coq theorems for every configuration map, identifier and device type that FindConfig returns the first present of "
        "[user exact; user default; factory exact; factory default] from the keyboard maps for keyboards and the gamepad maps for joysticks, "
        "ErrNoDefault iff all four are absent, Unsupported for every other type, independent of the other class's maps (C12_precedence); for "
        "every walk listing that a file that fails to parse / is not *.toml (case-insensitive) / a directory entry leaves the result unchanged "
        "(C12_isolation, C12_isolation_all); the map holds exactly the last successfully parsed *.toml per identifier in filepath.Walk order "
        "(C12_contents, C12_later_wins, C12_walk_order); loading never crashes, a missing/unreadable directory gives an error (C12_no_crash), "
        "with the original callback refuted (C12_missing_dir_crash_refuted). Tie to /repo: real LoadDeviceConfigs + FindConfig on real trees: "
        "all 16x16 presence combinations x identifiers x 4 device types (exhaustive), broken / non-TOML / upper-case / nested / duplicate files, "
        "missing and unreadable directories; the per-file parse verdict fed to the model is the real ParseData's; monitors and views evaluated in coqc.",
   note="Trusted: Coq kernel + VM; hand-written model of loader.go; filepath.Walk order (lexical) and os semantics as exercised; the parser is an oracle here (C09/C10). No axioms.",
   technique="Coq proof (case analysis + induction over walk listings) + exhaustive-grid differential correspondence on real directory trees",
   design="§5 C12"),
 "C18": dict(
   text="Proof: Coq theorems over every well-formed template and every file tree (any size), with the exact ordered list of mutations the Go "
        "code issues as the model's output: after ANY prefix of the mutations every node outside factory/ (user/**, hidi.toml, an existing "
        "blacklist, extra files) is unchanged (C18_user_untouched - no type-consistency needed); a complete run makes every factory path equal its "
        "template node (C18_factory_restored); blacklist created iff absent (C18_blacklist); absent directory -> exactly the template tree "
        "(C18_fresh); a second run issues no mutation (C18_idempotent); after an interruption at any mutation or inside any write a later run "
        "restores the factory part and keeps user data (C18_crash_recovery); type conflicts give an error with user data intact "
        "(C18_type_conflict_safe). Tie to /repo: the real updateHIDIConfiguration (package main, ALSA stub overlay) runs on generated trees "
        "(each factory file absent/truncated/modified/longer/intact, directories absent, user and extra files, blacklist present/absent, dir absent), "
        "before/after trees and the second run compared with the model in coqc, the model's crash states materialised as real trees and re-run, "
        "and the ORDER of successful mutating syscalls under strace compared with the model's op list.",
   note="Trusted: Coq kernel + VM; hand-written model of updateHIDIConfiguration and of the os calls it uses (open/create/truncate/write/mkdir semantics as exercised); file contents abstracted to chunk-id lists cut at every length the run needs (exact for the model's operations); a crash is modelled as a prefix of the mutation list plus a partial last write. No axioms.",
   technique="Coq proof over a file-system model with explicit mutation lists (prefix = crash point) + differential correspondence on real trees incl. strace syscall order",
   design="§5 C18", engine="coq-model+go-overlay-harness+strace-order"),
}

def main():
    checks = []
    for pid in ALL:
        if pid not in CHECKS:
            continue
        c = CHECKS[pid]
        checks.append({
            "property_id": pid,
            "quick_cmd": "./check %s --tier quick" % pid,
            "thorough_cmd": "./check %s --tier thorough" % pid,
            "evidence_file": "evidence/%s.json" % pid,
            "replay_cmd_template": "./check replay {path}",
            "engine": c.get("engine", "coq-model+go-overlay-harness"),
            "level_claimed": {"category": "proof", "text": c["text"], "design_ref": c["design"]},
            "level_note": c["note"],
            "technique": c["technique"],
        })
    na = [{"property_id": p, "reason": NOT_YET.get(p, "check not built yet in this session; see DESIGN.md §8 for the planned theorem and correspondence")}
          for p in ALL if p not in CHECKS]
    m = {
        "version": 1,
        "setup_cmd": "./setup.sh",
        "hooks": {
            "guard": "verif",
            "enable": "go test -c -tags verif -overlay <generated: /verif/harness/go/<pkg>/*.go mapped into /repo packages> (no file is added to /repo)",
            "baseline_off_cmd": baseline_cmd,
            "source_commits": [],
            "add_only": True,
        },
        "engines": [
            {"name": "coq-model", "path": "coq/theories", "serves_properties": sorted(CHECKS), "kind_free_text": "hand-written Gallina models, theorems (Properties/Cxx.v), vm_compute runners (Run/)"},
            {"name": "go-overlay-harness", "path": "harness/go", "serves_properties": sorted(CHECKS), "kind_free_text": "in-package Go test files (//go:build verif) injected with -overlay; drive the real code from /repo's working tree"},
        ],
        "checks": checks,
        "not_applicable": na,
        "notes": "All checks: ./check Cxx --tier quick|thorough; replay: ./check replay <file>. Known findings: known_findings.json. Design: DESIGN.md.",
    }
    json.dump(m, open(os.path.join(HERE, "MANIFEST.json"), "w"), indent=1)

NOT_YET = {}
if __name__ == "__main__":
    main()
