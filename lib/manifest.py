#!/usr/bin/env python3
"""Regenerates /verif/MANIFEST.json from the table below (keeps it valid at all times)."""
import json, os, sys
HERE = os.path.dirname(os.path.dirname(os.path.abspath(__file__)))
BASE = open('/root/.vp/BASELINE.json').read() if os.path.exists('/root/.vp/BASELINE.json') else '{}'
baseline_cmd = json.loads(BASE).get('cmd', "cd /repo && go test -mod=mod -json -vet=off -count=1 -timeout 25m ./...")

ALL = ["C%02d" % i for i in range(1, 21)]

CHECKS = {
 "C11": dict(
   text="Proof: Coq theorems over ALL byte strings (no length bound) that the uint8 model of StringToNote equals an independent "
        "specification of the 128 names, that names and numbers round-trip, and that the accepted language is exactly an explicit "
        "280-entry table (C11_spec, C11_roundtrip, C11_inverse, C11_table). The model is tied to /repo on every run by sweeping the real "
        "StringToNote exhaustively over all strings of length <= 3 (quick) / <= 4 (thorough, 18.1 M strings) over [a-zA-Z0-9#- ], every byte string of length <= 2 over all 256 byte values, every 3-byte string with one arbitrary byte, plus sampled "
        "longer/arbitrary-byte strings against the proved table, inside coqc (vm_compute), and NoteToPitch/NoteToOctave over 0..127.",
   note="Trusted: Coq kernel + VM; hand-written model; Go regexp/Atoi outside the swept space assumed to behave as on it. No axioms.",
   technique="Coq proof (finite sweep lifted by lemma to all strings) + exhaustive differential correspondence",
   design="§5 C11"),
 "C14": dict(
   text="Proof: Coq theorems over every configuration and every key history (no hypothesis; sequence keys may be note or action keys): the "
        "termination signal is raised at an event only if it is a press after which every key of a non-empty sequence is down, with the set "
        "of keys down defined from the history alone (C14_never_before); on such a press the output is exactly one signal, no MIDI, and only "
        "the key tracker changes (C14_fires_and_swallows); an empty sequence never signals (C14_empty). Tie to /repo: the real Device is "
        "stepped through generated histories (all press orders of sequences of length 0-3, release/re-press, other keys interleaved, random) "
        "plus disturbances with the sequence partly held - every action key, aliasing key codes, autorepeat, chords, stray releases - and what follows a swallowed press) "
        "and the decidable monitor the theorems are about is evaluated in coqc on the implementation's per-event signal counts, MIDI and State() (a swallowed press "
        "must leave no trace in State() later).",
   note="Trusted: Coq kernel + VM; hand-written device model (Model/Device.v) compared per event with the implementation; Go channel semantics of the buffered signal channel. No axioms.",
   technique="Coq proof by case analysis of the step function lifted to histories + per-event differential correspondence",
   design="§5 C14"),
 "C20": dict(
   text="Proof: Coq theorems over all handler lists (unbounded, by induction): the groups partition the handlers (Permutation, NoDup of "
        "locations, no empty group), two handlers share a device iff equal physical location, each handler is in exactly one device, the "
        "device type rule (joystick if any joystick-like handler, else keyboard if any standard keyboard, else not playable), order-freedom "
        "(Permutation l l' -> same set of (location, multiset of handlers, type)) and that HandlerType depends only on the SET of capabilities "
        "(C20_partition, C20_same_phys, C20_type, C20_order_free, C20_handler_type_set, plus a monitor proved equivalent to the grouping "
        "predicate). Tie to /repo: the real input.Normalize / HandlerType run on all n! orders of multisets up to 5 handlers and on random "
        "larger multisets, all 512 capability subsets, event-node names and hardware ids drawn from small pools so that one process sees the same node/id with "
        "different capabilities (re-plug); monitor and view comparison evaluated in coqc on the observed devices.",
   note="Trusted: Coq kernel + VM; hand-written model of Normalize/HandlerType/DetermineDeviceType; evdev.Open failing on synthetic handlers (they are still grouped); Device.ID (taken from the first-discovered handler) is outside the view. No axioms.",
   technique="Coq proof by induction over handler lists + exhaustive-permutation differential correspondence",
   design="§5 C20"),
 "C12": dict(
   text="Proof: Coq theorems for every configuration map, identifier and device type that FindConfig returns the first present of "
        "[user exact; user default; factory exact; factory default] from the keyboard maps for keyboards and the gamepad maps for joysticks, "
        "ErrNoDefault iff all four are absent, Unsupported for every other type, independent of the other class's maps (C12_precedence); for "
        "every walk listing that a file that fails to parse / is not *.toml (case-insensitive) / a directory entry leaves the result unchanged "
        "(C12_isolation, C12_isolation_all); the map holds exactly the last successfully parsed *.toml per identifier in filepath.Walk order "
        "(C12_contents, C12_later_wins, C12_walk_order); loading never crashes, a missing/unreadable directory gives an error (C12_no_crash), "
        "with the original callback refuted (C12_missing_dir_crash_refuted). Tie to /repo: real LoadDeviceConfigs + FindConfig on real trees: "
        "all 16x16 presence combinations x identifiers x 4 device types (exhaustive), broken / non-TOML / upper-case / nested / duplicate files, "
        "missing and unreadable directories, files on which the decoder panics, the same directory loaded a second time after its files were replaced by older "
        "versions; the per-file parse verdict fed to the model is the real ParseData's; monitors and views evaluated in coqc.",
   note="Trusted: Coq kernel + VM; hand-written model of loader.go; filepath.Walk order (lexical) and os semantics as exercised; the parser is an oracle here (C09/C10). No axioms.",
   technique="Coq proof (case analysis + induction over walk listings) + exhaustive-grid differential correspondence on real directory trees",
   design="§5 C12"),
 "C18": dict(
   text="Proof: Coq theorems over every well-formed template and every file tree (any size), with the exact ordered list of mutations the Go "
        "code issues as the model's output: after ANY prefix of the mutations every node outside factory/ (user/**, hidi.toml, an existing "
        "blacklist, extra files) is unchanged (C18_user_untouched - no type-consistency needed); a complete run makes every factory path equal its "
        "template node (C18_factory_restored); blacklist created iff absent (C18_blacklist); absent directory -> exactly the template tree "
        "(C18_fresh); a second run issues no mutation (C18_idempotent); after an interruption at any mutation or inside any write a later run "
        "restores the factory part and keeps user data (C18_crash_recovery); type conflicts give an error with user data intact "
        "(C18_type_conflict_safe). Tie to /repo: the real updateHIDIConfiguration (package main, ALSA stub overlay) runs on generated trees "
        "(each factory file absent/truncated/modified/longer/intact, directories absent, user and extra files, blacklist present/absent, dir absent), "
        "before/after trees and the second run compared with the model in coqc, the model's crash states materialised as real trees and re-run, "
        "the REAL code killed at every mutating system call (strace fault injection) and then run twice to completion, start trees with stale siblings (F.tmp, F~, .F.swp) "
        "and files differing in line termination only, and the ORDER of successful mutating syscalls under strace compared with the model's op list (a difference "
        "alone is a broken correspondence, no failing input).",
   note="Trusted: Coq kernel + VM; hand-written model of updateHIDIConfiguration and of the os calls it uses (open/create/truncate/write/mkdir semantics as exercised); file contents abstracted to chunk-id lists cut at every length the run needs (exact for the model's operations); a crash is modelled as a prefix of the mutation list plus a partial last write. No axioms.",
   technique="Coq proof over a file-system model with explicit mutation lists (prefix = crash point) + differential correspondence on real trees incl. strace syscall order",
   design="§5 C18", engine="coq-model+go-overlay-harness+strace-order"),

 "C01": dict(
   text="Proof: Coq theorems, by induction over arbitrary alternating histories of key events AND arbitrary analog samples, all four collision "
        "modes, all configurations: after the disconnect clean-up nothing the device started is sounding at the receiver (C01_disconnect, no side "
        "hypothesis, every prefix of every history); whenever no key is down and the axis tracker is empty nothing is sounding "
        "(C01_quiescent_partial); the invariants behind both for every reachable state: tracked keys are down, the collision counter equals the "
        "number of trackers per pair, everything sounding is backed by a tracker entry (C01_invariants). The key-emulating-axis + mapping-switch "
        "stuck note is a refuted witness (C01_keysim_mapping_refuted, finding K2). Tie to /repo: the real Device is stepped event by event through "
        "generated histories and templates; a subset is disconnected at every prefix; the receiver-side sounding set is reconstructed in coqc from "
        "the implementation's bytes and must be empty at every quiescent point and after clean-up.",
   note="Trusted: Coq kernel + VM; hand-written device model compared per event with the implementation; 'no key-emulating axis held' is stated on the axis tracker, not on the physical position (K2); one key code is assumed not to be emitted by two sub-handlers at once. No axioms. The machine-level corollaries (C01_machine_*) are stated over the float machine frun and list the four standard-library real-number axioms of Flocq's proof terms.",
   technique="Coq proof by invariant induction over histories + per-event differential correspondence with receiver-side reconstruction",
   design="§5 C01"),
 "C02": dict(
   text="Proof: Coq theorem over every alternating history h1 ++ [press k] ++ h2 ++ [release k] with h2 arbitrary (any number of state-changing "
        "actions, mapping switches to mappings where k is unmapped or mapped elsewhere, other keys, analog samples): the release emits only Note Off "
        "of exactly the pair the press resolved to in the state at the press, the press emits only Note On/Off of that pair, nothing if it resolved to "
        "nothing (C02_release_pinned); every action key except panic is silent and leaves all trackers untouched in any state (C02_actions_silent); "
        "a key's tracker entry is frozen by every other event (C02_tracker_frozen). Tie to /repo: per-event monitor in coqc on the implementation's "
        "bytes, using only the history and the implementation's own State() to compute the pair a press resolves to.",
   note="Trusted: Coq kernel + VM; hand-written device model; Go channel stepping (EV_SYN sentinel). No axioms.",
   technique="Coq proof (frame lemma lifted over histories) + per-event differential correspondence",
   design="§5 C02"),
 "C03": dict(
   text="Proof: Coq theorems for every configuration and every alternating history: the messages of a press / release are exactly the collision rule "
        "(off, no_repeat, interrupt, retrigger) applied to the number of holders of the (channel, pitch) pair, where holders = trackers holding the "
        "pair (= keys down whose last press resolved to it, by C02), and the holder count moves by exactly one (C03_press, C03_release); in the managed "
        "modes the Note Off is sent exactly by the release of the last holder (C03_one_off_at_last_holder). Unbounded number of keys and holders. "
        "Tie to /repo: every interleaving of 2, 3 and 4 keys on one pitch (direct, via offsets, via transposition between presses) in all 4 modes plus "
        "random histories; the rule is evaluated in coqc on the implementation's bytes with holders counted from the history.",
   note="Trusted: Coq kernel + VM; hand-written device model; one key code not emitted by two sub-handlers at once. No axioms.",
   technique="Coq proof using the counter-equals-multiplicity invariant + exhaustive-interleaving differential correspondence",
   design="§5 C03"),
 "C04": dict(
   text="Proof: Coq theorems for ANY state: a note-key press sounds base+12*octave+semitone with the configured velocity on (channel+offset) mod 16 "
        "and records that pair, or sends nothing and changes nothing outside 0-127 (C04_press_formula, C04_press_messages); each action applies the "
        "property's arithmetic - unit steps, saturation at channel 16 / last mapping (C04_actions_partial: strictly inside the int8 range; the wrap at "
        "the boundary is C04_wrap_refuted, known finding K1); completing exactly one up/down pair resets that parameter and does not apply the single "
        "action (C04_pair_reset), completing none applies it (C04_single_action); defaults are the initial state (C04_initial); the mapping index stays "
        "in range along every history (C04_mapping_in_range); the original int8 product is refuted (C04_int8_product_refuted, fixed in /repo). "
        "Tie to /repo: a spec interpreter (the theorems' spec_action / reset / formula) runs in coqc against State() and the Note-On triple of every "
        "event of generated histories (octave runs to +-25, channel/mapping walks past both ends, all pair orders, default extremes, channel x offset grid); the messages of "
        "every press must be exactly the collision rule applied to that triple (silence only when the mode and the holders demand it).",
   note="Trusted: Coq kernel + VM; hand-written device model. Known finding K1 (int8 wrap after 128 steps) is reported as KNOWN-FINDING. No axioms.",
   technique="Coq proof by case analysis of the action table and press path + differential correspondence against a spec interpreter",
   design="§5 C04"),
 "C05": dict(
   text="Proof: Coq theorem for every configuration with parser-guaranteed defaults (1 <= channel <= 16, 0 <= velocity <= 127), EVERY history of key "
        "events (no alternation, any values) and analog samples with bounded data bytes: every message emitted while running and during clean-up is "
        "[status+channel; d1; d2] with status in {0x80,0x90,0xB0,0xE0}, channel < 16, data < 128, and the current channel stays < 16 (C05_wf); the "
        "run-time monitor is sound for that predicate (C05_monitor_sound); default channel 0 is refuted (C05_default_channel_refuted); the data bytes of axis "
        "messages are bounded for every float (pitch bend, C05_sample_fields) and for every int32 axis range / raw value / finite deadzone <= 1-2^-10 "
        "(controller value, C05_general_axis_messages, from Flocq's real-number semantics; C05_grid_axis_messages by kernel evaluation on the 8-bit grid). Tie to /repo: "
        "corner configurations go through the REAL ParseData (channel 0/1/16/17, velocity 0/1/127/128, offsets) and then the real Device; panic on every "
        "channel, channel walks, hostile key values; the monitor runs in coqc on every implementation message.",
   note="Trusted: Coq kernel + VM; hand-written device model; the bounds on CC / pitch-bend data bytes of analog samples are hypotheses of C05_wf discharged by the float layer (C06). No axioms.",
   technique="Coq proof by invariant induction (no alternation hypothesis) + differential correspondence through the real parser",
   design="§5 C05"),
 "C13": dict(
   text="Proof: Coq theorems: a triggered panic press (mapped to panic, not completing the exit sequence, no up/down pair held) in ANY state emits exactly "
        "CC 123 + 128 Note Offs on the current channel and changes only the key/action trackers (C13_burst); the burst has 129 messages and adds "
        "nothing to any receiver state (C13_burst_shape); for every history h1 and EVERY continuation h2, inserting the panic key's press+release "
        "changes no later output and not the final state (C13_transparent; when another key mapped to panic is held at that moment the final "
        "states agree on everything but Panic's membership in the action tracker, which nothing ever reads: C13_transparent_general, "
        "C13_transparent_observables, by a simulation relation preserved by every event, C13_step_sim). Tie to /repo: panic inserted at every "
        "admissible position of base histories (also with a second panic key held); each variant and its panic-free twin run on the real device; burst bytes and twin equality (later outputs, clean-up, State()) "
        "checked in coqc.",
   note="Trusted: Coq kernel + VM; hand-written device model (the MIDI-input tracker that panic also clears belongs to C17). No axioms.",
   technique="Coq proof (exact state round-trip, simulation relation) + twin-history differential correspondence",
   design="§5 C13"),

 "C06": dict(
   text="Proof: the model's float layer is Flocq's IEEE-754 binary64 (bit-exact with Go: the per-run correspondence compares BYTES of every axis "
        "event). Theorems: on the finite grid of the property's own quantifier - EVERY raw value of the 8-bit axes [0,255], [-128,127], [-127,127] and a "
        "hat, 20 deadzones 0..0.99, every flip / deadzone_at_center / {unidirectional CC, bidirectional CC, pitch bend} combination - the kernel "
        "evaluates (vm_compute, lifted by forallb_forall, bound in the statement) that every transmitted value is within one step (+2^-20 rounding margin) "
        "of the exact rational transfer function, end stops and rest value are exact, the right controller/side is addressed (C06_grid_value) and the "
        "value is monotone in the raw position over all pairs (C06_grid_monotone); pitch-bend centre is 8192 (C06_pitch_bend_centre); the original "
        "reciprocal rescale and truncation are refuted (D9, D10, fixed in /repo). GENERAL theorems (Flocq real-number semantics, no evaluation): for every "
        "axis range -2^31 <= min <= 0 < max < 2^31, every finite deadzone 0 <= dz <= 1-2^-10, every raw value in range and every flip / kind: the shaped "
        "position is finite, in [-1,1], monotone in the raw value and within 2^-39 of the exact real transfer function (C06_general_range / _monotone / "
        "_accuracy), the transmitted integer is in 0..127 / 0..16383, within 1+2^-20 of the exact scaled value and monotone (C06_general, "
        "C06_general_tx_monotone, C06_general_encoding*); both end stops are exact for every deadzone in [0,1) (C06_endstop_exact, C06_endstop_min_exact, "
        "C06_endstop_min_centred) and inside the deadzone exactly the rest value is sent (C06_deadzone_rest, C06_zero_is_rest). Partial: the general "
        "theorems stop at the sample handed to the device model and use the spec over R (same formulas as the rational spec of the grid theorems and the "
        "monitor); deadzones in (1-2^-10,1) and non-finite ones are covered by the correspondence only. Tie to /repo: one real Device per "
        "configuration swept up/down over the axis range with random jumps; the same monitor function the grid theorems use runs in coqc on the "
        "implementation's bytes, and an event that transmits nothing must leave the receiver with a value that is right for the new position.",
   note="Trusted: Coq kernel + VM; Flocq (axioms of the standard library's Reals via Flocq: ClassicalDedekindReals.sig_forall_dec, sig_not_dec, FunctionalExtensionality.functional_extensionality_dep, Classical_Prop.classic - as printed by Print Assumptions); amd64 float->int conversion and absence of FMA as modelled; hand-written model.",
   technique="Coq proof: general Flocq (real-number) theorems for every int32 range and deadzone + kernel evaluation of the bit-exact model over the property's finite grid + bit-exact differential correspondence",
   design="§5 C06"),
 "C07": dict(
   text="Proof: Coq theorems over ARBITRARY samples (hence arbitrary float positions, exact centre and direct jumps across the centre): for every "
        "history of positions of a family of CC axes with pairwise distinct controller numbers and CC-learning presses/releases, after every event at "
        "most one controller of each bidirectional pair is non-zero at the receiver (C07_at_most_one, C07_invariant); one transmitted event puts the "
        "value on the side the stick is on, the other side is 0, a non-zero side being left gets an explicit 0 in that very step, nothing else changes "
        "(C07_side_and_zeroing); while CC-learning is held an event is processed iff beyond half travel and a dropped event changes nothing "
        "(C07_learning_gate). Tie to /repo: real Device with 1-3 bidirectional axes (signed, unsigned centred), scripts with every ordered pair of "
        "{far-, half-, near-, centre, near+, half+, far+}, learning toggled; receiver-side CC values reconstructed in coqc from the bytes.",
   note="Trusted: Coq kernel + VM; Flocq float layer for the run-time comparison only (the theorems are float-free); channel/mapping actions are outside C07's quantifier. No axioms in the theorems. C07_machine_* are stated over the float machine frun and list the four standard-library real-number axioms.",
   technique="Coq proof by invariant induction over sample histories + receiver-side differential correspondence",
   design="§5 C07"),
 "C08": dict(
   text="Proof: Coq theorems over ARBITRARY samples: exact output and tracker effect of a key-emulation sample per zone - positive/negative direction "
        "turned on once with the transposed note on (channel+offset) mod 16 (silent out of range, silent without a configured negative note), released "
        "with exactly the recorded pair when back below 49 %, nothing between 49 and 50 % (C08_positive, C08_negative, C08_centre, C08_gap, "
        "C08_pairing, C08_frozen); the two directions of an axis are never on together in ANY reachable state of ANY history (C08_exclusive). "
        "Tie to /repo: hat and stick axes, signed/unsigned, flipped, with/without negative note, every ordered pair of {Neg, Gap-, Mid, Gap+, Pos}, "
        "octave/semitone/channel actions interleaved; a spec interpreter built from the theorems' formulas runs in coqc on the implementation's bytes.",
   note="Trusted: Coq kernel + VM; the zone of a position comes from the Flocq float layer (bit-exact, validated by C06's correspondence); one axis code is assumed not to be key-emulated by two sub-handlers at once. No axioms in the theorems. C08_machine_* are stated over the float machine frun and list the four standard-library real-number axioms.",
   technique="Coq proof by case analysis + invariant over all histories; differential correspondence against a spec interpreter",
   design="§5 C08"),
 "C09": dict(
   text="Proof: Coq theorems: the TOML-struct -> Config conversion never crashes for any decoded structure and any name tables (C09_convert_total), "
        "nor does the hidi.toml conversion (C09_hidi_total, C09_hidi_periods), and with the recover wrapper ParseData / LoadHIDIConfig return a value or an "
        "error for EVERY decoder outcome including a decoder panic (C09_parse_total, C09_load_hidi_total); the original code is refuted (nil dereference "
        "on an action axis without action_negative, division by zero on rate 0, escaping decoder panic). The go-toml decoder is an oracle (ok / error / "
        "panic), not modelled. Tie to /repo: thousands of byte strings (arbitrary, corrupted shipped files, valid TOML with ill-typed / missing / "
        "duplicated fields, near-valid configs) through the real ParseData and LoadHIDIConfig under recover and a watchdog; any panic or hang is a "
        "failing input; the decoder's own outcome is fed to the model and outcome classes compared in coqc.",
   note="Trusted: Coq kernel + VM; the decoder terminates and its panics are recoverable ones (assumed, exercised); hand-written converter model. No axioms.",
   technique="Coq totality proof over an explicit Ok/Err/Crash outcome type + large differential/fuzz correspondence",
   design="§5 C09"),
 "C10": dict(
   text="Proof: Coq theorems over every decoded TOML structure and every name table: an accepted configuration reflects the file field by field, with "
        "`reflects` written independently of the converter (C10_sound); all values are in their MIDI ranges (C10_ranges); every invalidity class of the "
        "property is rejected (C10_rejects) and everything else is accepted (C10_complete); the default mapping is the last of that name "
        "(C10_default_is_last); refuted witnesses for the unfixed parser (default channel, action_negative, note_negative/offsets). Unknown fields are "
        "the decoder's DisallowUnknownFields - checked by correspondence only. Tie to /repo: structured description -> own TOML printer -> real ParseData "
        "-> canonical Config, and the same description -> Coq literal -> convert; field-for-field comparison and monitors in coqc; every single-field "
        "invalidation must be rejected; evdev name tables and Supported* tables dumped from the linked Go packages every run and compared exhaustively.",
   note="Trusted: Coq kernel + VM; go-toml decoder as an oracle (faithful on well-typed input, strict on unknown fields: validated by the correspondence); two names of one TOML table never denote the same evdev code. No axioms.",
   technique="Coq proof of soundness/completeness of the converter against an independent relation + generated differential correspondence",
   design="§5 C10"),
 "C15": dict(
   text="Proof: Coq theorems about labelled transition systems of the relay and the fan-out, over all reachable states (unbounded traces, any number of "
        "consumers, nondeterministic service order): relay FIFO exactly-once in both directions (C15_relay_fifo, C15_relay_in_fifo); every consumer has "
        "received/buffered exactly the contiguous, duplicate-free segment of the input stream since its spawn, a leaving consumer a gap-free prefix "
        "(C15_fanout_segment); spawn/despawn of one consumer never changes another's segment (C15_independent); with the fixed algorithm a pending "
        "despawn completes without any read by that consumer, with an explicit ranking function (C15_despawn_completes, _progress, _returns); the "
        "original algorithm deadlocks (C15_despawn_stuck_refuted, 23-step trace; fixed in /repo); the history monitors accept every model execution "
        "(C15_*_monitor_sound). Partial by nature: Go's scheduler, channels and mutex are modelled; schedules the stress run does not produce are "
        "covered only by the theorem about the model. Tie to /repo: stress runs of the real DynamicFanOut and ProcessMidiEvents (tagged payloads, "
        "fast/slow/stopped consumers, spawn/despawn at random moments, GOMAXPROCS 1-16, -race in the thorough tier); recorded histories checked by "
        "accepts_history in coqc; the despawn-deadlock scenario always runs first; long sessions (72000 counter-tagged messages per direction, every buffer driven full "
        "around each multiple of 256 and around 65536, hundreds to 70000 attach/detach cycles) and time-aged sessions (11.5 s; thorough up to 125 s of uptime).",
   note="Trusted: Coq kernel + VM; Go channel / sync.Mutex / scheduler semantics as modelled (mutex fairness needed for completion under an endless input stream); hand-written LTS. No axioms.",
   technique="Coq proof of LTS invariants and a ranking-function liveness argument + history-checking correspondence on stress runs",
   design="§5 C15", engine="coq-model+go-overlay-harness (stress, -race)"),

 "C16": dict(
   text="Proof (partial by nature): Coq theorems about a labelled transition system of ProcessEvents' three goroutines (main, LED, MIDI-in) with both "
        "mutexes, the WaitGroup and the context, over all reachable states / interleavings, unbounded: after the input closes every run of own steps is "
        "bounded by an explicit measure and ends with ProcessEvents returned and both background goroutines finished, no fairness assumed "
        "(C16_terminates, C16_measure_step, C16_measure_bound, C16_progress, C16_after_cancel, C16_no_leftover); with the clean-up under "
        "eventProcessMutex any two conflicting accesses share a lock (C16_lock_discipline), the original is refuted by a 16-label trace "
        "(C16_cleanup_race_refuted, fixed in /repo); a product of device machines with disjoint state gives each device its stand-alone output "
        "(C16_no_crosstalk*). The goroutine structure and access table are hand-transcribed; real races and schedules are EXPLORED, not proved: "
        "1-8 real devices under go test -race with the real LED loop against a fake OpenRGB server (mount namespace for /sys/class/hidraw), MIDI input "
        "streaming, notes held, streams closed at random offsets in the LED cycle; race reports, return time, leftover goroutines and per-device output "
        "(compared in coqc with the device model) are checked; also the OpenRGB server dying mid-session and paced streams (a quiet period before an event).",
   note="Trusted: Coq kernel + VM; Go scheduler / mutex / select / WaitGroup semantics as modelled; the race detector as the oracle for real memory races; output channel drained and OpenRGB peer responsive (model assumptions). No axioms.",
   technique="Coq proof over an LTS (ranking function, lock-set discipline) + race-detector exploration with differential output comparison",
   design="§5 C16", engine="coq-model+go-overlay-harness (-race, OpenRGB rig)"),
 "C17": dict(
   text="Proof: Coq theorems about a transcription of the LED frame function (index arithmetic, write order, uint8 offset arithmetic included): the "
        "colour at a mapped key's LED equals an independently written specification - active / external / lowest-channel colour / pitch-class colour "
        "(White in mapping Control) / unavailable - for every configuration, layout and state with |offset| <= 128 (C17_key_colour_partial), and for "
        "every state reached by alternating histories and MIDI input (C17_key_colour_reachable); the state-action keys show the current values "
        "(C17_state_keys, unconditional after the LED-0 fix); MIDI-input Note Off, Note On velocity 0 and a fired panic clear the highlight "
        "(C17_ext_clear, _removed, _added, _clear_panic, C17_panic_is_burst); the final frame is all red (C17_final_red); refuted witnesses for the "
        "velocity-0 and LED-0 defects (fixed in /repo) and for the mod-256 aliasing (known finding K4). Tie to /repo: the REAL LED loop runs "
        "against a fake OpenRGB server; after every step of generated histories the frame carrying that step's generation stamp is compared, as "
        "colour classes, with the model's frame and with the specification in coqc.",
   note="Trusted: Coq kernel + VM; go-colorful's HSV round trip (frames are compared as colour classes with colours configured far apart); openrgb-go wire protocol as spoken by the fake server; two keys never carry the same action (Go map iteration would make actionToEvcode nondeterministic). Known finding K4. No axioms.",
   technique="Coq proof of a transcribed frame function against an independent specification + differential correspondence on real frames",
   design="§5 C17", engine="coq-model+go-overlay-harness (OpenRGB rig)"),
 "C19": dict(
   text="Proof (partial: fsnotify/inotify are the environment): Coq theorems: the filter accepts exactly events with the Write bit whose lower-cased "
        "name ends in \".toml\", for every mask and byte string (C19_filter, C19_filter_bytes); over all reachable states of an LTS of the watcher "
        "pipeline delivered + pending + aborted = accepted events judged, in order, none lost or invented (C19_every_write_notified); with a reading "
        "consumer everything is delivered (C19_all_delivered); after cancel every run is bounded by an explicit measure and ends with the stream "
        "closed and all goroutines finished, whether or not a hand-off was pending (C19_shutdown, C19_shutdown_progress); the original code is refuted "
        "three ways (stuck after cancel, suffix without dot, whole-mask comparison; fixed in /repo). Tie to /repo: the real "
        "DetectDeviceConfigChanges on real directories with scripted writes (TOML / non-TOML / xtoml / upper-case / nested, bursts, isolated), "
        "prompt or late consumer, cancel at random points; notifications, silence, closure and leftover goroutines observed within stated time "
        "windows and checked by monitors in coqc.",
   note="Trusted: Coq kernel + VM; fsnotify v1.5.1 and inotify behaviour (one raw event = one Op mask; events for files that vanished are dropped by fsnotify; queue overflow not modelled); generous time windows (500 ms delivery, 1 s shutdown). No axioms.",
   technique="Coq proof over an LTS (invariant + ranking function) + scripted correspondence on the real watcher with time windows",
   design="§5 C19"),
}

STREAM = (" Second stage on every run: the same cases in production configuration (8-slot output channel, events back to back, a consumer slower than the "
          "device that reads a message's bytes 17 messages late): the flat stream must equal the concatenation of the stepped run's outputs, so the "
          "theorems' per-history message sequences hold for every pace of the consumer.")
EXTRA = {
 "C01": STREAM + " C01_at_the_port / C01_quiescent_at_the_port_partial carry the statements through the relay to the port (Model/EndToEnd.v).", "C02": STREAM, "C03": STREAM + " Episodes include keys of one pitch with different channel offsets meeting on a channel through the 15->0 wrap.",
 "C04": STREAM, "C05": STREAM, "C06": STREAM, "C07": STREAM + " C07_at_the_port: the invariant holds at the port at every event boundary of the device (Model/EndToEnd.v).", "C08": STREAM,
 "C13": STREAM + " C13_at_the_port carries the statement through the relay to the port (Model/EndToEnd.v, all interleavings, any capacities).",
 "C14": STREAM + " Templates cover every release path of a sequence key (also the stale-note path after a mapping switch).",
 "C09": " Unknown and known keys are printed in every spelling TOML has for a key (bare, literal/basic quoted, escapes, empty, dotted); the second pass over the inputs runs from 8 goroutines at once.",
 "C10": " Known keys are also printed quoted/escaped; the second pass over the inputs runs from 8 goroutines at once.",
 "C11": " A concurrent pass converts every accepted name and look-alikes from 16 goroutines at once and compares with the sequential answers.",
 "C12": " One generated file in six is present as a symbolic link to a regular file outside the tree.",
 "C15": " End to end: Model/EndToEnd.v composes the device model with the relay; C15_device_to_port / _complete / _boundary / C15_pipeline_progress hold for any number of devices, all interleavings, any capacities.",
 "C16": " Scenarios include several devices built from ONE configuration value (as the manager does), gamepads with axis events and keyboards with LED loops.",
 "C17": " MIDI-input streams include stray and duplicate releases of notes that are not sounding.",
 "C18": " Factory-file states include 'exactly the bytes of another built-in file'.",
 "C20": " Bus, unique id string, sysfs path and properties of the handlers vary freely (the grouping must ignore them).",
}


def main():
    for pid, extra in EXTRA.items():
        if pid in CHECKS and extra not in CHECKS[pid]["text"]:
            CHECKS[pid]["text"] += extra
    checks = []
    for pid in ALL:
        if pid not in CHECKS:
            continue
        c = CHECKS[pid]
        checks.append({
            "property_id": pid,
            "quick_cmd": "./check %s --tier quick" % pid,
            "thorough_cmd": "./check %s --tier thorough" % pid,
            "evidence_file": "evidence/%s.json" % pid,
            "replay_cmd_template": "./check replay {path}",
            "engine": c.get("engine", "coq-model+go-overlay-harness"),
            "level_claimed": {"category": "proof", "text": c["text"], "design_ref": c["design"]},
            "level_note": c["note"],
            "technique": c["technique"],
        })
    na = [{"property_id": p, "reason": NOT_YET.get(p, "check not built yet in this session; see DESIGN.md §8 for the planned theorem and correspondence")}
          for p in ALL if p not in CHECKS]
    m = {
        "version": 1,
        "setup_cmd": "./setup.sh",
        "hooks": {
            "guard": "verif",
            "enable": "go test -c -tags verif -overlay <generated: /verif/harness/go/<pkg>/*.go mapped into /repo packages> (no file is added to /repo)",
            "baseline_off_cmd": baseline_cmd,
            "source_commits": [],
            "add_only": True,
        },
        "engines": [
            {"name": "coq-model", "path": "coq/theories", "serves_properties": sorted(CHECKS), "kind_free_text": "hand-written Gallina models, theorems (Properties/Cxx.v), vm_compute runners (Run/)"},
            {"name": "go-overlay-harness", "path": "harness/go", "serves_properties": sorted(CHECKS), "kind_free_text": "in-package Go test files (//go:build verif) injected with -overlay; drive the real code from /repo's working tree"},
        ],
        "checks": checks,
        "not_applicable": na,
        "notes": "All checks: ./check Cxx --tier quick|thorough; replay: ./check replay <file>. Known findings: known_findings.json. Design: DESIGN.md.",
    }
    json.dump(m, open(os.path.join(HERE, "MANIFEST.json"), "w"), indent=1)

NOT_YET = {}
if __name__ == "__main__":
    main()
