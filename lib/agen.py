"""Emitters and generators for histories with axis events (float layer): C05 analog part, C06, C07, C08."""
import struct
from common import cN, cZ, cbool, clist, cbytes
import devgen

ABS_X, ABS_Y, ABS_Z, ABS_RX, ABS_RY, ABS_RZ, ABS_HAT0X, ABS_HAT0Y = 0, 1, 2, 3, 4, 5, 16, 17


def bits(x):
    return struct.unpack("<Q", struct.pack("<d", float(x)))[0]


def fbits(b):
    return "(f_of_bits %d%%Z)" % int(b)


def analog(code, type_, sub="", cc=0, ccneg=0, note=0, noteneg=0, off=0, offneg=0, act="", actneg="", flip=False, bidi=False, dzc=False):
    return {"sub": sub, "code": code, "type": type_, "cc": cc, "ccneg": ccneg, "note": note, "noteneg": noteneg, "off": off,
            "offneg": offneg, "act": act, "actneg": actneg, "flip": flip, "bidi": bidi, "dzc": dzc}


def emit_fconfig(cfg):
    sid = devgen.sub_ids(cfg)
    ms = []
    for m in cfg["mappings"]:
        dz = clist(["((%d, %d), %s)" % (sid[d["sub"]], d["code"], fbits(d["bits"])) for d in m.get("dz", [])])
        dd = clist(["(%d, %s)" % (sid[d["sub"]], fbits(d["bits"])) for d in m.get("defdz", [])])
        ms.append("(Build_fmapping %s %s)" % (dz, dd))
    return clist(ms)


def emit_abs(absl):
    return clist(["(%d, (%s, %s)%%Z)" % (a["code"], cZ(a["min"]), cZ(a["max"])) for a in absl])


def emit_fev(cfg, e, sid):
    if e["t"] == "k":
        return "(FKey %d %d %s%%Z)" % (sid[e["sub"]], e["code"], cZ(e["val"]))
    if e["t"] == "a":
        return "(FAbs %d %d %s%%Z)" % (sid[e["sub"]], e["code"], cZ(e["val"]))
    if e["t"] == "o":
        return "FSyn"
    raise ValueError(e)


def emit_acase(case, res):
    cfg = case["cfg"]
    sid = devgen.sub_ids(cfg)
    names = devgen.map_name_ids(cfg)
    evs = clist([emit_fev(cfg, e, sid) for e in case["events"]])
    obs = clist([devgen.emit_ostep(cfg, st, names) for st in res["steps"]])
    return "(Build_acase %s %s %s %s %s %s)" % (devgen.emit_config(cfg), emit_fconfig(cfg), emit_abs(case["abs"]), evs, obs,
                                              devgen.emit_msgs(res["cleanup"]))


def base_cfg(analogs, dz=None, defdz=None, keys=None, actions=None, cmode="off", n_maps=1, **defaults):
    maps = []
    for i in range(n_maps):
        maps.append({"name": "M%d" % i, "midi": list(keys or []), "analog": list(analogs if i == 0 or n_maps == 1 else analogs),
                     "dz": list(dz or []), "defdz": list(defdz or [{"sub": "", "bits": str(bits(0.0))}]), "subs": []})
    cfg = {"mappings": maps, "actions": list(actions or []), "exitseq": [], "cmode": cmode,
           "octave": 0, "semitone": 0, "channel": 1, "mapping": 0, "velocity": 64}
    cfg.update(defaults)
    return cfg
