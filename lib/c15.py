"""C15: MIDI transport - relay FIFO, fan-out segments, DespawnOutput always returns.

Histories are recorded from the real code by two stress harnesses (harness/go/utils, harness/go/midi) and judged by the
Coq monitor Run/TransportRun.v:accepts_history (= relay_ok && in_ok && fanout_accepts), which Proofs/TransportProofs.v proves sound for
every execution of the models.  The verdict is Coq's; python only generates scenarios and explains rejections."""
import json, os, random
from concurrent.futures import ThreadPoolExecutor
from common import *

PROCS = [1, 2, 4, 16]
BOUND_MS = 2000
D16_SIG = "D16-despawn-deadlock"
EMBEDDED_D16 = {"name": "D16-cap8", "gomaxprocs": 4, "seed": 16, "icap": 8, "items": 40, "jitter": 1, "gate": 2,
                "bound_ms": BOUND_MS, "deadline_ms": 9000,
                "consumers": [{"kind": "fast", "spawn_at": 0, "despawn_at": 40},
                              {"kind": "stopped", "spawn_at": 0, "limit": 2, "delay_us": 20000}]}


# ----------------------------------------------------------------------------- scenario generators

def corpus_fanout():
    p = os.path.join(VERIF, "corpus", "C15.json")
    try:
        sc = json.load(open(p))["fanout"]
    except Exception:  # noqa
        sc = [EMBEDDED_D16]
    if not any(s["name"].startswith("D16") for s in sc):
        sc = [EMBEDDED_D16] + sc
    return sc


def gen_fanout(rng, idx):
    items = rng.choice([20, 40, 80, 150, 300]) + rng.randint(0, 20)
    n = rng.choice([1, 2, 2, 3, 3, 4, 5])
    cons = []
    for _ in range(n):
        kind = rng.choices(["fast", "slow", "stopped"], [40, 25, 35])[0]
        spawn_at = 0 if rng.random() < 0.4 else rng.randint(0, items - 1)
        c = {"kind": kind, "spawn_at": spawn_at}
        if kind == "stopped":
            c["limit"] = rng.choice([0, 0, 1, 2, 5, 12, 20])
            c["delay_us"] = rng.choice([0, 50, 300, 1500, 5000])
        else:
            c["despawn_at"] = rng.choice([spawn_at, spawn_at + 1, rng.randint(spawn_at, items), items, items + 5])
            if kind == "slow":
                c["slow_us"] = rng.choice([10, 40, 120, 300])
        cons.append(c)
    at0 = sum(1 for c in cons if c["spawn_at"] == 0)
    return {"name": "gen-%d" % idx, "gomaxprocs": PROCS[idx % len(PROCS)], "seed": rng.randrange(1, 2 ** 31),
            "icap": rng.choice([0, 1, 2, 8, 8, 8, 16]), "items": items, "jitter": rng.choice([0, 1, 2, 2]),
            "gate": rng.randint(0, at0), "bound_ms": BOUND_MS, "deadline_ms": 15000, "consumers": cons}


def gen_relay(rng, idx):
    em = rng.choice([1, 2, 3, 4, 8, 16])
    return {"name": "relay-%d" % idx, "gomaxprocs": PROCS[idx % len(PROCS)], "seed": rng.randrange(1, 2 ** 31),
            "emitters": em, "per_emitter": rng.choice([10, 30, 60, 120]) // (1 if em <= 4 else 2),
            "out_cap": rng.choice([0, 1, 8, 8, 8]), "in_cap": rng.choice([0, 1, 8, 8, 8]),
            "send_cap": rng.choice([0, 0, 1, 4]), "recv_cap": rng.choice([0, 0, 1, 4]),
            "in_items": rng.choice([0, 20, 60, 150]), "jitter": rng.choice([0, 1, 2, 2]),
            "port_slow_us": rng.choice([0, 0, 0, 30]), "bound_ms": 8000}


# ----------------------------------------------------------------------------- running the harnesses

def run_groups(binary, mode, scenarios, parallel, jobs=4):
    """Group scenarios by GOMAXPROCS (process-global), one harness process per group chunk. Returns list of
    (scenario, result-or-None, error-or-None) in the order of `scenarios`."""
    chunks = []
    for g in sorted({s["gomaxprocs"] for s in scenarios}):
        idx = [i for i, s in enumerate(scenarios) if s["gomaxprocs"] == g]
        size = max(1, (len(idx) + 1) // 2) if len(idx) > 40 else len(idx)
        for k in range(0, len(idx), size):
            chunks.append((g, idx[k:k + size]))

    def one(ch):
        g, idx = ch
        inp = {"gomaxprocs": g, "parallel": parallel, "scenarios": [scenarios[i] for i in idx]}
        return run_harness(binary, mode, inp, timeout=1500)

    with ThreadPoolExecutor(max_workers=jobs) as ex:
        outs = list(ex.map(one, chunks))
    res = [None] * len(scenarios)
    for (g, idx), (out, err) in zip(chunks, outs):
        if out is not None and (out.get("_exit", 0) != 0 or "DATA RACE" in out.get("_stderr", "")):
            # the race detector (or the test binary) failed the run although the history was written
            out, err = None, "harness exit %s: %s" % (out.get("_exit"), out.get("_stderr", "")[-1500:])
        for pos, i in enumerate(idx):
            if out is None:
                res[i] = (scenarios[i], None, err)
            else:
                res[i] = (scenarios[i], out["scenarios"][pos], None)
    return res


# ----------------------------------------------------------------------------- Coq evaluation

HEAD = ("From Coq Require Import List NArith Bool.\nFrom HIDI Require Import Run.TransportRun.\nImport ListNotations.\n"
        "Open Scope N_scope.\n")


def slack_of(sc):
    return max(1, sc["icap"]) + 2


def crec(c):
    ok = (c["spawn_returned"] and c["despawn_returned"] and c["reader_done"] and not c["spawn_err"] and not c["despawn_err"]
          and not c["panic"])
    return "(mkCrec %s %d %d %d %d %s %s)" % (cbool(ok), c["sc_done"], c["sr_started"], c["dc_done"], c["dr_started"],
                                                cbool(c["drained"]), clist([cN(x) for x in c["received"]]))


def eval_fanout(results, tag):
    """results: list of (scenario, history). Returns list of rejected consumer indices per history (decided in coqc)."""
    shards, cur, cost = [], [], 0
    for i, (sc, h) in enumerate(results):
        cur.append(i)
        cost += 50 + sum(len(c["received"]) for c in h["consumers"])
        if cost > 12000:
            shards.append(cur)
            cur, cost = [], 0
    if cur:
        shards.append(cur)
    items = []
    for k, sh in enumerate(shards):
        body = HEAD
        for i in sh:
            sc, h = results[i]
            recs = [crec(c) for c in h["consumers"] if c["spawn_called"]]
            body += "Definition H%d : list crec := %s.\n" % (i, clist(recs))
        body += "Definition REJ := Eval vm_compute in %s.\nPrint REJ.\n" % clist(
            ["(%d, accepts_history (mkHistory [] [] [] [] %d H%d), fanout_rejected %d H%d)"
             % (i, slack_of(results[i][0]), i, slack_of(results[i][0]), i) for i in sh])
        items.append(("c15_%s_fan_%d" % (tag, k), body))
    rej = {}
    for out in coq_eval_many(items):
        d = extract_defs(out)
        if "REJ" not in d or isinstance(d["REJ"], tuple) and d["REJ"][:1] == ("UNPARSED",):
            raise CheckError("cannot read REJ from coqc output: %r" % (d.get("REJ"),))
        for (i, acc, lst) in d["REJ"]:
            if acc != (not lst):
                raise CheckError("accepts_history and fanout_rejected disagree on history %d" % i)
            rej[i] = lst
    if len(rej) != len(results):
        raise CheckError("fan-out monitor evaluated %d of %d histories" % (len(rej), len(results)))
    return [rej[i] for i in range(len(results))]


def cmsg(m):
    return clist([cN(b) for b in m])


def eval_relay(results, tag):
    shards, cur, cost = [], [], 0
    for i, (sc, h) in enumerate(results):
        cur.append(i)
        cost += 50 + 2 * (len(h["port"]) + len(h["got"]))
        if cost > 4000:
            shards.append(cur)
            cur, cost = [], 0
    if cur:
        shards.append(cur)
    items = []
    for k, sh in enumerate(shards):
        body = HEAD
        for i in sh:
            sc, h = results[i]
            body += "Definition S%d : list (list msg) := %s.\n" % (i, clist([clist([cmsg(m) for m in e]) for e in h["sent"]]))
            body += "Definition P%d : list msg := %s.\n" % (i, clist([cmsg(m) for m in h["port"]]))
            body += "Definition A%d : list msg := %s.\n" % (i, clist([cmsg(m) for m in h["arrived"]]))
            body += "Definition G%d : list msg := %s.\n" % (i, clist([cmsg(m) for m in h["got"]]))
        body += "Definition RV := Eval vm_compute in %s.\nPrint RV.\n" % clist(
            ["(%d, accepts_history (mkHistory S%d P%d A%d G%d 0 []), relay_ok S%d P%d, in_ok A%d G%d)" % ((i,) * 9) for i in sh])
        items.append(("c15_%s_relay_%d" % (tag, k), body))
    verdict = {}
    for out in coq_eval_many(items):
        d = extract_defs(out)
        if "RV" not in d or isinstance(d["RV"], tuple):
            raise CheckError("cannot read RV from coqc output: %r" % (d.get("RV"),))
        for (i, acc, a, b) in d["RV"]:
            if acc != (a and b):
                raise CheckError("accepts_history disagrees with its parts on history %d" % i)
            verdict[i] = (a, b)
    if len(verdict) != len(results):
        raise CheckError("relay monitor evaluated %d of %d histories" % (len(verdict), len(results)))
    return [verdict[i] for i in range(len(results))]


# ----------------------------------------------------------------------------- explanations (python side: wording only)

def explain_consumer(sc, c, ci):
    k = "consumer %d (%s)" % (ci, c["kind"])
    if c["panic"]:
        return "%s: panic: %s" % (k, c["panic"])
    if not c["spawn_returned"]:
        return "%s: SpawnOutput did not return%s" % (k, (" (" + c["spawn_err"] + ")") if c["spawn_err"] else "")
    if not c["despawn_called"]:
        return "%s: scenario abandoned before its DespawnOutput was called" % k
    if not c["despawn_returned"]:
        return "%s: DespawnOutput(%d) did not return within %d ms" % (k, c["id"], sc["bound_ms"])
    if c["despawn_err"]:
        return "%s: DespawnOutput(%d) returned an error: %s" % (k, c["id"], c["despawn_err"])
    if not c["reader_done"]:
        return "%s: its channel was not closed within %d ms after DespawnOutput(%d) returned" % (k, sc["bound_ms"], c["id"])
    r = c["received"]
    for a, b in zip(r, r[1:]):
        if b != a + 1:
            return "%s: received %d right after %d (%s)" % (k, b, a, "duplicate/reordered" if b <= a else "gap: lost %d..%d" % (a + 1, b - 1))
    sl = slack_of(sc)
    if r:
        a, b = r[0], r[0] + len(r)
        if c["sc_done"] > a + sl:
            return "%s: first item %d although %d items had been pushed before SpawnOutput was called" % (k, a, c["sc_done"])
        if a > c["sr_started"]:
            return "%s: first item %d, but only %d items had been pushed when SpawnOutput returned (items %d..%d lost)" % (k, a, c["sr_started"], c["sr_started"], a - 1)
        if b > c["dr_started"]:
            return "%s: received up to item %d but only %d were pushed when DespawnOutput returned" % (k, b - 1, c["dr_started"])
        if c["drained"] and c["dc_done"] > b + sl:
            return "%s: segment ends at %d although %d items had been pushed before DespawnOutput was called (tail lost)" % (k, b, c["dc_done"])
    elif c["drained"] and c["dc_done"] > c["sr_started"] + sl:
        return "%s: received nothing although %d items were pushed between its attach (<= %d) and its DespawnOutput call" % (k, c["dc_done"] - c["sr_started"], c["sr_started"])
    return "%s: rejected by the monitor" % k


def d16_signature(sc, h, rejected):
    """D16 = a consumer stopped reading and a call then hung / the stream stalled; no safety defect in what was received."""
    if not any(c["kind"] == "stopped" for c in sc["consumers"]):
        return None
    if not h["abandoned"]:
        return None
    for c in h["consumers"]:
        r = c["received"]
        if any(b != a + 1 for a, b in zip(r, r[1:])) or c["panic"] or c["spawn_err"] or c["despawn_err"]:
            return None
    return D16_SIG


def relay_explain(h):
    if h["timeout"]:
        return "transport stalled: port received %d of %d messages, midiEventsIn delivered %d of %d" % (
            len(h["port"]), sum(len(e) for e in h["sent"]), len(h["got"]), len(h["arrived"]))
    for k, e in enumerate(h["sent"]):
        got = [m for m in h["port"] if m and (m[0] & 15) == k]
        if got != e:
            for j, (x, y) in enumerate(zip(got, e)):
                if x != y:
                    return "emitter %d: port received %r at its position %d where %r was sent (reordered, lost or altered)" % (k, x, j, y)
            return "emitter %d: sent %d messages, port received %d of them" % (k, len(e), len(got))
    if h["arrived"] != h["got"]:
        for j, (x, y) in enumerate(zip(h["got"], h["arrived"])):
            if x != y:
                return "input stream: midiEventsIn delivered %r at position %d where the port produced %r" % (x, j, y)
        return "input stream: port produced %d messages, midiEventsIn delivered %d" % (len(h["arrived"]), len(h["got"]))
    return "port received messages no emitter sent"


# ----------------------------------------------------------------------------- the check

def check_fanout(run_, binary, scenarios, tag, race, stats):
    parallel = 4
    res = run_groups(binary, "c15", scenarios, parallel)
    ok, seen = [], set()
    for sc, h, err in res:
        if h is None:
            if err not in seen:  # one report per failed batch
                seen.add(err)
                run_.violation("C15 fan-out harness crashed or hung while running a batch containing scenario %s: %s" % (sc["name"], err),
                               {"kind": "fanout-batch", "scenario": sc, "race": race, "error": err,
                                "monitor": "Run/TransportRun.v fanout_accepts"})
                stats["crashed"] += 1
            continue
        ok.append((sc, h))
    if not ok:
        return
    rej = eval_fanout(ok, tag)
    for (sc, h), r in zip(ok, rej):
        stats["fan"] += 1
        idx = [ci for ci, c in enumerate(h["consumers"]) if c["spawn_called"]]
        cons = [h["consumers"][ci] for ci in idx]
        stats["consumers"] += len(cons)
        stats["items"] += sum(len(c["received"]) for c in cons)
        sig = (sc["icap"], sc["jitter"], tuple((c["kind"], len(c["received"]) > 0, c["received"][:1] != [0]) for c in cons))
        if any(len(c["received"]) > 0 for c in cons) and len(cons) >= 1:
            stats["nontrivial"].add((sc["name"], sig))
        if any(c["kind"] == "stopped" and c["despawn_returned"] for c in cons):
            stats["stopped_despawned"] += 1
        if not r and not h["abandoned"]:
            continue
        why = [explain_consumer(sc, cons[ci], idx[ci]) for ci in r] if r else []
        if h["abandoned"]:
            why.insert(0, h["why"])
        what = "fan-out scenario %s (GOMAXPROCS=%d, cap %d%s): %s" % (sc["name"], sc["gomaxprocs"], sc["icap"],
                                                                     ", -race" if race else "", "; ".join(why[:4]))
        run_.violation(what, {"kind": "fanout-history", "scenario": sc, "race": race, "history": h, "rejected_consumers": [idx[ci] for ci in r],
                              "monitor": "Run/TransportRun.v fanout_accepts (slack = max 1 cap + 2)"},
                       signature=d16_signature(sc, h, r))
        stats["rejected"] += 1


def check_relay(run_, binary, scenarios, tag, race, stats):
    res = run_groups(binary, "c15relay", scenarios, 1)
    ok, seen = [], set()
    for sc, h, err in res:
        if h is None:
            if err not in seen:
                seen.add(err)
                run_.violation("C15 relay harness crashed or hung while running a batch containing scenario %s: %s" % (sc["name"], err),
                               {"kind": "relay-batch", "scenario": sc, "race": race, "error": err, "monitor": "Run/TransportRun.v relay_ok/in_ok"})
                stats["crashed"] += 1
            continue
        ok.append((sc, h))
    if not ok:
        return
    ver = eval_relay(ok, tag)
    for (sc, h), (a, b) in zip(ok, ver):
        stats["relay"] += 1
        stats["messages"] += len(h["port"]) + len(h["got"])
        if sc["emitters"] >= 2 and len(h["port"]) > 0:
            stats["nontrivial"].add((sc["name"], sc["emitters"], len(h["port"]), len(h["got"])))
        if a and b and not h["timeout"]:
            continue
        run_.violation("relay scenario %s (GOMAXPROCS=%d%s): %s" % (sc["name"], sc["gomaxprocs"], ", -race" if race else "", relay_explain(h)),
                       {"kind": "relay-history", "scenario": sc, "race": race, "history": h,
                        "monitor": "Run/TransportRun.v relay_ok (out) = %s, in_ok (in) = %s" % (a, b)})
        stats["rejected"] += 1


def build_all(run_, race):
    bins = {}
    for d in ("utils", "midi"):
        b, err = go_build(d, race=race)
        if b is None:
            run_.violation("C15 harness for package %s does not build against the repository%s: %s" % (d, " (-race)" if race else "", err),
                           {"theorem_or_correspondence": "C15 harness build (%s)" % d, "error": err}, no_input=True)
            return None
        bins[d] = b
    return bins


def ensure_c15_vo():
    """Until coq/_CoqProject lists Proofs/TransportProofs.v and Properties/C15.v (it is regenerated by coq/regen.sh), `make`
    does not build them: compile them here when their .vo is missing or older than what it depends on."""
    listed = open(os.path.join(COQ, "_CoqProject")).read()
    deps = ["theories/Model/Relay", "theories/Model/Fanout", "theories/Run/TransportRun"]
    for f in ("theories/Proofs/TransportProofs", "theories/Properties/C15"):
        if f + ".v" in listed:
            return
        vo = os.path.join(COQ, f + ".vo")
        src = [os.path.join(COQ, d + ".vo") for d in deps] + [os.path.join(COQ, f + ".v")]
        if not os.path.exists(vo) or any(os.path.getmtime(x) > os.path.getmtime(vo) for x in src if os.path.exists(x)):
            r = subprocess.run(["flock", os.path.join(WORKROOT, "make.lock"), "coqc", "-q", "-Q", "theories", "HIDI", "-w", "none", f + ".v"],
                               cwd=COQ, capture_output=True, text=True, timeout=1800)
            if r.returncode != 0:
                raise CheckError("coqc failed on %s.v: %s" % (f, (r.stdout + r.stderr)[-2000:]))
        deps.append(f)


def proof_side(run_):
    bad = scan_forbidden()
    if bad:
        raise CheckError("forbidden constructs in the Coq development: %s" % bad[:5])
    ensure_coq_built()
    ensure_c15_vo()
    run_.proof_obligations()


def run(run_):
    tier, rng = run_.tier, random.Random(run_.seed)
    proof_side(run_)
    stats = {"fan": 0, "relay": 0, "consumers": 0, "items": 0, "messages": 0, "rejected": 0, "crashed": 0,
             "stopped_despawned": 0, "nontrivial": set()}
    bins = build_all(run_, False)
    if bins is None:
        return
    n_fan, n_relay = (150, 40) if tier == "quick" else (12000, 1500)
    corpus = corpus_fanout()
    # the corpus (D16 first) always runs first, on its own
    check_fanout(run_, bins["utils"], corpus, "corpus", False, stats)
    d16_hit = bool(run_.violations) or bool(run_.known_hits)
    fan = [gen_fanout(rng, i) for i in range(n_fan)]
    relay = [gen_relay(rng, i) for i in range(n_relay)]
    if d16_hit:
        # every scenario with a stopped consumer would wait for the 2 s bound again: keep a few, say so in the evidence
        keep = [s for s in fan if not any(c["kind"] == "stopped" for c in s["consumers"])]
        withst = [s for s in fan if any(c["kind"] == "stopped" for c in s["consumers"])]
        fan = keep + withst[:8]
        run_.coverage["skipped_after_corpus_failure"] = len(withst) - len(withst[:8])
    check_fanout(run_, bins["utils"], fan, "gen", False, stats)
    check_relay(run_, bins["midi"], relay, "gen", False, stats)
    raced = 0
    if tier == "thorough":
        rb = build_all(run_, True)
        if rb is not None:
            fr = corpus + [gen_fanout(rng, 100000 + i) for i in range(2500)]
            rr = [gen_relay(rng, 100000 + i) for i in range(400)]
            if d16_hit:
                fr = [s for s in fr if not any(c["kind"] == "stopped" for c in s["consumers"])]
            check_fanout(run_, rb["utils"], fr, "race", True, stats)
            check_relay(run_, rb["midi"], rr, "race", True, stats)
            raced = len(fr) + len(rr)
    sample_fan = dict(fan[0], consumers=fan[0]["consumers"][:3]) if fan else corpus[0]
    run_.coverage.update({
        "evaluations": stats["fan"] + stats["relay"],
        "distinct_nontrivial": len(stats["nontrivial"]),
        "rule": "fan-out: corpus scenarios (D16 first) then seeded random scenarios - input capacity in {0,1,2,8,16}, 20-320 items, 1-5 consumers "
                "(fast / slow / stopped after k reads) attached and detached at random stream positions, schedule jitter (Gosched, sleeps, spins) "
                "derived from the scenario seed, GOMAXPROCS cycling over {1,2,4,16}, 4 scenarios concurrently per process; relay: 1-16 emitters x 5-120 "
                "tagged 3-byte messages, channel capacities {0,1,4,8}, 0-150 input messages of 1-3 bytes, slow or fast port. "
                "non-trivial = distinct histories in which at least one consumer received items (fan-out) or >= 2 emitters reached the port (relay); "
                "every history is judged in coqc by the monitor the soundness theorems are about",
        "samples": [{"fanout_scenario": corpus[0]}, {"fanout_scenario": sample_fan}, {"relay_scenario": relay[0] if relay else None}],
        "histories_fanout": stats["fan"], "histories_relay": stats["relay"], "consumers_checked": stats["consumers"],
        "items_delivered_checked": stats["items"], "relay_messages_checked": stats["messages"],
        "stopped_consumers_despawned_within_bound": stats["stopped_despawned"],
        "histories_under_race_detector": raced, "despawn_bound_ms": BOUND_MS,
        "generator": "one random.Random(seed) draws all scenario parameters; the Go side seeds its jitter PRNGs from the scenario seed",
        "exhaustive": False,
        "correspondence_obligations": 3,
    })
    run_.assumptions += [
        "Go's goroutine scheduler, channel, select and sync.Mutex semantics are modelled (DESIGN 3.7), not verified: the theorems hold for the "
        "labelled transition systems Model/Relay.v and Model/Fanout.v",
        "schedules the stress run did not produce are covered only by the theorems about the model; the property is partial in exactly that sense "
        "(the monitor accepts every model execution: C15_fanout_monitor_sound, C15_relay_monitor_sound, C15_in_monitor_sound)",
        "C15_despawn_completes is about the algorithm with fix F12 (fixed = true); for the repository's algorithm the model has the D16 "
        "deadlock (C15_despawn_stuck_refuted) and the harness observes it as a DespawnOutput that does not return within %d ms" % BOUND_MS,
        "with a never-ending input stream DespawnOutput additionally relies on sync.Mutex not starving a waiter (Go's starvation mode), assumed",
        "an unbuffered channel is modelled as a stage of capacity 1; stream positions are observed through two atomic counters (pushes started / "
        "completed) that bound the model's positions from the accepting side (C15_monitor_mono)",
        "not modelled: ctx cancellation and closing of midiEventsOut / the fan-out input (shutdown), port Open errors, logging, the score counters",
    ]


def replay(run_, data):
    """Re-run the recorded scenario on the current tree and re-judge it (the schedule itself is not reproducible, the
    scenario and its seed are); the recorded history is re-judged too so that the monitor's verdict can be reproduced."""
    proof_side(run_)
    rep = data["replay"]
    stats = {"fan": 0, "relay": 0, "consumers": 0, "items": 0, "messages": 0, "rejected": 0, "crashed": 0,
             "stopped_despawned": 0, "nontrivial": set()}
    bins = build_all(run_, bool(rep.get("race")))
    if bins is None:
        return
    if rep.get("kind", "").startswith("fanout"):
        for _ in range(3):
            check_fanout(run_, bins["utils"], [rep["scenario"]], "replay", bool(rep.get("race")), stats)
    elif rep.get("kind", "").startswith("relay"):
        for _ in range(3):
            check_relay(run_, bins["midi"], [rep["scenario"]], "replay", bool(rep.get("race")), stats)
    run_.coverage.update({"evaluations": stats["fan"] + stats["relay"], "distinct_nontrivial": len(stats["nontrivial"]),
                          "rule": "replay of one recorded scenario, three times", "samples": [rep.get("scenario")]})
