"""C15: MIDI transport - relay FIFO, fan-out segments, DespawnOutput always returns.

Histories are recorded from the real code by two stress harnesses (harness/go/utils, harness/go/midi) and judged by the
Coq monitor Run/TransportRun.v:accepts_history (= relay_ok && in_ok && fanout_accepts), which Proofs/TransportProofs.v proves sound for
every execution of the models.  The verdict is Coq's; python only generates scenarios and explains rejections.

Long sessions (harness modes c15long / c15fanlong, harness/go/*/verif_c15long_test.go): state that only goes wrong after a long
session (counters wrapping at 2^8 / 2^16, ring indices, id reuse after many attach/detach cycles) is exercised by sessions of 1600
(quick) to 72000+ messages per direction with scripted consumers that let every buffer fill up around every multiple of 256, and by
hundreds (quick) to 70000 (thorough) attach/detach cycles per fan-out session.  Their histories are written for coqc as runs of the
harness' counter sequence (Run/TransportLongRun.v, Proofs/TransportLongProofs.v) and judged by the same accepts_history.

Time-aged sessions (harness modes c15aged / c15fanaged): behaviour that depends on uptime (periodic timers) - one ProcessMidiEvents and
one DynamicFanOut per duration of AGED_S stay alive that long with sparse traffic, in the background of everything else; every message
that reaches the port / the devices is recorded exactly (empty or repeated ones included) and judged by accepts_history."""
import json, os, random, time
from concurrent.futures import ThreadPoolExecutor
from common import *

PROCS = [1, 2, 4, 16]
BOUND_MS = 2000
D16_SIG = "D16-despawn-deadlock"
EMBEDDED_D16 = {"name": "D16-cap8", "gomaxprocs": 4, "seed": 16, "icap": 8, "items": 40, "jitter": 1, "gate": 2,
                "bound_ms": BOUND_MS, "deadline_ms": 9000,
                "consumers": [{"kind": "fast", "spawn_at": 0, "despawn_at": 40},
                              {"kind": "stopped", "spawn_at": 0, "limit": 2, "delay_us": 20000}]}


# ----------------------------------------------------------------------------- scenario generators

def corpus_fanout():
    p = os.path.join(VERIF, "corpus", "C15.json")
    try:
        sc = json.load(open(p))["fanout"]
    except Exception:  # noqa
        sc = [EMBEDDED_D16]
    if not any(s["name"].startswith("D16") for s in sc):
        sc = [EMBEDDED_D16] + sc
    # a second DespawnOutput of an id that is no longer registered (it answers with its error) must leave no trace: the consumers that
    # attach afterwards are handed that id and receive everything from then on
    for g in (1, 4, 16):
        sc = sc + [{"name": "double-despawn-p%d" % g, "gomaxprocs": g, "seed": 77 + g, "icap": 8, "items": 120, "jitter": 1, "gate": 2,
                    "bound_ms": BOUND_MS, "deadline_ms": 9000,
                    "consumers": [{"kind": "fast", "spawn_at": 0, "despawn_at": 20, "double_despawn": True},
                                  {"kind": "fast", "spawn_at": 0, "despawn_at": 120},
                                  {"kind": "fast", "spawn_at": 40, "despawn_at": 100, "double_despawn": True},
                                  {"kind": "slow", "spawn_at": 60, "despawn_at": 110, "slow_us": 40}]}]
    return sc


def gen_fanout(rng, idx):
    items = rng.choice([20, 40, 80, 150, 300]) + rng.randint(0, 20)
    n = rng.choice([1, 2, 2, 3, 3, 4, 5])
    cons = []
    for _ in range(n):
        kind = rng.choices(["fast", "slow", "stopped"], [40, 25, 35])[0]
        spawn_at = 0 if rng.random() < 0.4 else rng.randint(0, items - 1)
        c = {"kind": kind, "spawn_at": spawn_at}
        if kind == "stopped":
            c["limit"] = rng.choice([0, 0, 1, 2, 5, 12, 20])
            c["delay_us"] = rng.choice([0, 50, 300, 1500, 5000])
        else:
            c["despawn_at"] = rng.choice([spawn_at, spawn_at + 1, rng.randint(spawn_at, items), items, items + 5])
            if kind == "slow":
                c["slow_us"] = rng.choice([10, 40, 120, 300])
        cons.append(c)
    at0 = sum(1 for c in cons if c["spawn_at"] == 0)
    return {"name": "gen-%d" % idx, "gomaxprocs": PROCS[idx % len(PROCS)], "seed": rng.randrange(1, 2 ** 31),
            "icap": rng.choice([0, 1, 2, 8, 8, 8, 16]), "items": items, "jitter": rng.choice([0, 1, 2, 2]),
            "gate": rng.randint(0, at0), "bound_ms": BOUND_MS, "deadline_ms": 15000, "consumers": cons}


def gen_relay(rng, idx):
    em = rng.choice([1, 2, 3, 4, 8, 16])
    return {"name": "relay-%d" % idx, "gomaxprocs": PROCS[idx % len(PROCS)], "seed": rng.randrange(1, 2 ** 31),
            "emitters": em, "per_emitter": rng.choice([10, 30, 60, 120]) // (1 if em <= 4 else 2),
            "out_cap": rng.choice([0, 1, 8, 8, 8]), "in_cap": rng.choice([0, 1, 8, 8, 8]),
            "send_cap": rng.choice([0, 0, 1, 4]), "recv_cap": rng.choice([0, 0, 1, 4]),
            "in_items": rng.choice([0, 20, 60, 150]), "jitter": rng.choice([0, 1, 2, 2]),
            "port_slow_us": rng.choice([0, 0, 0, 30]), "bound_ms": 8000}


# ----------------------------------------------------------------------------- long sessions (counter wraps, ring indices, id reuse)
#
# Capacities, read off the source (internal/pkg/midi/process.go, internal/pkg/utils/fan.go) - used only to choose where the
# scripted stalls start and to count how many of them filled everything (the harnesses detect "full" by the absence of
# progress, whatever the capacities are):
#   port -> devices: recv_cap (port's receive channel) + 1 (helper goroutine) + 10 (inEvents) + 1 (relay goroutine) + in_cap
#   devices -> port: out_cap (midiEventsOut) + 1 (relay goroutine's ev) + send_cap (port's send channel)
#   fan-out towards one consumer: icap (input channel) + 1 (run's e) + max(icap, 1) (its output channel)
# A blocked producer adds one message (per emitter) to the observed depth = sends started - messages received.
LONG_MIN = {"quick": 1600, "thorough": 72000}        # messages per direction in the longest sessions of the tier
COUNTER_MSGS = 81920                                 # Run/TransportLongRun.v: cmsg k j is injective for j < 81920 (TransportLongProofs.cmsg_inj)
STATUSES = [0x90, 0x80, 0xB0, 0xE0, 0xA0]            # = c15Statuses (harness) = cstatus (Run/TransportLongRun.v)
FREE = 1 << 40


def relay_caps(sc):
    return {"in": sc["recv_cap"] + sc["in_cap"] + 12, "out": sc["out_cap"] + sc["send_cap"] + 1}


def fan_cap(icap):
    return icap + 1 + max(icap, 1)


def long_ops(rng, items, cap, kind, idx, dense):
    """The consumer's script for one direction.  cap = messages the relay can hold in that direction.
    slide  : around every wrap point w: stop reading at w - (cap+4), let the producer run until it blocks (everything full), then
             cap+12 times: read one message, wait until the producer is blocked again - the buffers are full at every absolute
             index from w-(cap+4) to w+8, in particular while each of their slots is written with the messages w-1 and w
    full   : lockstep up to w - d (all buffers empty), producer runs ahead until it blocks, drain; d cycles through 0..cap+4 with the wrap number
             and the scenario index
    depth  : as full, but the producer runs only K in 1..cap messages ahead (partially filled buffers across the wrap)
    random : stalls of all three kinds at random indices, window (how far the producer may run ahead between stalls) changing at random
    dense = False: only the wrap points 256..1280, 32768 and 65536 (and their neighbours) get the treatment - for long sessions in the quick tier."""
    wraps = list(range(256, items, 256))
    if not dense:
        wraps = [w for w in wraps if w <= 1280 or w in (32768, 65280, 65536, 65792)]
    D = cap + 4
    ops = []
    if kind == "slide":
        for w in wraps:
            if w - D >= 0:
                ops.append({"at": w - D, "mode": "slide", "steps": D + 8, "k": 0, "window": -1})
    elif kind == "full":
        for n, w in enumerate(wraps):
            d = (idx + 3 * n) % (D + 1)
            ops.append({"at": max(0, w - d), "mode": "full", "steps": 0, "k": 0, "window": -1})
    elif kind == "depth":
        for w in wraps:
            ops.append({"at": max(0, w - rng.randint(0, D)), "mode": "depth", "steps": 0, "k": rng.randint(1, max(1, cap)), "window": -1})
    else:
        n_ops = max(20, items // (40 if dense else 600))
        for at in sorted(rng.sample(range(items), min(items, n_ops))):
            m = rng.choice(["full", "full", "depth", "slide", "window"])
            ops.append({"at": at, "mode": m, "steps": rng.randint(1, 6), "k": rng.randint(1, max(1, cap)),
                        "window": rng.choice([-1, -1, 0, 0, 1, 2, 5, cap, FREE])})
        for w in wraps:  # and still something at every wrap point
            ops.append({"at": max(0, w - rng.randint(0, D)), "mode": rng.choice(["full", "depth", "slide"]), "steps": rng.randint(1, D),
                        "k": rng.randint(1, max(1, cap)), "window": -1})
        ops.sort(key=lambda o: o["at"])
    # the Go side performs ops in order of `at` and skips those overtaken by a slide
    return [o for o in ops if o["at"] < items]


LONG_KINDS = ["slide", "full", "depth", "random"]


def gen_long_relay(rng, idx, items, dense=True, bound_ms=None, kinds=None):
    sc = {"name": "long-relay-%d-%d" % (items, idx), "gomaxprocs": PROCS[idx % len(PROCS)], "seed": rng.randrange(1, 2 ** 31),
          "out_cap": rng.choice([0, 1, 8, 8]), "in_cap": rng.choice([0, 1, 8, 8]), "send_cap": rng.choice([0, 0, 1, 4]),
          "recv_cap": rng.choice([0, 0, 1, 4]), "quiet_us": 300, "bound_ms": bound_ms or (120000 + items * 10)}
    caps = relay_caps(sc)
    # the two directions get different scripts; over four consecutive scenarios each direction sees every kind
    ko, ki = kinds or (LONG_KINDS[idx % 4], LONG_KINDS[(idx + 1 + idx // 4) % 4])
    em = 1 if items > 20000 or idx % 3 else rng.choice([2, 3])
    sc["out"] = {"items": items, "emitters": em, "window": 0 if ko != "random" else rng.choice([0, 1, 3, FREE]),
                 "jitter": rng.choice([0, 0, 1, 2]) if items <= 20000 else rng.choice([0, 0, 1]),
                 "kind": ko, "ops": long_ops(rng, items, caps["out"], ko, idx, dense)}
    sc["in"] = {"items": items, "emitters": 1, "window": 0 if ki != "random" else rng.choice([0, 1, 3, FREE]),
                "jitter": rng.choice([0, 0, 1, 2]) if items <= 20000 else rng.choice([0, 0, 1]),
                "kind": ki, "ops": long_ops(rng, items, caps["in"], ki, idx, dense)}
    return sc


def gen_long_fan(rng, idx, items, cycles, dense=True, stopped=True):
    icap = rng.choice([0, 1, 2, 8, 8, 16])
    cap = fan_cap(icap)
    kind = LONG_KINDS[idx % 4]
    nres = rng.choice([1, 2, 2, 3])
    res = [{"jitter": rng.choice([0, 0, 1]), "slow_us": 0, "ops": long_ops(rng, items, cap, kind, idx, dense)}]
    for k in range(1, nres):
        ops = []
        if rng.random() < 0.5:  # a second resident that stalls on its own now and then
            ops = [{"at": at, "mode": "full", "steps": 0, "k": 0, "window": -1}
                   for at in sorted(rng.sample(range(items), max(3, items // (400 if dense else 8000))))]
        res.append({"jitter": rng.choice([0, 1, 2]) if items <= 20000 else rng.choice([0, 1]),
                    "slow_us": rng.choice([0, 0, 0, 20]) if items <= 20000 else 0, "ops": ops})
    ipc = max(1, items // max(1, cycles))
    return {"name": "long-fan-%d-%d" % (items, idx), "gomaxprocs": PROCS[idx % len(PROCS)], "seed": rng.randrange(1, 2 ** 31),
            "icap": icap, "items": items, "cycles": cycles, "cyclers": rng.choice([2, 3, 4]), "max_want": min(12, 2 * ipc),
            "stopped_pct": rng.choice([0, 20, 40]) if stopped else 0, "patience_us": 100,
            "window": 0 if kind != "random" else rng.choice([0, 1, 3, FREE]), "jitter": rng.choice([0, 0, 1]), "kind": kind,
            "quiet_us": 300, "bound_ms": 10000, "deadline_ms": 300000 + 20 * (items + cycles), "residents": res}


# ----------------------------------------------------------------------------- running the harnesses

def run_groups(binary, mode, scenarios, parallel, jobs=4):
    """Group scenarios by GOMAXPROCS (process-global), one harness process per group chunk. Returns list of
    (scenario, result-or-None, error-or-None) in the order of `scenarios`."""
    chunks = []
    for g in sorted({s["gomaxprocs"] for s in scenarios}):
        idx = [i for i, s in enumerate(scenarios) if s["gomaxprocs"] == g]
        size = max(1, (len(idx) + 1) // 2) if len(idx) > 40 else len(idx)
        for k in range(0, len(idx), size):
            chunks.append((g, idx[k:k + size]))

    def one(ch):
        g, idx = ch
        inp = {"gomaxprocs": g, "parallel": parallel, "scenarios": [scenarios[i] for i in idx]}
        return run_harness(binary, mode, inp, timeout=1500)

    with ThreadPoolExecutor(max_workers=jobs) as ex:
        outs = list(ex.map(one, chunks))
    res = [None] * len(scenarios)
    for (g, idx), (out, err) in zip(chunks, outs):
        if out is not None and (out.get("_exit", 0) != 0 or "DATA RACE" in out.get("_stderr", "")):
            # the race detector (or the test binary) failed the run although the history was written
            out, err = None, "harness exit %s: %s" % (out.get("_exit"), out.get("_stderr", "")[-1500:])
        for pos, i in enumerate(idx):
            if out is None:
                res[i] = (scenarios[i], None, err)
            else:
                res[i] = (scenarios[i], out["scenarios"][pos], None)
    return res


# ----------------------------------------------------------------------------- Coq evaluation

HEAD = ("From Coq Require Import List NArith Bool.\nFrom HIDI Require Import Run.TransportRun.\nImport ListNotations.\n"
        "Open Scope N_scope.\n")


def slack_of(sc):
    return max(1, sc["icap"]) + 2


def sc_bound(c, slack):
    """the monitor demands  first item >= r_sc - slack.  Two sound lower bounds on the insertion point of a consumer are known when its
    SpawnOutput is called: the items whose push had completed (minus what may still be queued: the slack), and - exactly - one past the
    highest item some consumer had already RECEIVED (its broadcast round had begun, so the new consumer is inserted behind it)."""
    return max(c["sc_done"], c.get("sc_maxrecv", -1) + 1 + slack)


def crec(c, slack=0):
    ok = (c["spawn_returned"] and c["despawn_returned"] and c["reader_done"] and not c["spawn_err"] and not c["despawn_err"]
          and not c["panic"])
    return "(mkCrec %s %d %d %d %d %s %s)" % (cbool(ok), sc_bound(c, slack) if slack else c["sc_done"], c["sr_started"], c["dc_done"], c["dr_started"],
                                                cbool(c["drained"]), clist([cN(x) for x in c["received"]]))


def eval_fanout(results, tag):
    """results: list of (scenario, history). Returns list of rejected consumer indices per history (decided in coqc)."""
    shards, cur, cost = [], [], 0
    for i, (sc, h) in enumerate(results):
        cur.append(i)
        cost += 50 + sum(len(c["received"]) for c in h["consumers"])
        if cost > 12000:
            shards.append(cur)
            cur, cost = [], 0
    if cur:
        shards.append(cur)
    items = []
    for k, sh in enumerate(shards):
        body = HEAD
        for i in sh:
            sc, h = results[i]
            recs = [crec(c, slack_of(sc)) for c in h["consumers"] if c["spawn_called"]]
            body += "Definition H%d : list crec := %s.\n" % (i, clist(recs))
        body += "Definition REJ := Eval vm_compute in %s.\nPrint REJ.\n" % clist(
            ["(%d, accepts_history (mkHistory [] [] [] [] %d H%d), fanout_rejected %d H%d)"
             % (i, slack_of(results[i][0]), i, slack_of(results[i][0]), i) for i in sh])
        items.append(("c15_%s_fan_%d" % (tag, k), body))
    rej = {}
    for out in coq_eval_many(items):
        d = extract_defs(out)
        if "REJ" not in d or isinstance(d["REJ"], tuple) and d["REJ"][:1] == ("UNPARSED",):
            raise CheckError("cannot read REJ from coqc output: %r" % (d.get("REJ"),))
        for (i, acc, lst) in d["REJ"]:
            if acc != (not lst):
                raise CheckError("accepts_history and fanout_rejected disagree on history %d" % i)
            rej[i] = lst
    if len(rej) != len(results):
        raise CheckError("fan-out monitor evaluated %d of %d histories" % (len(rej), len(results)))
    return [rej[i] for i in range(len(results))]


def cmsg(m):
    return clist([cN(b) for b in m])


def eval_relay(results, tag):
    shards, cur, cost = [], [], 0
    for i, (sc, h) in enumerate(results):
        cur.append(i)
        cost += 50 + 2 * (len(h["port"]) + len(h["got"]))
        if cost > 4000:
            shards.append(cur)
            cur, cost = [], 0
    if cur:
        shards.append(cur)
    items = []
    for k, sh in enumerate(shards):
        body = HEAD
        for i in sh:
            sc, h = results[i]
            body += "Definition S%d : list (list msg) := %s.\n" % (i, clist([clist([cmsg(m) for m in e]) for e in h["sent"]]))
            body += "Definition P%d : list msg := %s.\n" % (i, clist([cmsg(m) for m in h["port"]]))
            body += "Definition A%d : list msg := %s.\n" % (i, clist([cmsg(m) for m in h["arrived"]]))
            body += "Definition G%d : list msg := %s.\n" % (i, clist([cmsg(m) for m in h["got"]]))
        body += "Definition RV := Eval vm_compute in %s.\nPrint RV.\n" % clist(
            ["(%d, accepts_history (mkHistory S%d P%d A%d G%d 0 []), relay_ok S%d P%d, in_ok A%d G%d)" % ((i,) * 9) for i in sh])
        items.append(("c15_%s_relay_%d" % (tag, k), body))
    verdict = {}
    for out in coq_eval_many(items):
        d = extract_defs(out)
        if "RV" not in d or isinstance(d["RV"], tuple):
            raise CheckError("cannot read RV from coqc output: %r" % (d.get("RV"),))
        for (i, acc, a, b) in d["RV"]:
            if acc != (a and b):
                raise CheckError("accepts_history disagrees with its parts on history %d" % i)
            verdict[i] = (a, b)
    if len(verdict) != len(results):
        raise CheckError("relay monitor evaluated %d of %d histories" % (len(verdict), len(results)))
    return [verdict[i] for i in range(len(results))]


# ----------------------------------------------------------------------------- long histories: compact notation
# A long history is handed to coqc as runs of the harness' counter sequence (Run/TransportLongRun.v expands them and the expanded lists go
# through accepts_history like any short history).  Everything below is notation: what is emitted is re-expanded here and compared with
# the recorded lists before coqc sees it, so a mistake in the compression is a machinery error, never a verdict.

HEADL = HEAD.replace("Run.TransportRun.", "Run.TransportRun Run.TransportLongRun.")


def py_cmsg(k, j):
    return [STATUSES[(j >> 14) % 5] | k, (j >> 7) & 0x7f, j & 0x7f]


def decode_cmsg(m):
    """(k, j) with py_cmsg(k, j) == m, or None"""
    if len(m) != 3 or (m[0] & 0xF0) not in STATUSES or not (0 <= m[1] < 128 and 0 <= m[2] < 128):
        return None
    return m[0] & 15, (STATUSES.index(m[0] & 0xF0) << 14) | (m[1] << 7) | m[2]


def compress_msgs(msgs):
    """list of messages -> list of ('run', k, start, len) | ('raw', msg)"""
    segs = []
    for m in msgs:
        d = decode_cmsg(m)
        if d is None:
            segs.append(("raw", list(m)))
            continue
        k, j = d
        if segs and segs[-1][0] == "run" and segs[-1][1] == k and segs[-1][2] + segs[-1][3] == j and j < COUNTER_MSGS:
            segs[-1] = ("run", k, segs[-1][2], segs[-1][3] + 1)
        else:
            segs.append(("run", k, j, 1))
    back = []
    for sg in segs:
        if sg[0] == "raw":
            back.append(sg[1])
        else:
            back.extend(py_cmsg(sg[1], j) for j in range(sg[2], sg[2] + sg[3]))
    if back != [list(m) for m in msgs]:
        raise CheckError("compact notation of a long relay history does not expand to the recorded history")
    return segs


def cmsegs(segs):
    return clist(["(MRaw %s)" % cmsg(sg[1]) if sg[0] == "raw" else "(MRun %d %d %d)" % (sg[1], sg[2], sg[3]) for sg in segs])


def compress_ints(xs):
    runs = []
    for x in xs:
        if runs and runs[-1][0] + runs[-1][1] == x:
            runs[-1][1] += 1
        else:
            runs.append([x, 1])
    back = [y for a, n in runs for y in range(a, a + n)]
    if back != list(xs):
        raise CheckError("compact notation of a long fan-out history does not expand to the recorded history")
    return runs


def long_crec(c):
    return "(long_crec %s %d %d %d %d %s %s)" % (cbool(c["ok"]), c["sc_done"], c["sr_started"], c["dc_done"], c["dr_started"], cbool(c["drained"]),
                                                 clist(["(%d, %d)" % (a, n) for a, n in compress_ints(c["received"])]))


def eval_long_relay(results, tag):
    """results: list of (scenario, history). Returns per history (relay_ok, in_ok, first differing position of the input direction or None)."""
    shards, cur, cost = [], [], 0
    comp = []
    for i, (sc, h) in enumerate(results):
        c = {"sent": [compress_msgs(e) for e in h["sent"]], "port": compress_msgs(h["port"]), "arrived": compress_msgs(h["arrived"]),
             "got": compress_msgs(h["got"])}
        comp.append(c)
        cur.append(i)
        cost += 2000 + len(h["port"]) + len(h["got"]) + 40 * (len(c["port"]) + len(c["got"]) + sum(len(e) for e in c["sent"]) + len(c["arrived"]))
        if cost > 250000:
            shards.append(cur)
            cur, cost = [], 0
    if cur:
        shards.append(cur)
    items = []
    for k, sh in enumerate(shards):
        body = HEADL
        for i in sh:
            c = comp[i]
            body += "Definition L%d : history := long_relay_history %s %s %s %s.\n" % (
                i, clist([cmsegs(e) for e in c["sent"]]), cmsegs(c["port"]), cmsegs(c["arrived"]), cmsegs(c["got"]))
        body += "Definition RV := Eval vm_compute in %s.\nPrint RV.\n" % clist(
            ["(%d, accepts_history L%d, relay_ok (h_sent L%d) (h_port L%d), in_ok (h_arrived L%d) (h_got L%d), "
             "option_map N.of_nat (first_diff (h_arrived L%d) (h_got L%d) 0))" % ((i,) * 8) for i in sh])  # as N: a unary nat of 65536 overflows the read-back
        items.append(("c15_%s_longrelay_%d" % (tag, k), body))
    verdict = {}
    for out in coq_eval_many(items):
        d = extract_defs(out)
        if "RV" not in d or isinstance(d["RV"], tuple):
            raise CheckError("cannot read RV from coqc output: %r" % (d.get("RV"),))
        for (i, acc, a, b, fd) in d["RV"]:
            if acc != (a and b):
                raise CheckError("accepts_history disagrees with its parts on long history %d" % i)
            verdict[i] = (a, b, fd[1] if isinstance(fd, tuple) else None)
    if len(verdict) != len(results):
        raise CheckError("relay monitor evaluated %d of %d long histories" % (len(verdict), len(results)))
    return [verdict[i] for i in range(len(results))], comp


def eval_long_fan(results, tag):
    """results: list of (scenario, history). All consumer records (residents, attach/detach cycles) of a session form one history;
    it is cut into parts of <= 1200 records for coqc (fanout_accepts is a forallb: the whole is accepted iff every part is -
    Proofs/TransportLongProofs.v fanout_accepts_app).  Returns the rejected record indices per history."""
    parts = []  # (history index, offset, records)
    for i, (sc, h) in enumerate(results):
        recs = h["records"]
        for off in range(0, max(1, len(recs)), 1200):
            parts.append((i, off, recs[off:off + 1200]))
    shards, cur, cost = [], [], 0
    for pi, (i, off, recs) in enumerate(parts):
        cur.append(pi)
        cost += 100 + len(recs)
        if cost > 1500:
            shards.append(cur)
            cur, cost = [], 0
    if cur:
        shards.append(cur)
    items = []
    for k, sh in enumerate(shards):
        body = HEADL
        for pi in sh:
            body += "Definition H%d : list crec := %s.\n" % (pi, clist([long_crec(c) for c in parts[pi][2]]))
        body += "Definition REJ := Eval vm_compute in %s.\nPrint REJ.\n" % clist(
            ["(%d, accepts_history (mkHistory [] [] [] [] %d H%d), fanout_rejected %d H%d)"
             % (pi, slack_of(results[parts[pi][0]][0]), pi, slack_of(results[parts[pi][0]][0]), pi) for pi in sh])
        items.append(("c15_%s_longfan_%d" % (tag, k), body))
    rej, seen = {i: [] for i in range(len(results))}, 0
    for out in coq_eval_many(items):
        d = extract_defs(out)
        if "REJ" not in d or isinstance(d["REJ"], tuple) and d["REJ"][:1] == ("UNPARSED",):
            raise CheckError("cannot read REJ from coqc output: %r" % (d.get("REJ"),))
        for (pi, acc, lst) in d["REJ"]:
            if acc != (not lst):
                raise CheckError("accepts_history and fanout_rejected disagree on part %d of a long history" % pi)
            rej[parts[pi][0]] += [parts[pi][1] + x for x in lst]
            seen += 1
    if seen != len(parts):
        raise CheckError("fan-out monitor evaluated %d of %d parts of the long histories" % (seen, len(parts)))
    return [sorted(rej[i]) for i in range(len(results))]


# ----------------------------------------------------------------------------- explanations (python side: wording only)

def explain_consumer(sc, c, ci):
    k = "consumer %d (%s)" % (ci, c["kind"])
    if c["panic"]:
        return "%s: panic: %s" % (k, c["panic"])
    if not c["spawn_returned"]:
        return "%s: SpawnOutput did not return%s" % (k, (" (" + c["spawn_err"] + ")") if c["spawn_err"] else "")
    if not c["despawn_called"]:
        return "%s: scenario abandoned before its DespawnOutput was called" % k
    if not c["despawn_returned"]:
        return "%s: DespawnOutput(%d) did not return within %d ms" % (k, c["id"], sc["bound_ms"])
    if c["despawn_err"]:
        return "%s: DespawnOutput(%d) returned an error: %s" % (k, c["id"], c["despawn_err"])
    if not c["reader_done"]:
        return "%s: its channel was not closed within %d ms after DespawnOutput(%d) returned" % (k, sc["bound_ms"], c["id"])
    r = c["received"]
    for a, b in zip(r, r[1:]):
        if b != a + 1:
            return "%s: received %d right after %d (%s)" % (k, b, a, "duplicate/reordered" if b <= a else "gap: lost %d..%d" % (a + 1, b - 1))
    sl = slack_of(sc)
    if r:
        a, b = r[0], r[0] + len(r)
        if c["sc_done"] > a + sl:
            return "%s: first item %d although %d items had been pushed before SpawnOutput was called" % (k, a, c["sc_done"])
        if c.get("sc_maxrecv", -1) >= a:
            return ("%s: first item %d although item %d had already been received by another consumer when its SpawnOutput was called "
                    "(a message that arrived before the device was connected)" % (k, a, c["sc_maxrecv"]))
        if a > c["sr_started"]:
            return "%s: first item %d, but only %d items had been pushed when SpawnOutput returned (items %d..%d lost)" % (k, a, c["sr_started"], c["sr_started"], a - 1)
        if b > c["dr_started"]:
            return "%s: received up to item %d but only %d were pushed when DespawnOutput returned" % (k, b - 1, c["dr_started"])
        if c["drained"] and c["dc_done"] > b + sl:
            return "%s: segment ends at %d although %d items had been pushed before DespawnOutput was called (tail lost)" % (k, b, c["dc_done"])
    elif c["drained"] and c["dc_done"] > c["sr_started"] + sl:
        return "%s: received nothing although %d items were pushed between its attach (<= %d) and its DespawnOutput call" % (k, c["dc_done"] - c["sr_started"], c["sr_started"])
    return "%s: rejected by the monitor" % k


def d16_signature(sc, h, rejected):
    """D16 = a consumer stopped reading and a call then hung / the stream stalled; no safety defect in what was received."""
    if not any(c["kind"] == "stopped" for c in sc["consumers"]):
        return None
    if not h["abandoned"]:
        return None
    for c in h["consumers"]:
        r = c["received"]
        if any(b != a + 1 for a, b in zip(r, r[1:])) or c["panic"] or c["spawn_err"] or c["despawn_err"]:
            return None
    return D16_SIG


def relay_explain(h):
    if h["timeout"]:
        return "transport stalled: port received %d of %d messages, midiEventsIn delivered %d of %d" % (
            len(h["port"]), sum(len(e) for e in h["sent"]), len(h["got"]), len(h["arrived"]))
    for k, e in enumerate(h["sent"]):
        got = [m for m in h["port"] if m and (m[0] & 15) == k]
        if got != e:
            for j, (x, y) in enumerate(zip(got, e)):
                if x != y:
                    return "emitter %d: port received %r at its position %d where %r was sent (reordered, lost or altered)" % (k, x, j, y)
            return "emitter %d: sent %d messages, port received %d of them" % (k, len(e), len(got))
    if h["arrived"] != h["got"]:
        for j, (x, y) in enumerate(zip(h["got"], h["arrived"])):
            if x != y:
                return "input stream: midiEventsIn delivered %r at position %d where the port produced %r" % (x, j, y)
        return "input stream: port produced %d messages, midiEventsIn delivered %d" % (len(h["arrived"]), len(h["got"]))
    return "port received messages no emitter sent"


# ----------------------------------------------------------------------------- the check

def check_fanout(run_, binary, scenarios, tag, race, stats):
    parallel = 4
    res = run_groups(binary, "c15", scenarios, parallel)
    ok, seen = [], set()
    for sc, h, err in res:
        if h is None:
            if err not in seen:  # one report per failed batch
                seen.add(err)
                run_.violation("C15 fan-out harness crashed or hung while running a batch containing scenario %s: %s" % (sc["name"], err),
                               {"kind": "fanout-batch", "scenario": sc, "race": race, "error": err,
                                "monitor": "Run/TransportRun.v fanout_accepts"})
                stats["crashed"] += 1
            continue
        ok.append((sc, h))
    if not ok:
        return
    rej = eval_fanout(ok, tag)
    for (sc, h), r in zip(ok, rej):
        stats["fan"] += 1
        idx = [ci for ci, c in enumerate(h["consumers"]) if c["spawn_called"]]
        cons = [h["consumers"][ci] for ci in idx]
        stats["consumers"] += len(cons)
        stats["items"] += sum(len(c["received"]) for c in cons)
        sig = (sc["icap"], sc["jitter"], tuple((c["kind"], len(c["received"]) > 0, c["received"][:1] != [0]) for c in cons))
        if any(len(c["received"]) > 0 for c in cons) and len(cons) >= 1:
            stats["nontrivial"].add((sc["name"], sig))
        if any(c["kind"] == "stopped" and c["despawn_returned"] for c in cons):
            stats["stopped_despawned"] += 1
        if not r and not h["abandoned"]:
            continue
        why = [explain_consumer(sc, cons[ci], idx[ci]) for ci in r] if r else []
        if h["abandoned"]:
            why.insert(0, h["why"])
        what = "fan-out scenario %s (GOMAXPROCS=%d, cap %d%s): %s" % (sc["name"], sc["gomaxprocs"], sc["icap"],
                                                                     ", -race" if race else "", "; ".join(why[:4]))
        run_.violation(what, {"kind": "fanout-history", "scenario": sc, "race": race, "history": h, "rejected_consumers": [idx[ci] for ci in r],
                              "monitor": "Run/TransportRun.v fanout_accepts (slack = max 1 cap + 2)"},
                       signature=d16_signature(sc, h, r))
        stats["rejected"] += 1


def check_relay(run_, binary, scenarios, tag, race, stats):
    res = run_groups(binary, "c15relay", scenarios, 1)
    ok, seen = [], set()
    for sc, h, err in res:
        if h is None:
            if err not in seen:
                seen.add(err)
                run_.violation("C15 relay harness crashed or hung while running a batch containing scenario %s: %s" % (sc["name"], err),
                               {"kind": "relay-batch", "scenario": sc, "race": race, "error": err, "monitor": "Run/TransportRun.v relay_ok/in_ok"})
                stats["crashed"] += 1
            continue
        ok.append((sc, h))
    if not ok:
        return
    ver = eval_relay(ok, tag)
    for (sc, h), (a, b) in zip(ok, ver):
        stats["relay"] += 1
        stats["messages"] += len(h["port"]) + len(h["got"])
        if sc["emitters"] >= 2 and len(h["port"]) > 0:
            stats["nontrivial"].add((sc["name"], sc["emitters"], len(h["port"]), len(h["got"])))
        if a and b and not h["timeout"]:
            continue
        run_.violation("relay scenario %s (GOMAXPROCS=%d%s): %s" % (sc["name"], sc["gomaxprocs"], ", -race" if race else "", relay_explain(h)),
                       {"kind": "relay-history", "scenario": sc, "race": race, "history": h,
                        "monitor": "Run/TransportRun.v relay_ok (out) = %s, in_ok (in) = %s" % (a, b)})
        stats["rejected"] += 1


def long_relay_explain(sc, h, comp, a, b, fd):
    if h["timeout"]:
        return "transport stalled: port received %d of %d messages, midiEventsIn delivered %d of %d (session bound %d ms)" % (
            len(h["port"]), sc["out"]["items"], len(h["got"]), sc["in"]["items"], sc["bound_ms"])
    if not b:
        arr, got = h["arrived"], h["got"]
        pos = fd if fd is not None else next((j for j, (x, y) in enumerate(zip(arr, got)) if x != y), min(len(arr), len(got)))

        def name(m):
            d = decode_cmsg(m)
            return "#%d %r" % (d[1], m) if d else repr(m)
        if pos < len(arr) and pos < len(got):
            ctx = [decode_cmsg(m)[1] if decode_cmsg(m) else m for m in got[max(0, pos - 2):pos + 12]]
            return ("input stream (port -> devices), after %d messages had been delivered in order: midiEventsIn delivered message %s at position %d "
                    "where the port had produced %s; delivered counters around it: %r; port produced %d messages, midiEventsIn delivered %d"
                    % (pos, name(got[pos]), pos, name(arr[pos]), ctx, len(arr), len(got)))
        return "input stream (port -> devices): port produced %d messages, midiEventsIn delivered %d (first %d in order)" % (len(arr), len(got), pos)
    for k, e in enumerate(h["sent"]):
        gotk = [m for m in h["port"] if m and (m[0] & 15) == k]
        if gotk != e:
            for j, (x, y) in enumerate(zip(gotk, e)):
                if x != y:
                    return ("output stream (devices -> port), emitter %d, after %d of its messages had reached the port in order: port received %r at its "
                            "position %d where %r was sent (reordered, lost or altered)" % (k, j, x, j, y))
            return "output stream (devices -> port): emitter %d sent %d messages, port received %d of them" % (k, len(e), len(gotk))
    return "port received messages no emitter sent"


def runs_json(segs):
    return [{"raw": sg[1]} if sg[0] == "raw" else {"emitter": sg[1], "first_counter": sg[2], "count": sg[3]} for sg in segs]


def stall_stats(stats, side, stalls, full_depth):
    for st in stalls:
        stats["stalls"][side] += 1
        if st["blocked"] and st["depth"] >= full_depth:
            stats["stalls_full"][side] += 1
            stats["full_at"][side].add(st["at"])


def check_long_relay(run_, binary, scenarios, tag, race, stats):
    res = run_groups(binary, "c15long", scenarios, 1)
    ok, seen = [], set()
    for sc, h, err in res:
        if h is None:
            if err not in seen:
                seen.add(err)
                run_.violation("C15 long-session relay harness crashed or hung while running a batch containing scenario %s: %s" % (sc["name"], err),
                               {"kind": "relay-long-batch", "scenario": dict(sc, out=dict(sc["out"], ops=len(sc["out"]["ops"])), **{"in": dict(sc["in"], ops=len(sc["in"]["ops"]))}),
                                "race": race, "error": err, "monitor": "Run/TransportRun.v relay_ok/in_ok"})
                stats["crashed"] += 1
            continue
        ok.append((sc, h))
    if not ok:
        return
    ver, comp = eval_long_relay(ok, tag)
    for (sc, h), (a, b, fd), c in zip(ok, ver, comp):
        stats["relay_long"] += 1
        stats["long_out"] += len(h["port"])
        stats["long_in"] += len(h["got"])
        stats["long_out_max"] = max(stats["long_out_max"], len(h["port"]))
        stats["long_in_max"] = max(stats["long_in_max"], len(h["got"]))
        caps = relay_caps(sc)
        stall_stats(stats, "out", h["out_stalls"], caps["out"] + sc["out"]["emitters"])
        stall_stats(stats, "in", h["in_stalls"], caps["in"] + 1)
        if len(h["port"]) > 256 and len(h["got"]) > 256 and (h["out_stalls"] or h["in_stalls"]):
            stats["nontrivial"].add((sc["name"], len(h["port"]), len(h["got"]), len(h["out_stalls"]), len(h["in_stalls"])))
        if a and b and not h["timeout"]:
            continue
        pos = fd
        near = [st for st in h["in_stalls"] if pos is not None and abs(st["at"] - pos) <= 64][:40]
        small = dict(sc, out=dict(sc["out"]), **{"in": dict(sc["in"])})
        run_.violation("long relay session %s (GOMAXPROCS=%d, caps out/send/recv/in %d/%d/%d/%d, %d messages per direction%s): %s"
                       % (sc["name"], sc["gomaxprocs"], sc["out_cap"], sc["send_cap"], sc["recv_cap"], sc["in_cap"], sc["in"]["items"],
                          ", -race" if race else "", long_relay_explain(sc, h, c, a, b, fd)),
                       {"kind": "relay-long-history", "scenario": small, "race": race,
                        "history_as_runs_of_the_counter_sequence": {
                            "sent": [runs_json(e) for e in c["sent"]], "port": runs_json(c["port"]),
                            "arrived": runs_json(c["arrived"]), "got": runs_json(c["got"])},
                        "first_difference_in": pos, "timeout": h["timeout"],
                        "got_around_first_difference": h["got"][max(0, pos - 4):pos + 16] if pos is not None else None,
                        "arrived_around_first_difference": h["arrived"][max(0, pos - 4):pos + 16] if pos is not None else None,
                        "consumer_stalls_near_first_difference": near,
                        "monitor": "Run/TransportRun.v accepts_history on Run/TransportLongRun.v long_relay_history: relay_ok (out) = %s, in_ok (in) = %s" % (a, b)})
        stats["rejected"] += 1


def long_rec_explain(sc, c, ri):
    k = "record %d (%s%s)" % (ri, c["kind"], ", output id %d" % c["id"] if c["kind"] != "resident" or c["ok"] else "")
    if not c["ok"]:
        return "%s: %s" % (k, c["why"] or "call did not complete")
    fake = {"kind": c["kind"], "panic": "", "spawn_returned": True, "spawn_err": "", "despawn_called": True, "despawn_returned": True,
            "despawn_err": "", "reader_done": True, "id": c["id"], "received": c["received"], "sc_done": c["sc_done"], "sr_started": c["sr_started"],
            "dc_done": c["dc_done"], "dr_started": c["dr_started"], "drained": c["drained"]}
    return explain_consumer(sc, fake, ri).replace("consumer %d" % ri, "record %d, output id %d," % (ri, c["id"]), 1)


def check_long_fan(run_, binary, scenarios, tag, race, stats):
    res = run_groups(binary, "c15fanlong", scenarios, 1)
    ok, seen = [], set()
    for sc, h, err in res:
        if h is None:
            if err not in seen:
                seen.add(err)
                run_.violation("C15 long-session fan-out harness crashed or hung while running a batch containing scenario %s: %s" % (sc["name"], err),
                               {"kind": "fanout-long-batch", "scenario": dict(sc, residents=len(sc["residents"])), "race": race, "error": err,
                                "monitor": "Run/TransportRun.v fanout_accepts"})
                stats["crashed"] += 1
            continue
        ok.append((sc, h))
    if not ok:
        return
    judge_long_fan(run_, ok, tag, race, stats)


def judge_long_fan(run_, ok, tag, race, stats, aged=False):
    """ok: list of (scenario, history) of the c15fanlong / c15fanaged harness; every consumer record is judged by fanout_accepts in coqc"""
    rej = eval_long_fan(ok, tag)
    for (sc, h), r in zip(ok, rej):
        recs = h["records"]
        cyc = [c for c in recs if c["kind"] != "resident"]
        if aged:
            a = stats["aged"]
            a["fanout_sessions"] += 1
            a["fanout_items"] += h["pushed"]
            a["fanout_cycles"] += len(cyc)
            a["fanout_uptime_s"].append(round(h["ms"] / 1000, 1))
            stats["consumers"] += len(recs)
            stats["items"] += sum(len(c["received"]) for c in recs)
            if h["pushed"] > 0 and h["ms"] >= sc["duration_ms"]:
                stats["nontrivial"].add((sc["name"], h["pushed"], len(cyc)))
            if not r and not h["abandoned"]:
                continue
            why = [long_rec_explain(sc, recs[ri], ri) for ri in r[:4]]
            if h["abandoned"]:
                why.insert(0, h["why"])
            run_.violation("time-aged fan-out session %s (alive for %.1f s, one item every %d-%d ms, quiet periods %s, cap %d, %d items, %d attach/detach "
                           "cycles, %d residents): %s" % (sc["name"], h["ms"] / 1000, sc["period_min_ms"], sc["period_max_ms"], sc["quiets"], sc["icap"],
                                                          h["pushed"], len(cyc), len(sc["residents"]), "; ".join(why[:4])),
                           {"kind": "fanout-aged-history", "scenario": sc, "race": race, "pushed": h["pushed"], "history": h, "rejected_records": r,
                            "monitor": "Run/TransportRun.v accepts_history / fanout_accepts (slack = max 1 cap + 2)"})
            stats["rejected"] += 1
            continue
        stats["fan_long"] += 1
        stats["consumers"] += len(recs)
        stats["items"] += sum(len(c["received"]) for c in recs)
        stats["fan_long_items"] += h["pushed"]
        stats["fan_long_items_max"] = max(stats["fan_long_items_max"], h["pushed"])
        stats["cycles"] += len(cyc)
        stats["cycles_max"] = max(stats["cycles_max"], len(cyc))
        stats["cycles_stopped"] += sum(1 for c in cyc if c["kind"] == "stopped")
        stats["cycles_received"] += sum(1 for c in cyc if c["received"])
        stats["max_id"] = max(stats["max_id"], h["max_id"])
        stall_stats(stats, "fan", [st for st in h["stalls"] if st["resident"] == 0], fan_cap(sc["icap"]) + 1)
        if len(cyc) >= 100 and any(c["received"] for c in cyc):
            stats["nontrivial"].add((sc["name"], h["pushed"], len(cyc), len(h["stalls"])))
        if not r and not h["abandoned"]:
            continue
        why = [long_rec_explain(sc, recs[ri], ri) for ri in r[:4]]
        if h["abandoned"]:
            why.insert(0, h["why"])
        run_.violation("long fan-out session %s (GOMAXPROCS=%d, cap %d, %d items, %d attach/detach cycles, %d residents%s): %s%s"
                       % (sc["name"], sc["gomaxprocs"], sc["icap"], h["pushed"], len(cyc), len(sc["residents"]), ", -race" if race else "",
                          "; ".join(why[:4]), "; %d records rejected in all" % len(r) if len(r) > 4 else ""),
                       {"kind": "fanout-long-history", "scenario": sc, "race": race, "pushed": h["pushed"], "cycles": len(cyc),
                        "abandoned": h["abandoned"], "why": h["why"], "rejected_records": r[:200],
                        "records": [dict(recs[ri], index=ri, received_runs=compress_ints(recs[ri]["received"]),
                                         received=recs[ri]["received"] if len(recs[ri]["received"]) <= 64 else "see received_runs")
                                    for ri in sorted(set(x for q in r[:20] for x in (q - 1, q, q + 1) if 0 <= x < len(recs)))],
                        "monitor": "Run/TransportRun.v accepts_history / fanout_accepts (slack = max 1 cap + 2) on every part of the record list"},
                       signature=D16_SIG if (not r and h["abandoned"] and sc["stopped_pct"] > 0 and "DespawnOutput" in h["why"]) else None)
        stats["rejected"] += 1


# ----------------------------------------------------------------------------- time-aged sessions (behaviour that depends on uptime)
# Periodic timers (statistics, keep-alives, watchdogs; typical periods 1, 5, 10, 30, 60, 120 s) fire after a wall-clock time whatever the
# traffic is: a session must simply stay alive long enough, and every message that reaches the port / the devices must be accounted for.
AGED_S = {"quick": [11.5], "thorough": [11.5, 31.0, 61.5, 125.0]}


def gen_aged(rng, idx, seconds):
    dur = int(seconds * 1000)
    nq = 2 if seconds < 20 else 3
    silent_start = bool(idx % 2) and seconds >= 20   # every other longer session: nothing at all is sent during its first seconds
    quiets, t = [], rng.randint(600, 1500)
    for k in range(nq):  # non-overlapping quiet periods of 1.5 - 2.5 s spread over the session
        lo = max(t, k * dur // nq)
        start = 0 if (silent_start and k == 0) else rng.randint(lo, max(lo, (k + 1) * dur // nq - 2600))
        ln = rng.randint(1500, 2500)
        quiets.append([start, ln])
        t = start + ln + 300
    base = {"seed": rng.randrange(1, 2 ** 31), "duration_ms": dur, "period_min_ms": 200, "period_max_ms": 300, "quiets": quiets}
    relay = dict(base, name="aged-relay-%gs" % seconds, grace_ms=600, stuck_ms=30000, emitters=1 + idx % 2,
                 out_cap=rng.choice([0, 8]), in_cap=rng.choice([0, 8]), send_cap=rng.choice([0, 1]), recv_cap=rng.choice([0, 1]))
    n_items = max(4, dur // 250)
    fan = dict(base, name="aged-fan-%gs" % seconds, gomaxprocs=4, icap=rng.choice([0, 1, 8]), items=n_items, cycles=max(2, n_items // 2), cyclers=2,
               max_want=3, stopped_pct=0, patience_us=600000, window=FREE, jitter=0, kind="aged", quiet_us=300, bound_ms=10000,
               deadline_ms=dur + 300000, residents=[{"jitter": 0, "slow_us": 0, "ops": []}, {"jitter": 0, "slow_us": 0, "ops": []}])
    return relay, fan


def start_aged(bins, scenarios):
    """Both harnesses start now, in the background (their sessions mostly sleep); join_aged collects and judges the histories."""
    ex = ThreadPoolExecutor(max_workers=2)
    longest = max(sc[0]["duration_ms"] for sc in scenarios) // 1000
    fr = ex.submit(run_harness, bins["midi"], "c15aged", {"gomaxprocs": 4, "scenarios": [r for r, f in scenarios]}, longest + 240)
    ff = ex.submit(run_harness, bins["utils"], "c15fanaged", {"gomaxprocs": 4, "scenarios": [f for r, f in scenarios]}, longest + 480)
    return {"executor": ex, "relay": fr, "fan": ff, "scenarios": scenarios, "t0": time.time()}


def aged_relay_explain(sc, h):
    """wording only: where the port / the devices saw something else than what was sent, with uptimes"""
    out = []
    if h["timeout"]:
        out.append("a send was still not accepted %d ms after the end of the session (transport stalled)" % sc["stuck_ms"])
    port, pms = h["port"], h["port_ms"]
    expect = {k: list(e) for k, e in enumerate(h["sent"])}
    last = {}
    for p, (m, ms) in enumerate(zip(port, pms)):
        k = (m[0] & 15) if m else None
        if k in expect and expect[k] and expect[k][0] == m:
            expect[k].pop(0)
            last[k] = (p, ms)
            continue
        what = "an empty message" if not m else "%r" % m
        dup = next(((q, qms) for q, (m2, qms) in enumerate(zip(port[:p], pms[:p])) if m2 == m and m), None)
        out.append("devices -> port: at uptime %.1f ms the port received %s as its message %d, which no emitter sent then%s"
                   % (ms, what, p, ": a second copy of port message %d (received at %.1f ms)" % (dup[0], dup[1]) if dup else ""))
        break
    else:
        miss = {k: len(e) for k, e in expect.items() if e}
        if miss:
            out.append("output stream (devices -> port): %s messages sent by emitters %s never reached the port" % (sum(miss.values()), sorted(miss)))
    arr, got, gms = h["arrived"], h["got"], h["got_ms"]
    if arr != got:
        p = next((j for j, (x, y) in enumerate(zip(arr, got)) if x != y), min(len(arr), len(got)))
        if p < len(got):
            out.append("input stream (port -> devices): at uptime %.1f ms midiEventsIn delivered %r as message %d where the port had produced %s"
                       % (gms[p], got[p], p, repr(arr[p]) if p < len(arr) else "nothing more"))
        else:
            out.append("input stream (port -> devices): the port produced %d messages, midiEventsIn delivered %d" % (len(arr), len(got)))
    return "; ".join(out) or "rejected by the monitor"


def join_aged(run_, aged, stats, race=False):
    scs = aged["scenarios"]
    (ro, rerr), (fo, ferr) = aged["relay"].result(), aged["fan"].result()
    aged["executor"].shutdown()
    stats["aged"]["waited_s"] = round(time.time() - aged["t0"], 1)
    for out, err, what in ((ro, rerr, "relay"), (fo, ferr, "fan-out")):
        if out is not None and (out.get("_exit", 0) != 0 or "DATA RACE" in out.get("_stderr", "")):
            out, err = None, "harness exit %s: %s" % (out.get("_exit"), out.get("_stderr", "")[-1500:])
        if out is None:
            run_.violation("C15 time-aged %s harness crashed or hung: %s" % (what, err),
                           {"kind": "aged-batch", "scenarios": [r if what == "relay" else f for r, f in scs], "error": err,
                            "monitor": "Run/TransportRun.v accepts_history"})
            stats["crashed"] += 1
            if what == "relay":
                ro = None
            else:
                fo = None
    if ro is not None:
        ok = [(r, h) for (r, f), h in zip(scs, ro["scenarios"])]
        ver = eval_relay(ok, "aged")   # short histories: literal lists, the same path as the short relay scenarios
        a = stats["aged"]
        for (sc, h), (va, vb) in zip(ok, ver):
            a["relay_sessions"] += 1
            a["relay_uptime_s"].append(round(h["uptime_ms"] / 1000, 1))
            a["messages_devices_to_port"] += len(h["port"])
            a["messages_port_to_devices"] += len(h["got"])
            stats["messages"] += len(h["port"]) + len(h["got"])
            if h["port"] and h["got"] and h["uptime_ms"] >= sc["duration_ms"]:
                stats["nontrivial"].add((sc["name"], len(h["port"]), len(h["got"])))
            if va and vb and not h["timeout"]:
                continue
            run_.violation("time-aged relay session %s (alive %.1f s, a message every %d-%d ms; sent %d, port received %d; port produced %d, "
                           "midiEventsIn delivered %d): %s"
                           % (sc["name"], h["uptime_ms"] / 1000, sc["period_min_ms"], sc["period_max_ms"], sum(len(e) for e in h["sent"]),
                              len(h["port"]), len(h["arrived"]), len(h["got"]), aged_relay_explain(sc, h)),
                           {"kind": "relay-aged-history", "scenario": sc, "race": race, "history": h,
                            "monitor": "Run/TransportRun.v accepts_history: relay_ok (out) = %s, in_ok (in) = %s" % (va, vb)})
            stats["rejected"] += 1
    if fo is not None:
        judge_long_fan(run_, [(f, h) for (r, f), h in zip(scs, fo["scenarios"])], "aged", race, stats, aged=True)


def build_all(run_, race):
    bins = {}
    for d in ("utils", "midi"):
        b, err = go_build(d, race=race)
        if b is None:
            run_.violation("C15 harness for package %s does not build against the repository%s: %s" % (d, " (-race)" if race else "", err),
                           {"theorem_or_correspondence": "C15 harness build (%s)" % d, "error": err}, no_input=True)
            return None
        bins[d] = b
    return bins


def ensure_c15_vo():
    """Until coq/_CoqProject lists Proofs/TransportProofs.v and Properties/C15.v (it is regenerated by coq/regen.sh), `make`
    does not build them: compile them here when their .vo is missing or older than what it depends on."""
    listed = open(os.path.join(COQ, "_CoqProject")).read()
    deps = ["theories/Model/Relay", "theories/Model/Fanout", "theories/Run/TransportRun"]
    for f in ("theories/Proofs/TransportProofs", "theories/Properties/C15", "theories/Run/TransportLongRun", "theories/Proofs/TransportLongProofs"):
        if f + ".v" in listed:
            deps.append(f)
            continue
        vo = os.path.join(COQ, f + ".vo")
        src = [os.path.join(COQ, d + ".vo") for d in deps] + [os.path.join(COQ, f + ".v")]
        if not os.path.exists(vo) or any(os.path.getmtime(x) > os.path.getmtime(vo) for x in src if os.path.exists(x)):
            r = subprocess.run(["flock", os.path.join(WORKROOT, "make.lock"), "coqc", "-q", "-Q", "theories", "HIDI", "-w", "none", f + ".v"],
                               cwd=COQ, capture_output=True, text=True, timeout=1800)
            if r.returncode != 0:
                raise CheckError("coqc failed on %s.v: %s" % (f, (r.stdout + r.stderr)[-2000:]))
        deps.append(f)


LONG_LEMMAS = ["nrange_nth", "expand_mrun_length", "expand_mrun_nth", "cmsg_inj", "cmsg_tag", "msg_eqb_cmsg", "in_ok_eq",
               "fanout_accepts_app", "accepts_history_fanout_app"]


def long_lemmas_closed():
    """The facts about the compact notation of long histories (Proofs/TransportLongProofs.v) must be proved without axioms."""
    body = "From HIDI Require Import Proofs.TransportLongProofs.\n" + "".join("Print Assumptions %s.\n" % n for n in LONG_LEMMAS)
    out = coq_eval("c15_long_lemmas", body)
    if out.count("Closed under the global context") != len(LONG_LEMMAS):
        raise CheckError("Proofs/TransportLongProofs.v: a lemma about the compact notation depends on axioms: %s" % out[-800:])


def proof_side(run_):
    bad = scan_forbidden()
    if bad:
        raise CheckError("forbidden constructs in the Coq development: %s" % bad[:5])
    ensure_coq_built()
    ensure_c15_vo()
    run_.proof_obligations()
    long_lemmas_closed()


def new_stats():
    return {"fan": 0, "relay": 0, "consumers": 0, "items": 0, "messages": 0, "rejected": 0, "crashed": 0, "stopped_despawned": 0,
            "nontrivial": set(), "relay_long": 0, "fan_long": 0, "long_out": 0, "long_in": 0, "long_out_max": 0, "long_in_max": 0,
            "fan_long_items": 0, "fan_long_items_max": 0, "cycles": 0, "cycles_max": 0, "cycles_stopped": 0, "cycles_received": 0, "max_id": 0,
            "stalls": {"out": 0, "in": 0, "fan": 0}, "stalls_full": {"out": 0, "in": 0, "fan": 0},
            "full_at": {"out": set(), "in": set(), "fan": set()},
            "aged": {"relay_sessions": 0, "fanout_sessions": 0, "relay_uptime_s": [], "fanout_uptime_s": [], "messages_devices_to_port": 0,
                     "messages_port_to_devices": 0, "fanout_items": 0, "fanout_cycles": 0, "waited_s": 0}}


def wraps_covered(full_at, margin=40):
    """multiples of 256 that have a completely-full stall within `margin` messages before them (the buffers then span the multiple)"""
    return sorted({w for at in full_at for w in [(at + margin) // 256 * 256] if w > 0 and 0 <= w - at <= margin} |
                  {at // 256 * 256 for at in full_at if at >= 256 and at % 256 <= 8})


def long_coverage(stats, long_relay, long_fan):
    cov = {"relay_sessions": stats["relay_long"], "fanout_sessions": stats["fan_long"],
           "messages_devices_to_port": stats["long_out"], "messages_port_to_devices": stats["long_in"],
           "longest_session_devices_to_port": stats["long_out_max"], "longest_session_port_to_devices": stats["long_in_max"],
           "fanout_items_pushed": stats["fan_long_items"], "longest_fanout_stream": stats["fan_long_items_max"],
           "attach_detach_cycles": stats["cycles"], "most_cycles_in_one_session": stats["cycles_max"],
           "cycles_detached_after_they_stopped_reading": stats["cycles_stopped"], "cycles_that_received_items": stats["cycles_received"],
           "highest_output_id_handed_out": stats["max_id"],
           "script_kinds": {k: {"devices_to_port": sum(1 for s in long_relay if s["out"]["kind"] == k),
                                "port_to_devices": sum(1 for s in long_relay if s["in"]["kind"] == k),
                                "fanout": sum(1 for s in long_fan if s["kind"] == k)} for k in LONG_KINDS}}
    for side, name in (("out", "devices_to_port"), ("in", "port_to_devices"), ("fan", "fanout_lead_resident")):
        fa = stats["full_at"][side]
        w = wraps_covered(fa)
        offs = sorted({at - (at + 40) // 256 * 256 for at in fa if -40 <= at - (at + 40) // 256 * 256 <= 8})
        cov["stalls_" + name] = {
            "scripted_stalls": stats["stalls"][side], "ended_with_every_buffer_full": stats["stalls_full"][side],
            "distinct_absolute_indices_with_every_buffer_full": len(fa),
            "multiples_of_256_spanned_by_full_buffers": len(w), "of_which_65536": 65536 in w,
            "first_multiples": w[:8],
            "offsets_from_the_multiple_covered": ("%d..%d (%d distinct)" % (offs[0], offs[-1], len(offs))) if offs else "none"}
    return cov


def long_plan(rng, tier, stopped=True):
    """Long sessions of the tier: (relay scenarios, fan-out scenarios).
    quick   : 16 relay sessions x 1600 messages per direction (wrap points 256..1536, every script kind in both directions, every
              GOMAXPROCS) + 1 x 72000 (slide in both directions, only around 256..1280, 32768, 65280, 65536, 65792); 8 fan-out sessions x 1600 items x >= 320 attach/detach
              cycles + 1 x 72000 items x >= 400 cycles
    thorough: 160 x 1600..4000 and 12 x 72000 with the scripts at every multiple of 256; fan-out 60 x (1600..4000 items, >= 320 cycles) and
              4 x (72000..200000 items, >= 70000 cycles)"""
    big = LONG_MIN["thorough"]
    if tier == "quick":
        relay = [gen_long_relay(rng, i, LONG_MIN["quick"]) for i in range(16)] + [gen_long_relay(rng, 16, big, dense=False, kinds=("slide", "slide"))]
        fan = [gen_long_fan(rng, i, LONG_MIN["quick"], 320, stopped=stopped) for i in range(8)] + \
              [gen_long_fan(rng, 8, big, 400, dense=False, stopped=stopped)]
    else:
        relay = [gen_long_relay(rng, i, rng.choice([1600, 1600, 2700, 4000])) for i in range(160)] + \
                [gen_long_relay(rng, 160 + i, big) for i in range(12)]
        fan = [gen_long_fan(rng, i, rng.choice([1600, 1600, 2700, 4000]), rng.choice([320, 600, 1200]), stopped=stopped) for i in range(60)] + \
              [gen_long_fan(rng, 60 + i, rng.choice([big, 120000, 200000]), 70000, stopped=stopped) for i in range(4)]
    return relay, fan


def run(run_):
    tier, rng = run_.tier, random.Random(run_.seed)
    proof_side(run_)
    stats = new_stats()
    bins = build_all(run_, False)
    if bins is None:
        return
    # time-aged sessions run in the background, next to everything else (own random stream)
    arng = random.Random(run_.seed * 37 + 4)
    aged_scs = [gen_aged(arng, i, sec) for i, sec in enumerate(AGED_S[tier])]
    aged = start_aged(bins, aged_scs)
    n_fan, n_relay = (150, 40) if tier == "quick" else (12000, 1500)
    corpus = corpus_fanout()
    # the corpus (D16 first) always runs first, on its own
    check_fanout(run_, bins["utils"], corpus, "corpus", False, stats)
    d16_hit = bool(run_.violations) or bool(run_.known_hits)
    fan = [gen_fanout(rng, i) for i in range(n_fan)]
    relay = [gen_relay(rng, i) for i in range(n_relay)]
    if d16_hit:
        # every scenario with a stopped consumer would wait for the 2 s bound again: keep a few, say so in the evidence
        keep = [s for s in fan if not any(c["kind"] == "stopped" for c in s["consumers"])]
        withst = [s for s in fan if any(c["kind"] == "stopped" for c in s["consumers"])]
        fan = keep + withst[:8]
        run_.coverage["skipped_after_corpus_failure"] = len(withst) - len(withst[:8])
    check_fanout(run_, bins["utils"], fan, "gen", False, stats)
    check_relay(run_, bins["midi"], relay, "gen", False, stats)
    # long sessions (own random stream: the scenarios above are the same as before they were added)
    lrng = random.Random(run_.seed * 31 + 15)
    long_relay, long_fan = long_plan(lrng, tier, stopped=not d16_hit)
    check_long_relay(run_, bins["midi"], long_relay, "gen", False, stats)
    check_long_fan(run_, bins["utils"], long_fan, "gen", False, stats)
    join_aged(run_, aged, stats)
    raced = 0
    if tier == "thorough":
        rb = build_all(run_, True)
        if rb is not None:
            fr = corpus + [gen_fanout(rng, 100000 + i) for i in range(2500)]
            rr = [gen_relay(rng, 100000 + i) for i in range(400)]
            if d16_hit:
                fr = [s for s in fr if not any(c["kind"] == "stopped" for c in s["consumers"])]
            check_fanout(run_, rb["utils"], fr, "race", True, stats)
            check_relay(run_, rb["midi"], rr, "race", True, stats)
            lr = [gen_long_relay(lrng, 1000 + i, 1600) for i in range(12)]
            lf = [gen_long_fan(lrng, 1000 + i, 1600, 320, stopped=not d16_hit) for i in range(12)]
            check_long_relay(run_, rb["midi"], lr, "race", True, stats)
            check_long_fan(run_, rb["utils"], lf, "race", True, stats)
            raced = len(fr) + len(rr) + len(lr) + len(lf)
    sample_fan = dict(fan[0], consumers=fan[0]["consumers"][:3]) if fan else corpus[0]
    run_.coverage.update({
        "evaluations": stats["fan"] + stats["relay"] + stats["relay_long"] + stats["fan_long"] + stats["aged"]["relay_sessions"] + stats["aged"]["fanout_sessions"],
        "distinct_nontrivial": len(stats["nontrivial"]),
        "rule": "fan-out: corpus scenarios (D16 first) then seeded random scenarios - input capacity in {0,1,2,8,16}, 20-320 items, 1-5 consumers "
                "(fast / slow / stopped after k reads) attached and detached at random stream positions, schedule jitter (Gosched, sleeps, spins) "
                "derived from the scenario seed, GOMAXPROCS cycling over {1,2,4,16}, 4 scenarios concurrently per process; relay: 1-16 emitters x 5-120 "
                "tagged 3-byte messages, channel capacities {0,1,4,8}, 0-150 input messages of 1-3 bytes, slow or fast port. "
                "long sessions (state that only goes wrong late: counters wrapping at 2^8 / 2^16, ring indices, id reuse): one ProcessMidiEvents "
                "instance carries %d (and, once per quick run / 12 times per thorough run, %d) counter-tagged messages in BOTH directions at once, "
                "channel capacities {0,1,4,8}; each direction's consumer follows a script: lockstep (all buffers empty) up to a point, then it stops "
                "reading until the producer is blocked in a send (all buffers of that direction full: port->devices recv_cap+12+in_cap messages, "
                "devices->port out_cap+1+send_cap, detected by the absence of progress, not by counting), then it drains or slides (reads one message, "
                "waits until the producer is blocked again, ...).  Script kinds, each used in both directions: slide = buffers full at every absolute "
                "index from w-(cap+4) to w+8 around every multiple w of 256 (quick, 72000-message session: only w <= 1280, 32768, 65536+-256); full = "
                "lockstep to w-d then full then drain, d cycling over 0..cap+4; depth = producer K in 1..cap ahead at w-d; random = stalls of all kinds "
                "at random indices with a randomly changing producer window.  fan-out long sessions: residents attached for the whole stream (the lead "
                "follows the same scripts; capacity icap+1+max(icap,1)), while 2-4 cyclers attach, read 0..n items, detach (reading on, or having "
                "stopped reading) over and over - ids reused all the time; every cycle and every resident is one consumer record for fanout_accepts. "
                "Long histories are written for coqc as runs of the counter sequence (Run/TransportLongRun.v expands them, "
                "Proofs/TransportLongProofs.v: cmsg_inj, cmsg_tag, accepts_history_fanout_app) and judged by the same accepts_history. "
                "time-aged sessions (behaviour that depends on uptime, e.g. periodic timers of 1, 5, 10, 30, 60, 120 s): one ProcessMidiEvents instance "
                "and one DynamicFanOut per duration in %s s stay alive that long, concurrently with all other scenarios, with one counter-tagged message per "
                "direction / one item every 200-300 ms and 2-3 quiet periods of 1.5-2.5 s; everything the port's send channel, midiEventsIn and the "
                "fan-out's consumers deliver until 0.6 s after the last message is recorded exactly with its uptime - an empty, malformed or repeated "
                "message included - and judged by accepts_history on the literal lists. "
                "non-trivial = distinct histories in which at least one consumer received items (fan-out), >= 2 emitters reached the port (relay), "
                "> 256 messages per direction with at least one scripted stall (long relay), >= 100 attach/detach cycles some of which received items "
                "(long fan-out), messages in both directions and the full uptime reached (time-aged); every history is judged in coqc by the monitor the "
                "soundness theorems are about" % (LONG_MIN["quick"], LONG_MIN["thorough"], AGED_S[tier]),
        "samples": [{"fanout_scenario": corpus[0]}, {"fanout_scenario": sample_fan}, {"relay_scenario": relay[0] if relay else None},
                    {"long_relay_scenario": dict(long_relay[0], out=dict(long_relay[0]["out"], ops=long_relay[0]["out"]["ops"][:3]),
                                                 **{"in": dict(long_relay[0]["in"], ops=long_relay[0]["in"]["ops"][:3])})},
                    {"long_fanout_scenario": dict(long_fan[0], residents=[dict(r, ops=r["ops"][:3]) for r in long_fan[0]["residents"]])}],
        "histories_fanout": stats["fan"], "histories_relay": stats["relay"], "consumers_checked": stats["consumers"],
        "items_delivered_checked": stats["items"], "relay_messages_checked": stats["messages"],
        "stopped_consumers_despawned_within_bound": stats["stopped_despawned"],
        "histories_under_race_detector": raced, "despawn_bound_ms": BOUND_MS,
        "long_sessions": long_coverage(stats, long_relay, long_fan),
        "time_aged_sessions": dict(stats["aged"], durations_s=AGED_S[tier], message_period_ms=[200, 300],
                                   quiet_periods_ms=[r["quiets"] for r, f in aged_scs], run_concurrently_with_the_other_scenarios=True),
        "generator": "one random.Random(seed) draws all scenario parameters; the Go side seeds its jitter PRNGs from the scenario seed",
        "exhaustive": False,
        "correspondence_obligations": 3,
    })
    run_.assumptions += [
        "Go's goroutine scheduler, channel, select and sync.Mutex semantics are modelled (DESIGN 3.7), not verified: the theorems hold for the "
        "labelled transition systems Model/Relay.v and Model/Fanout.v",
        "schedules the stress run did not produce are covered only by the theorems about the model; the property is partial in exactly that sense "
        "(the monitor accepts every model execution: C15_fanout_monitor_sound, C15_relay_monitor_sound, C15_in_monitor_sound)",
        "C15_despawn_completes is about the algorithm with fix F12 (fixed = true); for the repository's algorithm the model has the D16 "
        "deadlock (C15_despawn_stuck_refuted) and the harness observes it as a DespawnOutput that does not return within %d ms" % BOUND_MS,
        "with a never-ending input stream DespawnOutput additionally relies on sync.Mutex not starving a waiter (Go's starvation mode), assumed",
        "an unbuffered channel is modelled as a stage of capacity 1; stream positions are observed through two atomic counters (pushes started / "
        "completed) that bound the model's positions from the accepting side (C15_monitor_mono)",
        "long histories reach coqc as runs of the harness' counter sequence, expanded by Run/TransportLongRun.v (expand_msegs, expand_nruns) before "
        "accepts_history judges them; lib/c15.py re-expands what it emits and compares it with the recorded lists (a mismatch is a machinery error); "
        "Proofs/TransportLongProofs.v (no axioms): cmsg is injective on (emitter, counter) below 16 x 81920 and carries its emitter in msg_tag, a list of "
        "consumer records is accepted iff each of its parts is (accepts_history_fanout_app)",
        "the long-session harnesses detect 'producer blocked, every buffer full' by the absence of progress for 300 us: a wrong guess (slow machine) only "
        "lowers the measured coverage (stalls that 'ended_with_every_buffer_full'), it is never judged; their only time bounds are 10 s per "
        "SpawnOutput / DespawnOutput call and >= 120 s per session",
        "time-aged sessions observe uptimes up to %g s only: a timer with a longer period, or one armed by something else than the start of "
        "ProcessMidiEvents / NewDynamicFanOut, is not exercised" % max(AGED_S[tier]),
        "not modelled: ctx cancellation and closing of midiEventsOut / the fan-out input (shutdown), port Open errors, logging, the score counters",
    ]


def replay(run_, data):
    """Re-run the recorded scenario on the current tree and re-judge it (the schedule itself is not reproducible, the
    scenario and its seed are); the recorded history is re-judged too so that the monitor's verdict can be reproduced."""
    proof_side(run_)
    rep = data["replay"]
    stats = new_stats()
    bins = build_all(run_, bool(rep.get("race")))
    if bins is None:
        return
    if rep.get("kind", "") in ("relay-aged-history", "fanout-aged-history"):
        sc = rep["scenario"]
        pair = (sc, None) if rep["kind"].startswith("relay") else (None, sc)
        ex = ThreadPoolExecutor(max_workers=1)
        if pair[0]:
            fut = ex.submit(run_harness, bins["midi"], "c15aged", {"gomaxprocs": 4, "scenarios": [sc]}, sc["duration_ms"] // 1000 + 240)
            none = ex.submit(lambda: ({"scenarios": []}, None))
            aged = {"executor": ex, "relay": fut, "fan": none, "scenarios": [(sc, None)], "t0": time.time()}
        else:
            fut = ex.submit(run_harness, bins["utils"], "c15fanaged", {"gomaxprocs": 4, "scenarios": [sc]}, sc["duration_ms"] // 1000 + 480)
            none = ex.submit(lambda: ({"scenarios": []}, None))
            aged = {"executor": ex, "relay": none, "fan": fut, "scenarios": [(None, sc)], "t0": time.time()}
        join_aged(run_, aged, stats, bool(rep.get("race")))
    elif rep.get("kind", "").startswith("fanout-long"):
        for _ in range(3):
            check_long_fan(run_, bins["utils"], [rep["scenario"]], "replay", bool(rep.get("race")), stats)
    elif rep.get("kind", "").startswith("fanout"):
        for _ in range(3):
            check_fanout(run_, bins["utils"], [rep["scenario"]], "replay", bool(rep.get("race")), stats)
    elif rep.get("kind", "").startswith("relay-long"):
        for _ in range(3):
            check_long_relay(run_, bins["midi"], [rep["scenario"]], "replay", bool(rep.get("race")), stats)
    elif rep.get("kind", "").startswith("relay"):
        for _ in range(3):
            check_relay(run_, bins["midi"], [rep["scenario"]], "replay", bool(rep.get("race")), stats)
    run_.coverage.update({"evaluations": stats["fan"] + stats["relay"] + stats["relay_long"] + stats["fan_long"],
                          "distinct_nontrivial": len(stats["nontrivial"]),
                          "rule": "replay of one recorded scenario, three times", "samples": [rep.get("scenario")]})
