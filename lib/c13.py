"""C13: panic."""
import math
from common import *
import devgen, devrun
from devprop import DevProp

PANIC_KEY = 119   # KEY_PAUSE: outside every generator pool
PANIC_KEY2 = 127  # KEY_COMPOSE: a second key mapped to panic (held by the base history while the first is inserted: C13_transparent_general)


def k(code, val, sub=""):
    return {"t": "k", "sub": sub, "code": code, "val": val}


PAIRS = [("octave_up", "octave_down"), ("semitone_up", "semitone_down"), ("channel_up", "channel_down"), ("mapping_up", "mapping_down")]


def pair_held_positions(cfg, h):
    """for each position n: is a complete up/down pair held after h[:n]?"""
    acts = {a["code"]: a["action"] for a in cfg["actions"]}
    held = set()
    out = [False]
    for e in h:
        if e["t"] == "k" and e["code"] in acts:
            if e["val"] == 1:
                held.add(acts[e["code"]])
            elif e["val"] == 0:
                held.discard(acts[e["code"]])
        out.append(any(u in held and d in held for u, d in PAIRS))
    return out


class C13(DevProp):
    pid = "C13"
    fail_term = "c13_failures k"
    mis_term = "c13_mismatch k"
    nontrivial_term = "c13_has_trigger k"
    soak = True             # single-case monitor and view only (the twin comparison stays in the normal stage)
    in_soak = False
    monitor_name = ("C13 monitor (a triggered panic press emits exactly CC 123 + 128 Note Offs on the observed current channel and changes no visible "
                    "state; twin histories: inserting panic press+release changes no later output, the clean-up, or the final state)")
    correspondence_name = "C13 view (bytes of the panic steps)"
    rule = ("base alternating histories (all modes, channels 1-16 via defaults and channel walks, keys held or not); the panic key's press+release is "
            "inserted at every position where no up/down pair is held (quick: sampled positions), in 40 % of the configurations a second key mapped to panic is "
            "pressed/held by the base history (the case C13_transparent_general adds); each variant and the panic-free twin are run on the "
            "real device and compared; plus histories with several panics around an up/down chord (pair reset) of every kind and press order; non-trivial = distinct variants in which the panic triggered")

    def perturb(self, case, res):
        # falsify: one Note Off missing from the panic burst
        for st in res["steps"]:
            if len(st["midi"]) == 129:
                del st["midi"][77]
                return res
        return None

    def gen(self, rng, tier):
        self.twins = []
        cases = []
        n_base = 45 if tier == "quick" else 600
        for i in range(n_base):
            cfg, h = self.base_history(rng)
            bi = len(cases)
            cases.append({"cfg": cfg, "abs": [], "events": h, "tag": "base"})
            blocked = pair_held_positions(cfg, h)
            positions = [n for n in range(len(h) + 1) if not blocked[n]]
            if tier == "quick":
                positions = rng.sample(positions, min(len(positions), 5))
            for n in positions:
                ai = len(cases)
                cases.append({"cfg": cfg, "abs": [], "events": h[:n] + [k(PANIC_KEY, 1), k(PANIC_KEY, 0)] + h[n:], "tag": "panic-inserted"})
                self.twins.append((ai, bi, n))
        # several panics in one history, around an up/down chord (pair reset) of every kind and order: the burst must follow the
        # CURRENT channel after every kind of state change, also the ones that bypass the single-step actions
        for i in range(24 if tier == "quick" else 240):
            cfg = devgen.gen_config(rng, with_exit=False, actions=[a for a in devgen.ACTIONS if a != "panic"])
            cfg["channel"] = rng.randint(1, 16)
            cfg["actions"].append({"code": PANIC_KEY, "action": "panic"})
            code = {a["action"]: a["code"] for a in cfg["actions"]}
            tap = [k(PANIC_KEY, 1), k(PANIC_KEY, 0)]
            up, down = PAIRS[i % 4]
            first, second = (up, down) if (i // 4) % 2 == 0 else (down, up)
            h = devgen.gen_history(rng, cfg, rng.randint(0, 10), p_action=0.2, action_discipline=True)
            h += devgen.release_all(h)
            steps = rng.randint(1, 3)
            for _ in range(steps - 1):                      # walk away from the neutral value first
                h += [k(code[first], 1), k(code[first], 0)]
            h += [k(code[first], 1)] + (tap if rng.random() < 0.7 else [])          # panic while the first key of the pair is held
            h += [k(code[second], 1)]                                               # chord: reset
            rel = [k(code[first], 0), k(code[second], 0)]
            if rng.random() < 0.5:
                rel.reverse()
            h += [rel[0]] + (tap if rng.random() < 0.6 else []) + [rel[1]] + tap    # panic with one key still down / after both are up
            h += devgen.gen_history(rng, cfg, rng.randint(0, 8), p_action=0.2, action_discipline=True)
            cases.append({"cfg": cfg, "abs": [], "events": h, "tag": "panic-around-chord"})
        return cases

    def base_history(self, rng):
        cfg = devgen.gen_config(rng, with_exit=False, actions=[a for a in devgen.ACTIONS if a != "panic" and rng.random() < 0.8])
        cfg["channel"] = rng.randint(1, 16)
        two = rng.random() < 0.4
        if two:
            cfg["actions"].append({"code": PANIC_KEY2, "action": "panic"})
        h = devgen.gen_history(rng, cfg, rng.randint(8, 40), p_action=0.4 if two else 0.3)
        cfg["actions"].append({"code": PANIC_KEY, "action": "panic"})   # never pressed by the base history (alternation)
        if rng.random() < 0.5:
            h = h + devgen.release_all(h)
        return cfg, h

    def soak_case(self, rng):
        """stream of the extracted-model soak: a base history with the panic key's press+release inserted at one random position
        (any position: the single-case monitor decides from the history whether the press triggers), 1 in 5 the base history itself"""
        cfg, h = self.base_history(rng)
        if rng.random() < 0.2:
            return {"cfg": cfg, "abs": [], "events": h, "tag": "base"}
        n = rng.randint(0, len(h))
        return {"cfg": cfg, "abs": [], "events": h[:n] + [k(PANIC_KEY, 1), k(PANIC_KEY, 0)] + h[n:], "tag": "panic-inserted"}

    def run(self, run_, cases=None, replaying=False):
        if cases is not None:
            self.twins = []
        DevProp.run(self, run_, cases=cases, replaying=replaying)
        if cases is not None or not self.twins:
            return
        # a mere view difference (broken correspondence, no failing input) must not pre-empt the twin comparison, which may exhibit the
        # failing history; it is reported only if the twins find nothing either
        parked = []
        if run_.violations:
            if any(not v["no_input"] for v in run_.violations):
                return
            parked, run_.violations = run_.violations, []
        try:
            self.twin_stage(run_)
        finally:
            if not run_.violations:
                run_.violations = parked

    def twin_stage(self, run_):
        # twin comparison on the implementation's observations
        cases, results = self._cases, self._results
        items = []
        twins = self.twins
        shard = max(10, math.ceil(len(twins) / 8))
        for si in range(0, len(twins), shard):
            part = twins[si:si + shard]
            body = devrun.HEADER % ""
            for j, (a, b, n) in enumerate(part):
                body += "Definition t%d : tcase := Build_tcase %s %s %d%%nat.\n" % (
                    j, devrun.emit_kcase(cases[a], results[a]), devrun.emit_kcase(cases[b], results[b]), n)
            body += "Definition twins := %s.\n" % clist(["t%d" % j for j in range(len(part))])
            body += "Definition BAD := Eval vm_compute in enum_true (fun t => negb (c13_twin_ok t)) 0 twins.\nPrint BAD.\n"
            items.append(("c13twin_%d" % si, body))
        outs = coq_eval_many(items)
        bad = []
        for kk, out in enumerate(outs):
            d = extract_defs(out)
            if "BAD" not in d or isinstance(d["BAD"], tuple):
                raise CheckError("cannot read BAD from coqc output")
            bad += [twins[kk * shard + j] for j in d["BAD"]]
        run_.coverage["twin_pairs_compared"] = len(twins)
        run_.coverage["twin_failures"] = len(bad)
        run_.coverage["correspondence_obligations"] = 3
        binary, _ = go_build("device")
        for (a, b, n) in bad[:3]:
            run_.violation("inserting a press+release of the panic key after %d events changed later output, the clean-up or the final state "
                           "(C13_transparent fails on the implementation)" % n,
                           {"kind": "device-history-twin", "case": {kk: v for kk, v in cases[a].items() if kk != "tag"},
                            "twin_without_panic": {kk: v for kk, v in cases[b].items() if kk != "tag"}, "panic_inserted_after": n,
                            "implementation_with_panic": results[a], "implementation_without_panic": results[b],
                            "monitor": "c13_twin_ok"})

    def run_impl(self, binary, cases):
        results, err = DevProp.run_impl(self, binary, cases)
        if not self.in_soak:   # the twin stage compares the cases of the normal stage
            self._cases, self._results = cases, results
        return results, err


def run(run_):
    C13().run(run_)


def replay(run_, data):
    rep = data["replay"]
    p = C13()
    if rep.get("kind") == "device-history-twin":
        a, b, n = rep["case"], rep["twin_without_panic"], rep["panic_inserted_after"]

        def gen(rng, tier):
            p.twins = [(0, 1, n)]
            return [dict(a, tag="panic-inserted"), dict(b, tag="base")]
        p.gen = gen
        p.run(run_)
        return
    p.replay(run_, data)
