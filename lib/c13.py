"""C13: panic."""
import math
from common import *
import devgen, devrun
from devprop import DevProp

PANIC_KEY = 119   # KEY_PAUSE: outside every generator pool
PANIC_KEY2 = 127  # KEY_COMPOSE: a second key mapped to panic (held by the base history while the first is inserted: C13_transparent_general)


def k(code, val, sub=""):
    return {"t": "k", "sub": sub, "code": code, "val": val}


PAIRS = [("octave_up", "octave_down"), ("semitone_up", "semitone_down"), ("channel_up", "channel_down"), ("mapping_up", "mapping_down")]


def pair_held_positions(cfg, h):
    """for each position n: is a complete up/down pair held after h[:n]?"""
    acts = {a["code"]: a["action"] for a in cfg["actions"]}
    held = set()
    out = [False]
    for e in h:
        if e["t"] == "k" and e["code"] in acts:
            if e["val"] == 1:
                held.add(acts[e["code"]])
            elif e["val"] == 0:
                held.discard(acts[e["code"]])
        out.append(any(u in held and d in held for u, d in PAIRS))
    return out


class C13(DevProp):
    pid = "C13"
    fail_term = "c13_failures k"
    mis_term = "c13_mismatch k"
    nontrivial_term = "c13_has_trigger k"
    soak = True             # single-case monitor and view only (the twin comparison stays in the normal stage)
    in_soak = False
    monitor_name = ("C13 monitor (a triggered panic press emits exactly CC 123 + 128 Note Offs on the observed current channel and changes no visible "
                    "state; twin histories: inserting panic press+release changes no later output, the clean-up, or the final state)")
    correspondence_name = "C13 view (bytes of the panic steps)"
    rule = ("base alternating histories (all modes, channels 1-16 via defaults and channel walks, keys held or not); the panic key's press+release is "
            "inserted at every position where no up/down pair is held (quick: sampled positions), in 40 % of the configurations a second key mapped to panic is "
            "pressed/held by the base history (the case C13_transparent_general adds); each variant and the panic-free twin are run on the "
            "real device and compared; plus histories with several panics around an up/down chord (pair reset) of every kind and press order; non-trivial = distinct variants in which the panic triggered")

    def perturb(self, case, res):
        # falsify: one Note Off missing from the panic burst
        for st in res["steps"]:
            if len(st["midi"]) == 129:
                del st["midi"][77]
                return res
        return None

    def gen(self, rng, tier):
        self.twins = []
        cases = []
        n_base = 45 if tier == "quick" else 600
        for i in range(n_base):
            cfg, h = self.base_history(rng)
            bi = len(cases)
            cases.append({"cfg": cfg, "abs": [], "events": h, "tag": "base"})
            blocked = pair_held_positions(cfg, h)
            if len(cfg["exitseq"]) >= 3:
                # the panic key is one key of a three-key exit sequence: no insertion where the panic press would COMPLETE it (that press is the
                # exit request, swallowed by design); with the sequence only partly held panic is an ordinary panic
                others = set(cfg["exitseq"]) - {PANIC_KEY}
                down = set()
                for n, e in enumerate(h):
                    if others <= down:
                        blocked[n] = True
                    if e["t"] == "k" and e["val"] == 1:
                        down.add(e["code"])
                    elif e["t"] == "k" and e["val"] == 0:
                        down.discard(e["code"])
                if others <= down:
                    blocked[len(h)] = True
            positions = [n for n in range(len(h) + 1) if not blocked[n]]
            if tier == "quick":
                positions = rng.sample(positions, min(len(positions), 5))
            for n in positions:
                ai = len(cases)
                cases.append({"cfg": cfg, "abs": [], "events": h[:n] + [k(PANIC_KEY, 1), k(PANIC_KEY, 0)] + h[n:], "tag": "panic-inserted"})
                self.twins.append((ai, bi, n))
        # several panics in one history, around an up/down chord (pair reset) of every kind and order: the burst must follow the
        # CURRENT channel after every kind of state change, also the ones that bypass the single-step actions
        for i in range(24 if tier == "quick" else 240):
            cfg = devgen.gen_config(rng, with_exit=False, actions=[a for a in devgen.ACTIONS if a != "panic"])
            cfg["channel"] = rng.randint(1, 16)
            cfg["actions"].append({"code": PANIC_KEY, "action": "panic"})
            code = {a["action"]: a["code"] for a in cfg["actions"]}
            tap = [k(PANIC_KEY, 1), k(PANIC_KEY, 0)]
            up, down = PAIRS[i % 4]
            first, second = (up, down) if (i // 4) % 2 == 0 else (down, up)
            h = devgen.gen_history(rng, cfg, rng.randint(0, 10), p_action=0.2, action_discipline=True)
            h += devgen.release_all(h)
            steps = rng.randint(1, 3)
            for _ in range(steps - 1):                      # walk away from the neutral value first
                h += [k(code[first], 1), k(code[first], 0)]
            h += [k(code[first], 1)] + (tap if rng.random() < 0.7 else [])          # panic while the first key of the pair is held
            h += [k(code[second], 1)]                                               # chord: reset
            rel = [k(code[first], 0), k(code[second], 0)]
            if rng.random() < 0.5:
                rel.reverse()
            h += [rel[0]] + (tap if rng.random() < 0.6 else []) + [rel[1]] + tap    # panic with one key still down / after both are up
            h += devgen.gen_history(rng, cfg, rng.randint(0, 8), p_action=0.2, action_discipline=True)
            cases.append({"cfg": cfg, "abs": [], "events": h, "tag": "panic-around-chord"})
        return cases

    def base_history(self, rng):
        cfg = devgen.gen_config(rng, with_exit=False, actions=[a for a in devgen.ACTIONS if a != "panic" and rng.random() < 0.8])
        cfg["channel"] = rng.randint(1, 16)
        two = rng.random() < 0.4
        if two:
            cfg["actions"].append({"code": PANIC_KEY2, "action": "panic"})
        h = devgen.gen_history(rng, cfg, rng.randint(8, 40), p_action=0.4 if two else 0.3)
        cfg["actions"].append({"code": PANIC_KEY, "action": "panic"})   # never pressed by the base history (alternation)
        if rng.random() < 0.5:
            h = h + devgen.release_all(h)
        if rng.random() < 0.3:
            # an exit sequence of three keys, one of them the panic key, the other two ordinary keys the base history plays with
            pressed = []
            for e in h:
                if e["t"] == "k" and e["val"] == 1 and e["code"] not in pressed and e["code"] != PANIC_KEY2:
                    pressed.append(e["code"])
            if len(pressed) >= 2:
                cfg["exitseq"] = [pressed[0], PANIC_KEY, pressed[1]]
        return cfg, h

    def soak_case(self, rng):
        """stream of the extracted-model soak: a base history with the panic key's press+release inserted at one random position
        (any position: the single-case monitor decides from the history whether the press triggers), 1 in 5 the base history itself"""
        cfg, h = self.base_history(rng)
        if rng.random() < 0.2:
            return {"cfg": cfg, "abs": [], "events": h, "tag": "base"}
        n = rng.randint(0, len(h))
        return {"cfg": cfg, "abs": [], "events": h[:n] + [k(PANIC_KEY, 1), k(PANIC_KEY, 0)] + h[n:], "tag": "panic-inserted"}

    def run(self, run_, cases=None, replaying=False):
        if cases is not None:
            self.twins = []
        DevProp.run(self, run_, cases=cases, replaying=replaying)
        if cases is not None or not getattr(self, "twins", None):
            return
        # a mere view difference (broken correspondence, no failing input) must not pre-empt the twin comparison, which may exhibit the
        # failing history; it is reported only if the twins find nothing either
        parked = []
        if run_.violations:
            if any(not v["no_input"] for v in run_.violations):
                return
            parked, run_.violations = run_.violations, []
        try:
            self.twin_stage(run_)
        finally:
            if not run_.violations:
                run_.violations = parked

    def twin_stage(self, run_):
        # twin comparison on the implementation's observations
        cases, results = self._cases, self._results
        items = []
        twins = self.twins
        shard = max(10, math.ceil(len(twins) / 8))
        for si in range(0, len(twins), shard):
            part = twins[si:si + shard]
            body = devrun.HEADER % ""
            for j, (a, b, n) in enumerate(part):
                body += "Definition t%d : tcase := Build_tcase %s %s %d%%nat.\n" % (
                    j, devrun.emit_kcase(cases[a], results[a]), devrun.emit_kcase(cases[b], results[b]), n)
            body += "Definition twins := %s.\n" % clist(["t%d" % j for j in range(len(part))])
            body += "Definition BAD := Eval vm_compute in enum_true (fun t => negb (c13_twin_ok t)) 0 twins.\nPrint BAD.\n"
            items.append(("c13twin_%d" % si, body))
        outs = coq_eval_many(items)
        bad = []
        for kk, out in enumerate(outs):
            d = extract_defs(out)
            if "BAD" not in d or isinstance(d["BAD"], tuple):
                raise CheckError("cannot read BAD from coqc output")
            bad += [twins[kk * shard + j] for j in d["BAD"]]
        run_.coverage["twin_pairs_compared"] = len(twins)
        run_.coverage["twin_failures"] = len(bad)
        run_.coverage["correspondence_obligations"] = 3
        binary, _ = go_build("device")
        for (a, b, n) in bad[:3]:
            run_.violation("inserting a press+release of the panic key after %d events changed later output, the clean-up or the final state "
                           "(C13_transparent fails on the implementation)" % n,
                           {"kind": "device-history-twin", "case": {kk: v for kk, v in cases[a].items() if kk != "tag"},
                            "twin_without_panic": {kk: v for kk, v in cases[b].items() if kk != "tag"}, "panic_inserted_after": n,
                            "implementation_with_panic": results[a], "implementation_without_panic": results[b],
                            "monitor": "c13_twin_ok"})

    def run_impl(self, binary, cases):
        results, err = DevProp.run_impl(self, binary, cases)
        if not self.in_soak:   # the twin stage compares the cases of the normal stage
            self._cases, self._results = cases, results
        return results, err


class C13A(DevProp):
    """panic triggered through an action-emulating axis (and through a key while the axis is deflected): histories with axis events,
    judged on the full machine (float layer + state machine)"""
    pid = "C13"
    imports = "Model.AnalogF Model.AnalogSpec Run.AnalogRun"
    case_type = "acase"
    # a step at which the model emits a panic burst (>= 129 messages) and the implementation's bytes of that step differ
    fail_term = ("(fix go (i : nat) (ms os : list ostep) {struct ms} : list nat := match ms, os with "
                 "| m :: mr, o :: orr => (if (129 <=? length (o_midi m))%nat && negb (msgs_eqb (o_midi m) (o_midi o)) then [i] else []) ++ go (S i) mr orr "
                 "| _, _ => [] end) 0%nat (fst (amodel_trace k)) (ac_obs k)")
    mis_term = "afull_mismatch_perm k"
    nontrivial_term = None
    stream = True
    monitor_name = ("C13 monitor, axis histories (every step at which the panic action triggers per the model - through an action-emulating axis or a key - "
                    "carries exactly the burst on the implementation)")
    correspondence_name = "C13 view, axis histories (bytes, signals and State() of every step of the full machine)"
    rule = C13.rule

    def emit(self, case, res):
        import agen
        return agen.emit_acase(case, res)

    def nontrivial_py(self, case, res):
        return any(len(st["midi"]) >= 129 for st in res["steps"])

    def evaluate(self, cases, results, tag):
        evals = [("FAIL", "enum_fail (fun k => %s) 0 cases" % self.fail_term),
                 ("MIS", "enum_some (fun k => %s) 0 cases" % self.mis_term),
                 ("NT", "enum_true (fun k => false) 0 cases")]
        n = max(3, min(20, math.ceil(len(cases) / 8)))
        return devrun.eval_shards(cases, results, evals, imports=self.imports, shard=n, emit=self.emit, case_type=self.case_type, tag=tag + "a")

    def gen(self, rng, tier):
        import agen, copy
        cases = []
        PAX, OAX, CCX, KAX = agen.ABS_RY, agen.ABS_HAT0X, agen.ABS_X, agen.ABS_Z
        N1, N2, PKEY, MUP, MDN, CHU = 30, 31, 1, 65, 66, 63

        def a(code, val):
            return {"t": "a", "sub": "", "code": code, "val": val}
        for cmode in devgen.CMODES:
            for variant in range(6 if tier == "quick" else 40):
                neg = variant % 2 == 1
                m0 = [agen.analog(PAX, "action", act="panic" if not neg else "octave_up", actneg="octave_down" if not neg else "panic", bidi=True),
                      agen.analog(OAX, "action", act="semitone_up", actneg="semitone_down", bidi=True),
                      agen.analog(CCX, "cc", cc=20, ccneg=21, bidi=True),
                      # a key-emulating trigger on the current channel: held across a panic it releases with at most a redundant Note Off
                      # and starts nothing by itself
                      agen.analog(KAX, "key", note=67, noteneg=65, off=0, offneg=0, bidi=True)]
                m1 = [agen.analog(PAX, "cc", cc=30), agen.analog(OAX, "cc", cc=31), agen.analog(CCX, "cc", cc=20, ccneg=21, bidi=True),
                      agen.analog(KAX, "key", note=67, noteneg=65, off=0, offneg=0, bidi=True)]
                absl = [{"code": PAX, "min": -32768, "max": 32767}, {"code": OAX, "min": -1, "max": 1}, {"code": CCX, "min": -128, "max": 127},
                        {"code": KAX, "min": 0, "max": 255}]
                keys = [{"sub": "", "code": N1, "note": 60, "off": 0}, {"sub": "", "code": N2, "note": 64, "off": 3}]
                cfg = agen.base_cfg(m0, keys=keys, cmode=cmode, n_maps=2, channel=rng.choice([1, 2, 9, 16]),
                                    actions=[{"code": PKEY, "action": "panic"}, {"code": MUP, "action": "mapping_up"}, {"code": MDN, "action": "mapping_down"},
                                             {"code": CHU, "action": "channel_up"}])
                cfg["mappings"][1]["analog"] = m1
                s = -1 if neg else 1
                full, more, half, rest = s * 32767, s * 30000, s * 20000, 0
                tap = lambda c: [k(c, 1), k(c, 0)]
                if variant % 3 == 0:
                    # panic through the axis; the mapping is changed while it is deflected; it returns to rest as a plain controller; back; a
                    # note is held; the axis is deflected again (to another value): the burst must come again
                    ev = [k(N1, 1), a(PAX, full)] + tap(MUP) + [a(PAX, rest)] + tap(MDN) + [k(N2, 1), a(PAX, more), a(PAX, rest), k(N1, 0), k(N2, 0),
                                                                                              a(PAX, half), a(PAX, full), a(PAX, rest)]
                    # an emulated key and a controller deflected across panics (key and axis): further reports in the same zone, the other zone, rest
                    ev += [a(KAX, 255), a(CCX, 100), k(PKEY, 1), k(PKEY, 0), a(KAX, 250), a(CCX, -100), a(KAX, 3), a(PAX, full), a(KAX, 0), a(PAX, rest),
                           a(KAX, 128), a(CCX, 0)]
                elif variant % 3 == 1:
                    # the panic KEY is held while the panic axis is deflected, and the other way round
                    ev = [k(N1, 1), k(PKEY, 1), a(PAX, full), a(PAX, rest), k(PKEY, 0), a(PAX, more), k(PKEY, 1), k(PKEY, 0), a(PAX, rest), k(N1, 0)] + \
                        tap(CHU) + [k(N2, 1), a(PAX, full), k(N2, 0), a(PAX, rest)]
                else:
                    ev = []
                    down = set()
                    for _ in range(rng.randint(20, 50)):
                        r = rng.random()
                        if r < 0.3:
                            ev.append(a(PAX, rng.choice([full, more, half, rest, rest, -full if rng.random() < 0.3 else rest])))
                        elif r < 0.4:
                            ev.append(a(OAX, rng.choice([-1, 0, 1])))
                        elif r < 0.5:
                            ev.append(a(CCX, rng.randint(-128, 127)))
                        elif r < 0.56:
                            ev.append(a(KAX, rng.choice([0, 3, 128, 250, 255])))
                        elif r < 0.6:
                            ev += tap(rng.choice([MUP, MDN, CHU]))
                        else:
                            c = rng.choice([N1, N2, PKEY])
                            ev.append(k(c, 0 if c in down else 1))
                            down ^= {c}
                    ev += [k(c, 0) for c in sorted(down)] + [a(PAX, rest), a(OAX, 0), a(KAX, 128)]
                cases.append({"cfg": cfg, "abs": absl, "events": ev, "tag": "panic-axis-%d" % (variant % 3)})
        return cases


def run(run_):
    C13().run(run_)
    if not run_.violations:
        cov1 = dict(run_.coverage)
        C13A().run(run_)
        cov2 = run_.coverage
        for k_ in ("evaluations", "distinct_nontrivial", "monitor_failures", "view_mismatches", "crashes"):
            cov2[k_] = cov1.get(k_, 0) + cov2.get(k_, 0)
        cov2["generator_distribution"] = {"key_histories": cov1.get("generator_distribution"), "axis_histories": cov2.get("generator_distribution")}
        for k_ in ("twin_pairs_compared", "twin_failures", "self_test_falsified_observations", "self_test_flagged", "samples"):
            if k_ in cov1:
                cov2[k_] = cov1[k_]
        cov2["correspondence_obligations"] = cov1.get("correspondence_obligations", 3) + 2


def replay(run_, data):
    rep = data["replay"]
    p = C13()
    if rep.get("kind") == "device-history-twin":
        a, b, n = rep["case"], rep["twin_without_panic"], rep["panic_inserted_after"]

        def gen(rng, tier):
            p.twins = [(0, 1, n)]
            return [dict(a, tag="panic-inserted"), dict(b, tag="base")]
        p.gen = gen
        p.run(run_)
        return
    case = data["replay"].get("case")
    if case and case.get("abs"):
        return C13A().replay(run_, data)
    p.replay(run_, data)
