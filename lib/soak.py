"""Extracted-model soak: a high-volume SEARCH stage for the thorough tier of the key-history properties.

The decidable monitors of Run/DeviceRun.v are extracted to OCaml (coq/extract/) and run on many more histories than coqc can
parse.  The extracted code is never trusted for a verdict: every case it flags is re-evaluated by coqc/vm_compute on the same
Gallina terms (prop.evaluate) and only what the kernel confirms is reported through the property's normal path (prop.report);
a 1 % sample of the unflagged cases and a few deliberately falsified observations go through both evaluators too, and any
disagreement is a machinery failure (CheckError), not a verdict.  See FRAMEWORK.md, "Extracted-model soak"."""
import copy, random, subprocess, time
from common import *
import devgen, devrun

BUILD = os.path.join(COQ, "extract", "build.sh")


def build_driver():
    r = subprocess.run(["bash", BUILD], capture_output=True, text=True, timeout=1800)
    path = r.stdout.strip().split("\n")[-1] if r.stdout.strip() else ""
    if r.returncode != 0 or not os.path.exists(path):
        raise CheckError("extracted driver does not build (coq/extract/build.sh): " + (r.stdout + r.stderr)[-2000:])
    return path


def run_driver(driver, prop, cases, results, ids, name):
    """Extracted monitors of prop on (cases[i], results[i]) for i in ids -> {i: (failing steps, mismatch or None, nontrivial)}."""
    path = os.path.join(workdir(), "soak-%s-%s.txt" % (prop.pid, name))
    with open(path, "w") as fh:
        fh.write("# hidi-soak-cases v1 %s\n" % prop.pid)
        for i in ids:
            fh.write(devrun.emit_kcase_text(cases[i], results[i], i))
            fh.write("\n")
    r = subprocess.run([driver, prop.pid, path], capture_output=True, text=True, timeout=1800)
    if r.returncode != 0:
        raise CheckError("extracted driver failed (exit %d) on %s: %s" % (r.returncode, path, r.stderr[-1500:]))
    out = {}
    for line in r.stdout.split("\n"):
        if not line:
            continue
        f = line.split(" ")
        if len(f) != 5 or f[1] != prop.pid or f[2][:2] != "F:" or f[3][:2] != "M:" or f[4] not in ("N:0", "N:1"):
            raise CheckError("cannot read the extracted driver's output line %r" % line)
        out[int(f[0])] = ([] if f[2] == "F:-" else [int(x) for x in f[2][2:].split(",")],
                          None if f[3] == "M:-" else int(f[3][2:]), f[4] == "N:1")
    if sorted(out) != sorted(ids):
        raise CheckError("extracted driver answered %d of %d cases" % (len(out), len(ids)))
    os.unlink(path)
    return out


def kernel_verdicts(prop, cases, results, tag):
    """The same three terms under coqc/vm_compute -> ({i: (failing steps, mismatch or None, nontrivial)}, raw result of evaluate)."""
    m = prop.evaluate(cases, results, tag)
    fail = {it[0]: list(it[1]) for it in m["FAIL"]}
    mis = {it[0]: it[1] for it in m["MIS"]}
    nt = {it[0] for it in m["NT"]}
    return {i: (fail.get(i, []), mis.get(i), i in nt) for i in range(len(cases))}, m


def compare(prop, what, ids, extracted, kernel):
    """extracted[k], kernel[k]: verdicts of the k-th case; ids[k]: its number in the soak."""
    for k, i in enumerate(ids):
        if tuple(extracted[k]) != tuple(kernel[k]):
            raise CheckError("extracted model disagrees with coqc (%s, %s case %d): extracted (failing steps, mismatch, non-trivial) = %r, "
                             "vm_compute = %r" % (prop.pid, what, i, extracted[k], kernel[k]))


def self_test(prop, driver, cases, results, want=8):
    """Falsified observations (the property's own perturb) through both evaluators: the extracted monitors must flag them and agree
    with the kernel step for step.  On an unchanged tree nothing else exercises the 'flagged' half of the comparison."""
    pc, pr = [], []
    if not hasattr(prop, "perturb"):
        return 0
    for c, r in zip(cases, results):
        if r.get("panic") or r.get("hang"):
            continue
        r2 = prop.perturb(c, copy.deepcopy(r))
        if r2 is not None:
            pc.append(c)
            pr.append(r2)
        if len(pc) >= want:
            break
    if not pc:
        return 0
    ex = run_driver(driver, prop, pc, pr, list(range(len(pc))), "self")
    kv, _ = kernel_verdicts(prop, pc, pr, prop.pid.lower() + "soakself")
    compare(prop, "falsified observation", list(range(len(pc))), [ex[i] for i in range(len(pc))], [kv[i] for i in range(len(pc))])
    missed = [i for i in range(len(pc)) if not ex[i][0] and ex[i][1] is None]
    if missed:
        raise CheckError("soak self-test: %d of %d falsified observations were not flagged by the extracted %s monitor/view" % (
            len(missed), len(pc), prop.pid))
    return len(pc)


def run_soak(prop, run_, n_cases, seed, binary=None, batch=2000, sample=0.01, max_flagged=400):
    """Search n_cases fresh histories of prop's soak stream (prop.soak_case) for monitor failures / view mismatches."""
    t0 = time.time()
    driver = build_driver()
    if binary is None:
        binary, err = go_build("device")
        if binary is None:
            raise CheckError("device harness does not build: " + err)
    if hasattr(prop, "soak_case"):
        gen_one, gen_name = prop.soak_case, "%s.soak_case: %s" % (type(prop).__name__, " ".join((prop.soak_case.__doc__ or "").split()))
    else:
        def gen_one(rng):
            cfg = devgen.gen_config(rng)
            return {"cfg": cfg, "abs": [], "events": devgen.gen_history(rng, cfg, rng.randint(10, 70)), "tag": "generic"}
        gen_name = "generic: devgen.gen_config() + devgen.gen_history(10-70 events, defaults)"
    rng = random.Random("soak/%s/%d" % (prop.pid, seed))     # independent of the normal stage's stream
    samp = random.Random("soak-sample/%s/%d" % (prop.pid, seed))
    t = {"generate": 0.0, "implementation": 0.0, "extracted": 0.0, "coqc": 0.0}
    done = events = n_flag = n_conf = n_cross = n_crash = n_nt = n_self = 0
    tags, modes, lens = {}, {}, [0, 10 ** 9, 0]
    cross_c, cross_r, cross_i, cross_e = [], [], [], []
    stopped = None
    prop.in_soak = True
    try:
        first = True
        while done < n_cases and stopped is None:
            n = min(batch, n_cases - done)
            t1 = time.time()
            cases = [gen_one(rng) for _ in range(n)]
            t2 = time.time()
            results, err = prop.run_impl(binary, cases)
            t3 = time.time()
            t["generate"] += t2 - t1
            t["implementation"] += t3 - t2
            if results is None:
                run_.violation("device harness failed (extracted-model soak): " + err,
                               {"theorem_or_correspondence": prop.correspondence_name + " (harness run)", "error": err}, no_input=True)
                stopped = "harness failure"
                break
            for c in cases:
                L = len(c["events"])
                events += L
                lens = [lens[0] + L, min(lens[1], L), max(lens[2], L)]
                tags[c.get("tag", "random")] = tags.get(c.get("tag", "random"), 0) + 1
                modes[c["cfg"]["cmode"]] = modes.get(c["cfg"]["cmode"], 0) + 1
            crashed = [i for i, r in enumerate(results) if r.get("panic") or r.get("hang")]
            live = [i for i in range(n) if not (results[i].get("panic") or results[i].get("hang"))]
            ex = run_driver(driver, prop, cases, results, live, "b%d" % done)
            t4 = time.time()
            t["extracted"] += t4 - t3
            n_nt += sum(1 for i in live if ex[i][2])
            flagged = [i for i in live if ex[i][0] or ex[i][1] is not None]
            n_flag += len(flagged)
            n_crash += len(crashed)
            for i in live:
                if not (ex[i][0] or ex[i][1] is not None) and samp.random() < sample:
                    cross_c.append(cases[i])
                    cross_r.append(results[i])
                    cross_i.append(done + i)
                    cross_e.append(ex[i])
            if first:
                first = False
                t5 = time.time()
                n_self = self_test(prop, driver, cases, results)
                t["coqc"] += time.time() - t5
            if flagged or crashed:
                # the kernel decides: same terms, same cases, under vm_compute
                t5 = time.time()
                sub = crashed + flagged
                sc, sr = [cases[i] for i in sub], [results[i] for i in sub]
                kv, m = kernel_verdicts(prop, sc, sr, prop.pid.lower() + "soak")
                compare(prop, "flagged", [done + i for i in flagged], [ex[i] for i in flagged], [kv[len(crashed) + k] for k in range(len(flagged))])
                n_conf += len(flagged)
                before = len(run_.violations)
                prop.report(run_, binary, sc, sr, m, stage="extracted-model soak, confirmed by vm_compute: ", ids=[done + i for i in sub])
                t["coqc"] += time.time() - t5
                if len(run_.violations) > before:
                    stopped = "violation reported"
                elif n_flag >= max_flagged:
                    stopped = "%d flagged cases re-evaluated (all known findings)" % n_flag
            done += n
        # cross-check of the extraction on unflagged cases
        if cross_c:
            t5 = time.time()
            kv, _ = kernel_verdicts(prop, cross_c, cross_r, prop.pid.lower() + "soakx")
            compare(prop, "unflagged sample", cross_i, cross_e, [kv[k] for k in range(len(cross_c))])
            n_cross = len(cross_c)
            t["coqc"] += time.time() - t5
    finally:
        prop.in_soak = False
    secs = time.time() - t0
    run_.coverage["extracted_soak"] = {
        "cases": done, "events_total": events, "seconds": round(secs, 1),
        "seconds_by_stage": {k: round(v, 1) for k, v in t.items()},
        "cases_per_second": {k: (round(done / v) if v > 0.05 else None) for k, v in t.items() if k != "coqc"},
        "flagged": n_flag, "confirmed": n_conf, "crashes": n_crash, "cross_checked": n_cross,
        "self_test_falsified_observations_agreeing": n_self,
        "nontrivial_by_extracted_monitor": n_nt if prop.nontrivial_term else None,
        "stopped_early": stopped,
        "generator_distribution": {"stream": gen_name, "seed": "random.Random('soak/%s/%d')" % (prop.pid, seed), "streams": tags,
                                   "collision_modes": modes, "history_length_min": lens[1] if done else 0, "history_length_max": lens[2],
                                   "history_length_mean": round(lens[0] / max(done, 1), 1)},
        "role": "search only: flagged cases are re-evaluated by coqc/vm_compute (prop.evaluate) before anything is reported; "
                "extraction directives = ExtrOcamlBasic only (coq/extract/Extract.v)",
    }
    return run_.coverage["extracted_soak"]


def main():
    """python3 lib/soak.py Cxx [n]: the soak stage alone (no proof obligations, no normal stage) against $VERIF_REPO."""
    import importlib
    pid = sys.argv[1]
    n = int(sys.argv[2]) if len(sys.argv) > 2 else int(os.environ.get("VERIF_SOAK", "50000"))
    mod = importlib.import_module(pid.lower())
    prop = getattr(mod, pid)()
    r = Run(pid, "thorough", int(os.environ.get("VERIF_SEED", "20260930")))
    try:
        cov = run_soak(prop, r, n, r.seed)
        print(json.dumps(cov, indent=1))
    except CheckError as e:
        print("MACHINERY: %s" % e)
        return 2
    for k in r.known_hits:
        print("KNOWN-FINDING: property=%s %s" % (pid, k["id"]))
    for v in r.violations:
        print("VIOLATION (soak only, nothing written) property=%s%s\n  %s" % (pid, " no-failing-input-found" if v["no_input"] else "", v["what"][:400]))
        print("  shrunk history: %d events" % len(v["replay"].get("case", {}).get("events", [])))
    return 1 if r.violations else 0


if __name__ == "__main__":
    sys.exit(main())
