"""C05: every emitted message is well-formed MIDI."""
from common import *
import devgen
from devprop import DevProp
import c04


def k(code, val, sub=""):
    return {"t": "k", "sub": sub, "code": code, "val": val}


def tap(code):
    return [k(code, 1), k(code, 0)]


class C05(DevProp):
    pid = "C05"
    fail_term = "c05_failures k"
    mis_term = "c05_mismatch k"
    soak = True
    monitor_name = "C05 monitor (wf_msgb: status 0x8n/0x9n/0xBn/0xEn, two data bytes < 128) on every message of every step and of the clean-up"
    correspondence_name = "C05 view (per message: well-formed or not)"
    rule = ("configurations that go through the real ParseData (default channel 0/1/16/17, velocity 0/1/127/128, offsets 0/15/16 - rejected ones are "
            "skipped and counted) and directly constructed ones at the corners (channel 1 and 16, offsets 15, velocity 1/127), channel walks, panic on "
            "every channel, non-alternating and out-of-protocol key values, disconnect with notes held; non-trivial = distinct accepted cases whose "
            "output contains a panic burst or a message on channel 16")

    def nontrivial_py(self, case, res):
        for st in res["steps"]:
            if len(st["midi"]) >= 129:
                return True
            for m in st["midi"]:
                if m and (m[0] & 15) == 15:
                    return True
        return False

    def run_impl(self, binary, cases):
        results, err = DevProp.run_impl(self, binary, cases)
        if results is None:
            return results, err
        self.rejected = 0
        for c, r in zip(cases, results):
            if r.get("rejected"):
                self.rejected += 1
                # a rejected configuration is outside the property's quantifier: empty history, nothing to check
                c["events"] = []
                r["steps"] = []
        return results, err

    def perturb(self, case, res):
        # falsify: a data byte with the top bit set
        for st in res["steps"]:
            for m in st["midi"]:
                m[2] = 200
                return res
        return None

    def gen(self, rng, tier):
        cases = []
        ACT = c04.ACT
        # through the real parser: corner defaults
        for ch in (0, 1, 2, 16, 17, -1, 255, 256):
            for vel in (0, 1, 64, 127, 128):
                for off in (0, 15):
                    cfg = c04.base_cfg(rng, rng.choice(devgen.CMODES), [(60, off), (127, off), (0, 0)], {"channel": ch, "velocity": vel})
                    ev = tap(16) + tap(ACT["panic"]) + [k(17, 1)] + tap(ACT["channel_up"]) * 3 + tap(ACT["panic"]) + tap(ACT["channel_down"]) * 20 + tap(ACT["panic"]) + tap(18)
                    case = {"cfg": cfg, "abs": [], "events": ev, "toml": devgen.to_toml(cfg), "tag": "parsed-corner"}
                    if vel == 0:
                        cfg["velocity"] = 64   # the parser maps 0 to 64; the description the model sees says so too
                        case["toml"] = case["toml"].replace("velocity = 64", "velocity = 0")
                    cases.append(case)
        # panic on every channel, walks
        for ch in range(1, 17):
            cfg = c04.base_cfg(rng, rng.choice(devgen.CMODES), [(60, 15), (1, 1)], {"channel": ch, "velocity": rng.choice([1, 127])})
            ev = [k(16, 1)] + tap(ACT["panic"]) + tap(ACT["channel_up"]) * 17 + tap(ACT["panic"]) + [k(17, 1)] + tap(ACT["octave_up"]) * 12 + tap(16)
            cases.append({"cfg": cfg, "abs": [], "events": ev, "tag": "panic-every-channel"})
        # hostile key values: non-alternating, repeats, values outside 0/1/2
        for i in range(60 if tier == "quick" else 2000):
            cases.append(self.hostile_case(rng))
        for i in range(120 if tier == "quick" else 5000):
            cases.append(self.random_case(rng))
        return cases

    def hostile_case(self, rng):
        cfg = devgen.gen_config(rng, with_exit=(rng.random() < 0.3))
        codes = devgen.all_codes(cfg)
        ev = []
        for _ in range(rng.randint(10, 60)):
            sub, code = rng.choice(codes)
            ev.append(k(code, rng.choice([0, 1, 1, 1, 2, 3, -1]), sub))
        return {"cfg": cfg, "abs": [], "events": ev, "tag": "hostile-values"}

    def random_case(self, rng):
        cfg = devgen.gen_config(rng, with_exit=(rng.random() < 0.2))
        h = devgen.gen_history(rng, cfg, rng.randint(10, 60), p_action=0.4)
        return {"cfg": cfg, "abs": [], "events": h, "tag": "random"}

    def soak_case(self, rng):
        """stream of the extracted-model soak: the 'hostile-values' and 'random' streams in the thorough tier's 2:5 proportion
        (directly constructed configurations; the parser corners are exhaustive in the normal stage)"""
        return self.hostile_case(rng) if rng.random() < 2 / 7 else self.random_case(rng)

    def extra_coverage(self, run_, cases, results, m):
        run_.coverage["configurations_rejected_by_parser"] = getattr(self, "rejected", 0)
        run_.coverage["messages_checked"] = sum(len(st["midi"]) for r in results for st in r["steps"]) + sum(len(r["cleanup"]) for r in results)


class C05A(DevProp):
    """the same monitor on histories with axis events (float layer)"""
    pid = "C05"
    imports = "Model.AnalogF Model.AnalogSpec Run.AnalogRun"
    case_type = "acase"
    fail_term = "c05a_failures k"
    mis_term = "afull_mismatch_perm k"      # multiset of bytes, signals and State() of every step of the full machine (float layer + state machine)
    nontrivial_term = None
    monitor_name = C05.monitor_name
    correspondence_name = "C05 view (per message: well-formed or not), axis events"
    rule = C05.rule

    def emit(self, case, res):
        import agen
        return agen.emit_acase(case, res)

    def nontrivial_py(self, case, res):
        return any(st["midi"] for st in res["steps"])

    def evaluate(self, cases, results, tag):
        import math, devrun
        evals = [("FAIL", "enum_fail (fun k => %s) 0 cases" % self.fail_term),
                 ("MIS", "enum_some (fun k => %s) 0 cases" % self.mis_term),
                 ("NT", "enum_true (fun k => false) 0 cases")]
        n = max(3, min(20, math.ceil(len(cases) / 8)))
        return devrun.eval_shards(cases, results, evals, imports=self.imports, shard=n, emit=self.emit, case_type=self.case_type, tag=tag + "a")

    def gen(self, rng, tier):
        import agen, struct
        from agen import bits
        cases = []
        ranges = [(-128, 127), (-127, 127), (0, 255), (-32768, 32767), (0, 65535), (-1, 1), (0, 1023), (-512, 511), (-100, 3)]
        weird = [0.0, 0.05, 0.1, 0.5, 0.99, 1.0, 2.0, -0.5, float("inf"), float("-inf"), float("nan")]
        n = 70 if tier == "quick" else 1500
        for i in range(n):
            mn, mx = ranges[i % len(ranges)]
            dz = weird[(i // len(ranges)) % len(weird)] if i % 3 == 0 else rng.choice([0.0, 0.1, 0.25])
            flip = rng.random() < 0.4
            dzc = (mn == 0) and rng.random() < 0.5
            krx = rng.choice([0, 127, 60])
            analogs = [agen.analog(agen.ABS_X, "cc", cc=rng.choice([0, 7, 119]), ccneg=rng.choice([1, 118]), off=rng.choice([0, 15]), offneg=rng.choice([0, 15]),
                                   flip=flip, bidi=True, dzc=dzc),
                       agen.analog(agen.ABS_Y, "cc", cc=rng.choice([2, 64]), off=rng.choice([0, 9]), flip=flip, dzc=dzc),
                       agen.analog(agen.ABS_Z, "pitch_bend", off=rng.choice([0, 15]), flip=not flip, dzc=dzc),
                       agen.analog(agen.ABS_RX, "key", note=krx, noteneg=rng.choice([0, 127]), off=15, offneg=1, bidi=True, flip=flip, dzc=dzc),
                       # an axis that emulates ACTION keys (a hat switching octaves, a trigger firing panic)
                       agen.analog(agen.ABS_RY, "action", act=rng.choice(["octave_up", "semitone_up", "channel_up", "panic", "mapping_up"]),
                                   actneg=rng.choice(["octave_down", "semitone_down", "channel_down", "panic", "mapping_down"]), flip=flip, dzc=dzc)]
            absl = [{"code": c, "min": mn, "max": mx} for c in (agen.ABS_X, agen.ABS_Y, agen.ABS_Z, agen.ABS_RX, agen.ABS_RY)]
            # a note key on the very (channel, pitch) of the emulating axis' positive direction, every collision mode: a second source on one pitch
            cfg = agen.base_cfg(analogs, defdz=[{"sub": "", "bits": str(bits(dz))}], actions=[{"code": 59, "action": "octave_up"}, {"code": 60, "action": "octave_down"}, {"code": 63, "action": "channel_up"}],
                                keys=[{"sub": "", "code": 30, "note": krx, "off": 15}], cmode=devgen.CMODES[i % 4],
                                channel=rng.choice([1, 16]), velocity=rng.choice([1, 127]))
            vals = sorted({mn, mn + 1, mx, mx - 1, 0 if mn <= 0 <= mx else mn, (mn + mx) // 2, (mn + mx) // 2 + 1} | {rng.randint(mn, mx) for _ in range(6)} |
                          {v for v in (int(0.495 * mx), int(0.495 * mn), mn + int((mx - mn) * 0.7475), mn + int((mx - mn) * 0.2525)) if mn <= v <= mx})
            ev = []
            for v in vals + vals[::-1]:
                for code in (agen.ABS_X, agen.ABS_Y, agen.ABS_Z, agen.ABS_RX, agen.ABS_RY):
                    ev.append({"t": "a", "sub": "", "code": code, "val": v})
                if rng.random() < 0.2:
                    ev += tap(63)
            if i % 2 == 1:
                # a second mapping binding the same axes differently (deadzone_at_center toggled on min-0 axes, flip toggled, other
                # controllers, the pitch-bend axis as a plain controller): what is derived from one mapping must not survive a switch
                import copy
                m2 = copy.deepcopy(cfg["mappings"][0])
                m2["name"] = "M1"
                for a2 in m2["analog"]:
                    a2["flip"] = not a2["flip"]
                    if mn == 0:
                        a2["dzc"] = not a2["dzc"]
                    if a2["type"] == "cc":
                        a2["cc"], a2["ccneg"] = (a2["cc"] + 40) % 120, (a2["ccneg"] + 41) % 120
                    elif a2["type"] == "pitch_bend":
                        a2["type"], a2["cc"] = "cc", 77
                cfg["mappings"].append(m2)
                cfg["actions"] += [{"code": 65, "action": "mapping_up"}, {"code": 66, "action": "mapping_down"}]
                out = []
                for j, e in enumerate(ev):
                    out.append(e)
                    if j % 9 == 4:
                        out += tap(65) if (j // 9) % 2 == 0 else tap(66)
                ev = out + tap(65) + ev[:25] + [k(65, 1), k(66, 1), k(65, 0), k(66, 0)] + ev[:25]
            ev += [k(30, 1), {"t": "a", "sub": "", "code": agen.ABS_RX, "val": mx}, {"t": "a", "sub": "", "code": agen.ABS_RX, "val": (mn + mx) // 2 if mn < 0 else mn + (mx - mn) // 2},
                   k(30, 0), {"t": "a", "sub": "", "code": agen.ABS_RX, "val": mn}, k(30, 1), {"t": "a", "sub": "", "code": agen.ABS_RX, "val": (mn + mx) // 2 if mn < 0 else mn + (mx - mn) // 2}, k(30, 0)]
            # an up/down pair held by keys while the axes move (the action axis consults the pair detection first)
            ev += [k(59, 1), k(60, 1)] + [{"t": "a", "sub": "", "code": code, "val": v} for v in (mx, mn, (mn + mx) // 2) for code in (agen.ABS_RY, agen.ABS_RX, agen.ABS_X)] + [k(59, 0), k(60, 0)]
            cases.append({"cfg": cfg, "abs": absl, "events": ev, "tag": "axes[%d,%d]" % (mn, mx)})
        return cases


def run(run_):
    C05().run(run_)
    if not run_.violations:
        cov1 = dict(run_.coverage)
        C05A().run(run_)
        cov2 = run_.coverage
        for k_ in ("evaluations", "distinct_nontrivial", "monitor_failures", "view_mismatches", "crashes"):
            cov2[k_] = cov1.get(k_, 0) + cov2.get(k_, 0)
        cov2["generator_distribution"] = {"key_histories": cov1.get("generator_distribution"), "axis_histories": cov2.get("generator_distribution")}
        cov2["configurations_rejected_by_parser"] = cov1.get("configurations_rejected_by_parser")
        cov2["messages_checked_key_histories"] = cov1.get("messages_checked")
        cov2["correspondence_obligations"] = 4


def replay(run_, data):
    C05().replay(run_, data)
