"""C05: every emitted message is well-formed MIDI."""
from common import *
import devgen
from devprop import DevProp
import c04


def k(code, val, sub=""):
    return {"t": "k", "sub": sub, "code": code, "val": val}


def tap(code):
    return [k(code, 1), k(code, 0)]


class C05(DevProp):
    pid = "C05"
    fail_term = "c05_failures k"
    mis_term = "c05_mismatch k"
    monitor_name = "C05 monitor (wf_msgb: status 0x8n/0x9n/0xBn/0xEn, two data bytes < 128) on every message of every step and of the clean-up"
    correspondence_name = "C05 view (per message: well-formed or not)"
    rule = ("configurations that go through the real ParseData (default channel 0/1/16/17, velocity 0/1/127/128, offsets 0/15/16 - rejected ones are "
            "skipped and counted) and directly constructed ones at the corners (channel 1 and 16, offsets 15, velocity 1/127), channel walks, panic on "
            "every channel, non-alternating and out-of-protocol key values, disconnect with notes held; non-trivial = distinct accepted cases whose "
            "output contains a panic burst or a message on channel 16")

    def nontrivial_py(self, case, res):
        for st in res["steps"]:
            if len(st["midi"]) >= 129:
                return True
            for m in st["midi"]:
                if m and (m[0] & 15) == 15:
                    return True
        return False

    def run_impl(self, binary, cases):
        results, err = DevProp.run_impl(self, binary, cases)
        if results is None:
            return results, err
        self.rejected = 0
        for c, r in zip(cases, results):
            if r.get("rejected"):
                self.rejected += 1
                # a rejected configuration is outside the property's quantifier: empty history, nothing to check
                c["events"] = []
                r["steps"] = []
        return results, err

    def gen(self, rng, tier):
        cases = []
        ACT = c04.ACT
        # through the real parser: corner defaults
        for ch in (0, 1, 2, 16, 17, -1, 255, 256):
            for vel in (0, 1, 64, 127, 128):
                for off in (0, 15):
                    cfg = c04.base_cfg(rng, rng.choice(devgen.CMODES), [(60, off), (127, off), (0, 0)], {"channel": ch, "velocity": vel})
                    ev = tap(16) + tap(ACT["panic"]) + [k(17, 1)] + tap(ACT["channel_up"]) * 3 + tap(ACT["panic"]) + tap(ACT["channel_down"]) * 20 + tap(ACT["panic"]) + tap(18)
                    case = {"cfg": cfg, "abs": [], "events": ev, "toml": devgen.to_toml(cfg), "tag": "parsed-corner"}
                    if vel == 0:
                        cfg["velocity"] = 64   # the parser maps 0 to 64; the description the model sees says so too
                        case["toml"] = case["toml"].replace("velocity = 64", "velocity = 0")
                    cases.append(case)
        # panic on every channel, walks
        for ch in range(1, 17):
            cfg = c04.base_cfg(rng, rng.choice(devgen.CMODES), [(60, 15), (1, 1)], {"channel": ch, "velocity": rng.choice([1, 127])})
            ev = [k(16, 1)] + tap(ACT["panic"]) + tap(ACT["channel_up"]) * 17 + tap(ACT["panic"]) + [k(17, 1)] + tap(ACT["octave_up"]) * 12 + tap(16)
            cases.append({"cfg": cfg, "abs": [], "events": ev, "tag": "panic-every-channel"})
        # hostile key values: non-alternating, repeats, values outside 0/1/2
        for i in range(60 if tier == "quick" else 2000):
            cfg = devgen.gen_config(rng, with_exit=(rng.random() < 0.3))
            codes = devgen.all_codes(cfg)
            ev = []
            for _ in range(rng.randint(10, 60)):
                sub, code = rng.choice(codes)
                ev.append(k(code, rng.choice([0, 1, 1, 1, 2, 3, -1]), sub))
            cases.append({"cfg": cfg, "abs": [], "events": ev, "tag": "hostile-values"})
        for i in range(120 if tier == "quick" else 5000):
            cfg = devgen.gen_config(rng, with_exit=(rng.random() < 0.2))
            h = devgen.gen_history(rng, cfg, rng.randint(10, 60), p_action=0.4)
            cases.append({"cfg": cfg, "abs": [], "events": h, "tag": "random"})
        return cases

    def extra_coverage(self, run_, cases, results, m):
        run_.coverage["configurations_rejected_by_parser"] = getattr(self, "rejected", 0)
        run_.coverage["messages_checked"] = sum(len(st["midi"]) for r in results for st in r["steps"]) + sum(len(r["cleanup"]) for r in results)


def run(run_):
    C05().run(run_)


def replay(run_, data):
    C05().replay(run_, data)
