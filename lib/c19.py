"""C19: configuration changes are noticed (config/monitor.go DetectDeviceConfigChanges).

Proof side: Properties/C19.v (filter characterisation for all masks and byte strings; counting invariant and delivery over
all interleavings; shutdown with an explicit ranking function; the three D19 witnesses for the repository's code).
Correspondence side: seeded scripts of file operations run against the real DetectDeviceConfigChanges in temporary
hidi-config trees (harness/go/config/verif_c19_test.go); the recorded histories are judged in coqc by the monitors of
Run/WatcherRun.v (expected notifications are computed by Model/Watcher.v:notify from the table kernel_events).  The
verdict is Coq's; python generates scripts, shrinks and words the reports."""
import json, os, random, subprocess
from concurrent.futures import ThreadPoolExecutor
from common import *

W_US = 500_000          # a notification within 500 ms of a modification (plus the consumer's own sleep)
WSHUT_US = 1_000_000    # goroutines gone / stream closed within 1 s of cancel
SLACK_US = 400_000      # the receive that observes the close is made after the goroutines are gone
GONE_WAIT_MS = 1000
DIRS = ["hidi-config/factory/gamepad", "hidi-config/factory/keyboard", "hidi-config/user/gamepad", "hidi-config/user/keyboard"]
KINDS = {"trunc_write": "TruncWrite", "append": "Append", "overwrite": "Overwrite", "truncate": "Truncate",
         "create_write": "CreateWrite", "create_empty": "CreateEmpty", "chmod": "Chmod", "rename": "Rename",
         "remove": "Remove", "suid_trunc": "SuidTrunc"}
SIG_A, SIG_B, SIG_C = "D19a-suffix-without-dot", "D19b-op-mask-equality", "D19c-cancel-during-handoff"


def bs(s):
    return list(s.encode("utf-8") if isinstance(s, str) else s)


MATCH = [bs("a.toml"), bs("Pad.TOML"), bs("x.ToMl"), bs(".toml"), bs("caf\u00e9.toml"), bs(b"\xff\xfe.toml"),
         bs("\u212a.toml"), bs("dev.1.toml"), bs("b.toml"), bs("c.Toml")]
NOMATCH_TOML = [bs("notes.xtoml"), bs("footoml"), bs("toml"), bs("A.XTOML")]          # end in "toml" but are not .toml files
NOMATCH = [bs("a.toml.bak"), bs("a.toml~"), bs("a.tom"), bs("readme.txt"), bs("a.toml "), bs("x.tomlx"),
           bs("\u0130.tom\u212a"), bs("toml.d")]


def show(name):
    return bytes(name).decode("utf-8", "backslashreplace")


# ----------------------------------------------------------------------------- scenario generation

class Tree:
    """which files exist where, while a script is being generated"""

    def __init__(self):
        self.files = {}      # (dir, sub) -> list of names
        self.open_mode = set()   # (dir, sub, name) still world-writable (created by `pre`, never chmod-ed)
        self.pre = []

    def add_pre(self, d, sub, name):
        if name in self.files.setdefault((d, sub), []):
            return
        self.files[(d, sub)].append(name)
        self.open_mode.add((d, sub, tuple(name)))
        self.pre.append({"dir": d, "sub": sub, "name": name, "suid": False})

    def existing(self, rng, pred=lambda n: True, sub=False, dirs=range(4)):
        c = [(d, n) for d in dirs for n in self.files.get((d, sub), []) if pred(n)]
        return rng.choice(c) if c else None

    def fresh(self, rng, d, sub, pool):
        c = [n for n in pool if n not in self.files.get((d, sub), [])]
        return rng.choice(c) if c else None


def is_match(n):
    return bytes(n).lower().endswith(b".toml")


def is_nodot(st):
    """a write-like operation on a watched file whose name ends in "toml" but not in ".toml" (D19a)"""
    nm = bytes(st["name"]).lower()
    return (not st["sub"] and st["kind"] in ("trunc_write", "append", "overwrite", "truncate", "create_write")
            and nm.endswith(b"toml") and not nm.endswith(b".toml"))


def pick_name_class(rng):
    return rng.choices(["match", "toml_nodot", "other"], [55, 20, 25])[0]


def pool_of(cls):
    return {"match": MATCH, "toml_nodot": NOMATCH_TOML, "other": NOMATCH}[cls]


def gen_steps(rng, tree, n, gap):
    steps = []
    for _ in range(n):
        kind = rng.choices(["trunc_write", "append", "overwrite", "truncate", "create_write", "create_empty", "chmod",
                            "rename", "remove", "suid_trunc", "nested"], [24, 22, 7, 5, 7, 3, 6, 6, 3, 6, 11])[0]
        cls = pick_name_class(rng)
        d = rng.randrange(4)
        st = None
        if kind == "nested":
            got = tree.existing(rng, sub=True)
            if got:
                st = {"kind": rng.choice(["append", "trunc_write"]), "dir": got[0], "sub": True, "name": got[1]}
        elif kind in ("create_write", "create_empty"):
            nm = tree.fresh(rng, d, False, pool_of(cls))
            if nm:
                st = {"kind": kind, "dir": d, "sub": False, "name": nm}
                tree.files.setdefault((d, False), []).append(nm)
        elif kind == "rename":
            got = tree.existing(rng)
            if got:
                nm2 = tree.fresh(rng, got[0], False, pool_of(cls))
                if nm2:
                    st = {"kind": kind, "dir": got[0], "sub": False, "name": got[1], "name2": nm2}
                    tree.files[(got[0], False)].remove(got[1])
                    tree.files[(got[0], False)].append(nm2)
                    if (got[0], False, tuple(got[1])) in tree.open_mode:
                        tree.open_mode.discard((got[0], False, tuple(got[1])))
                        tree.open_mode.add((got[0], False, tuple(nm2)))
        elif kind == "remove":
            got = tree.existing(rng)
            if got and len(tree.files[(got[0], False)]) > 1:
                st = {"kind": kind, "dir": got[0], "sub": False, "name": got[1]}
                tree.files[(got[0], False)].remove(got[1])
                tree.open_mode.discard((got[0], False, tuple(got[1])))
        elif kind == "suid_trunc":
            c = [(dd, list(nm)) for (dd, sub, nm) in sorted(tree.open_mode) if not sub and is_match(nm)]
            if c:
                got = rng.choice(c)
                st = {"kind": kind, "dir": got[0], "sub": False, "name": got[1]}
        else:
            want = (lambda nn: is_match(nn)) if cls == "match" else (lambda nn: not is_match(nn))
            got = tree.existing(rng, pred=want) or tree.existing(rng)
            if got:
                st = {"kind": kind, "dir": got[0], "sub": False, "name": got[1]}
                if kind == "chmod":
                    tree.open_mode.discard((got[0], False, tuple(got[1])))
        if st is None:
            got = tree.existing(rng)
            st = {"kind": "append", "dir": got[0], "sub": False, "name": got[1]}
        st.setdefault("name2", [])
        st["gap_ms"] = gap(rng)
        st["size"] = 0 if st["kind"] == "suid_trunc" else rng.choice([1, 5, 40, 300, 5000]) if st["kind"] != "truncate" else rng.choice([0, 3])
        steps.append(st)
    return steps


def new_tree(rng):
    tree = Tree()
    for d in range(4):
        tree.add_pre(d, False, rng.choice(MATCH))
    for _ in range(rng.randint(2, 5)):
        tree.add_pre(rng.randrange(4), False, rng.choice(pool_of(pick_name_class(rng))))
    tree.add_pre(rng.randrange(4), True, rng.choice(MATCH))
    return tree


def gen_scenario(rng, idx):
    tree = new_tree(rng)
    typ = rng.choices(["isolated", "burst", "pending", "random"], [35, 25, 15, 25])[0]
    delay = rng.choice([0, 0, 0, 20, 100, 300])
    if typ == "isolated":
        n = rng.randint(3, 6)
        steps = gen_steps(rng, tree, n, lambda r: r.randint(540, 640) + delay)
        stop, cancel, cgap = rng.choice([-1, -1, n]), n, rng.choice([0, 5, 40])
    elif typ == "burst":
        n = rng.randint(3, 10)
        steps = gen_steps(rng, tree, n, lambda r: r.choice([0, 0, 0, 1, 3, 10]))
        steps[0]["gap_ms"] = 20
        stop, cancel, cgap = rng.choice([-1, -1, n]), n, rng.choice([0, 5, 40])
    elif typ == "pending":
        # the consumer stops reading, then a .toml file is modified, then cancel: a hand-off is pending and nobody reads
        n = rng.randint(2, 4)
        steps = gen_steps(rng, tree, n - 1, lambda r: r.randint(540, 640) + delay)
        got = tree.existing(rng, pred=is_match)
        if got is None:
            return gen_scenario(rng, idx)
        steps.append({"kind": rng.choice(["append", "trunc_write"]), "dir": got[0], "sub": False, "name": got[1], "name2": [],
                      "gap_ms": 560 + delay, "size": 7})
        stop, cancel, cgap = n - 1, n, rng.choice([10, 30, 80])
    else:
        n = rng.randint(3, 8)
        steps = gen_steps(rng, tree, n, lambda r: r.choice([0, 2, 30, 150, 600]))
        cancel = rng.randint(1, n)
        stop = rng.choice([-1, rng.randint(0, cancel)])
        cgap = rng.choice([0, 0, 1, 10, 50])
    settle = W_US // 1000 + delay + 120 if cancel == n and typ != "pending" else 0
    return {"name": "gen-%d-%s" % (idx, typ), "pre": tree.pre, "steps": steps, "delay_ms": delay, "stop_read_before": stop,
            "cancel_before": cancel, "cancel_gap_ms": cgap, "settle_ms": settle, "gone_wait_ms": GONE_WAIT_MS}


def mk(name, pre, steps, delay=0, stop=-1, cancel=None, cgap=0, settle=None, broken=""):
    n = len(steps)
    cancel = n if cancel is None else cancel
    return {"name": name, "broken": broken, "pre": [{"dir": d, "sub": s, "name": bs(nm), "suid": False} for (d, s, nm) in pre],
            "steps": [{"kind": k, "dir": d, "sub": s, "name": bs(nm), "name2": bs(n2), "gap_ms": g, "size": z}
                      for (k, d, s, nm, n2, g, z) in steps],
            "delay_ms": delay, "stop_read_before": stop, "cancel_before": cancel, "cancel_gap_ms": cgap,
            "settle_ms": (W_US // 1000 + delay + 120) if settle is None else settle, "gone_wait_ms": GONE_WAIT_MS}


def corpus():
    """targeted scripts, always run first: one in-place write per watched directory, the three D19 witnesses, a burst"""
    four = [(d, False, "a.toml") for d in range(4)]
    # one of the four watched directories cannot be watched (a dangling symbolic link, absent, a regular file - trees the loader accepts): the
    # other three are served as always
    unwatchable = [mk("unwatchable-%d-%s" % (bd, kind), [(d, False, "a.toml") for d in range(4) if d != bd],
                      [("append", d, False, "a.toml", "", 560, 9) for d in range(4) if d != bd], broken="%d:%s" % (bd, kind))
                   for bd, kind in ((3, "dangling"), (0, "dangling"), (2, "missing"), (1, "file"), (3, "missing"), (3, "file"))]
    # a configuration directory that is itself a symbolic link to a real directory elsewhere: watched like the others (all four served)
    unwatchable += [mk("symlinked-dir-%d" % bd, four, [("append", d, False, "a.toml", "", 560, 9) for d in (bd, (bd + 1) % 4, bd)], broken="%d:linkdir" % bd)
                    for bd in (3, 1)]
    return unwatchable + [
        mk("four-dirs", four, [("append", d, False, "a.toml", "", 560, 9) for d in (0, 1, 2, 3)]),
        mk("D19a-xtoml", [(1, False, "a.toml"), (1, False, "notes.xtoml"), (2, False, "footoml")],
           [("append", 1, False, "a.toml", "", 100, 5), ("append", 1, False, "notes.xtoml", "", 620, 5),
            ("overwrite", 2, False, "footoml", "", 620, 5)]),
        mk("D19b-suid-truncate", [(3, False, "s.toml")], [("suid_trunc", 3, False, "s.toml", "", 100, 0)]),
        mk("D19c-cancel-pending", [(0, False, "pad.toml")], [("append", 0, False, "pad.toml", "", 100, 5)],
           stop=0, cancel=1, cgap=40, settle=0),
        mk("burst-late-consumer", [(2, False, "a.toml"), (2, False, "b.toml"), (3, False, "readme.txt")],
           [("trunc_write", 2, False, "a.toml", "", 50, 40), ("trunc_write", 2, False, "b.toml", "", 0, 40),
            ("append", 3, False, "readme.txt", "", 0, 5), ("append", 2, False, "a.toml", "", 0, 5),
            ("trunc_write", 2, False, "b.toml", "", 1, 40)], delay=150),
        # a TOML write while the consumer is away, then a non-TOML write, then nothing: the waiting notification must still be delivered
        mk("late-consumer-then-non-toml", [(2, False, "a.toml"), (2, False, "b.toml"), (3, False, "notes.txt"), (0, False, "x.toml~")],
           [("append", 2, False, "a.toml", "", 100, 5), ("append", 2, False, "b.toml", "", 40, 5), ("append", 3, False, "notes.txt", "", 40, 5),
            ("append", 0, False, "x.toml~", "", 20, 5)], delay=400),
        # a stream of writes that outlasts a busy consumer (it picks every notification up 300 ms late): the writes made after a late pick-up are
        # announced like any others - the last write is followed by a notification
        mk("burst-outlasts-busy-consumer", [(2, False, "a.toml"), (3, False, "b.toml")],
           [("append", 2 + (i % 2), False, "a.toml" if i % 2 == 0 else "b.toml", "", 100 if i == 0 else 5, 3) for i in range(130)], delay=300),
        mk("write-right-after-late-pickup", [(1, False, "a.toml")],
           [("append", 1, False, "a.toml", "", 100, 3), ("append", 1, False, "a.toml", "", 60, 3)] +
           [("append", 1, False, "a.toml", "", 4, 3) for _ in range(70)], delay=300),
        # a watcher that stays alive for 12 s with one write per second (TOML and non-TOML alternating): whatever is driven by uptime
        # (periodic timers) gets a chance to act; every TOML write must still be announced, the others not, and the stream must end
        mk("aged-12s", [(0, False, "a.toml"), (1, False, "notes.txt"), (2, False, "b.toml")],
           [(("append", 0, False, "a.toml", "", 1000, 5), ("append", 1, False, "notes.txt", "", 1000, 5),
             ("trunc_write", 2, False, "b.toml", "", 1000, 9))[i % 3] for i in range(12)]),
        mk("other-operations", [(1, False, "a.toml"), (1, True, "n.toml")],
           [("create_empty", 1, False, "new.toml", "", 100, 0), ("chmod", 1, False, "a.toml", "", 560, 0),
            ("rename", 1, False, "new.toml", "renamed.toml", 560, 0), ("append", 1, True, "n.toml", "", 560, 5),
            ("remove", 1, False, "renamed.toml", "", 560, 0), ("create_write", 1, False, "K.TOML", "", 560, 12)]),
    ]


# ----------------------------------------------------------------------------- running the harness

def run_chunks(binary, scenarios, jobs, sweep_first=True):
    """scenarios are spread over `jobs` harness processes (each has its own cwd); returns (results in order, sweep, errors)"""
    w = workdir()
    chunks = [list(range(k, len(scenarios), jobs)) for k in range(jobs)]
    chunks = [c for c in chunks if c]

    def one(arg):
        k, idx = arg
        fin, fout = os.path.join(w, "c19-in-%d-%d.json" % (os.getpid(), k)), os.path.join(w, "c19-out-%d-%d.json" % (os.getpid(), k))
        with open(fin, "w") as fh:
            json.dump({"sweep": sweep_first and k == 0, "scenarios": [scenarios[i] for i in idx]}, fh)
        if os.path.exists(fout):
            os.unlink(fout)
        env = dict(GOENV, VERIF_MODE="c19", VERIF_IN=fin, VERIF_OUT=fout)
        budget = 60 + sum(8 + sum(s["gap_ms"] for s in scenarios[i]["steps"]) // 1000 for i in idx)
        try:
            r = subprocess.run([binary, "-test.run", "^TestVerif$", "-test.count=1", "-test.timeout", "%ds" % (budget + 30)],
                               env=env, cwd=w, capture_output=True, text=True, timeout=budget + 60)
        except subprocess.TimeoutExpired:
            return None, "harness timeout after %ds" % budget
        if not os.path.exists(fout):
            return None, "harness produced no output (exit %d): %s" % (r.returncode, (r.stdout + r.stderr)[-2500:])
        with open(fout) as fh:
            out = json.load(fh)
        os.unlink(fin)
        os.unlink(fout)
        if r.returncode != 0:
            return None, "harness exit %d: %s" % (r.returncode, (r.stdout + r.stderr)[-2500:])
        return out, None

    with ThreadPoolExecutor(max_workers=len(chunks)) as ex:
        outs = list(ex.map(one, list(enumerate(chunks))))
    res, sweep, errs = [None] * len(scenarios), None, []
    for (k, idx), (out, err) in zip(enumerate(chunks), outs):
        if out is None:
            errs.append((scenarios[idx[0]], err))
            continue
        if "lower_pre" in out and out["lower_pre"] is not None and k == 0 and sweep_first:
            sweep = (out["lower_pre"], out["lower_bytes_bad"])
        for pos, i in enumerate(idx):
            res[i] = out["results"][pos]
    return res, sweep, errs


# ----------------------------------------------------------------------------- Coq evaluation

HEAD = ("From Coq Require Import List NArith Bool.\nFrom HIDI Require Import Model.Watcher Run.WatcherRun.\nImport ListNotations.\n"
        "Open Scope N_scope.\nDefinition evp (e : event) := (ev_op e, ev_name e).\n")


def path_bytes(st, second=False):
    nm = st["name2"] if second else st["name"]
    if second and not nm:
        return []
    return bs(DIRS[st["dir"]] + ("/nested/" if st["sub"] else "/")) + list(nm)


def csteps(sc, h):
    out = []
    for st, rec in zip(sc["steps"], h["steps"]):
        out.append("mkStep %d %d %s %s %s %s" % (rec["start"], rec["done"], KINDS[st["kind"]], cbool(not st["sub"]),
                                                 cbytes(path_bytes(st)), cbytes(path_bytes(st, True))))
    return clist(out)


def evaluate(cases, tag):
    """cases: list of (scenario, history). Returns per case a dict with Coq's verdicts."""
    shards, cur, cost = [], [], 0
    for i, (sc, h) in enumerate(cases):
        cur.append(i)
        cost += 20 + 6 * len(h["steps"]) + 3 * len(h["ref"])
        if cost > 1500:
            shards.append(cur)
            cur, cost = [], 0
    if cur:
        shards.append(cur)
    items = []
    for k, sh in enumerate(shards):
        body = HEAD
        rows = []
        for i in sh:
            sc, h = cases[i]
            body += "Definition S%d : list fstep := %s.\n" % (i, csteps(sc, h))
            body += "Definition H%d := mkHist S%d %s %d %d.\n" % (i, i, clist([cN(t) for t in h["notes"]]), sc["delay_ms"] * 1000, h["read_until"])
            body += "Definition R%d : list event := %s.\n" % (i, clist(["mkEv %d %s" % (e["op"], cbytes(e["name"])) for e in h["ref"]]))
            body += "Definition X%d := mkShut %d %s %s.\n" % (i, h["cancel"], copt(h["gone"] if h["gone"] >= 0 else None, cN),
                                                              copt(h["closed"] if h["closed"] >= 0 else None, cN))
            slack = SLACK_US + sc["delay_ms"] * 1000   # a sleeping consumer sees the close when it wakes up
            rows.append("(%d, accepts %d %d %d H%d X%d, lost %d H%d, invented %d H%d, shutdown_ok %d %d X%d, "
                        "(map evp (fst (table_diff S%d R%d)), map evp (snd (table_diff S%d R%d))), map expects S%d, map budget S%d, obligations %d H%d)"
                        % (i, W_US, WSHUT_US, slack, i, i, W_US, i, W_US, i, WSHUT_US, slack, i, i, i, i, i, i, i, W_US, i))
        body += "Definition V := Eval vm_compute in %s.\nPrint V.\n" % clist(rows)
        items.append(("c19_%s_%d" % (tag, k), body))
    verdicts = {}
    for out in coq_eval_many(items):
        d = extract_defs(out)
        if "V" not in d or isinstance(d["V"], tuple):
            raise CheckError("cannot read V from coqc output: %r" % (d.get("V"),))
        for (i, acc, lost, inv, shut, tdiff, exp, bud, obl) in d["V"]:
            if acc != (not lost and not inv and shut):
                raise CheckError("accepts disagrees with its parts on history %d" % i)
            verdicts[i] = {"accepts": acc, "lost": lost, "invented": inv, "shutdown_ok": shut, "table_missing": tdiff[0],
                           "table_extra": tdiff[1], "expects": exp, "budget": bud, "obligated": obl}
    if len(verdicts) != len(cases):
        raise CheckError("monitor evaluated %d of %d histories" % (len(verdicts), len(cases)))
    return [verdicts[i] for i in range(len(cases))]


def sweep_check(run_, sweep):
    pre, bad = sweep
    body = HEAD + "Definition B := Eval vm_compute in lower_sweep_bad %s.\nPrint B.\n" % clist(["(%d, %d)" % (a, b) for a, b in pre])
    d = extract_defs(coq_eval("c19_sweep", body))
    if "B" not in d or isinstance(d["B"], tuple):
        raise CheckError("cannot read B from coqc output")
    if d["B"] or bad:
        run_.violation("strings.ToLower is not the model's byte-wise lower-casing where the suffix test can see it: non-ASCII runes "
                       "lower-casing into \".toml\": %r; bytes >= 0x80 mishandled: %r" % (d["B"], bad),
                       {"theorem_or_correspondence": "Model/Watcher.v lower vs strings.ToLower (rune sweep)", "runes": d["B"], "bytes": bad},
                       no_input=True)
        return False
    return True


# ----------------------------------------------------------------------------- judging

def step_text(sc, i):
    st = sc["steps"][i]
    where = DIRS[st["dir"]] + ("/nested" if st["sub"] else "")
    s = "%s of %s/%s" % (st["kind"], where, show(st["name"]))
    if st["kind"] == "rename":
        s += " -> " + show(st["name2"])
    return s


def classify(sc, h, v):
    """list of (class, what, signature) for one judged history"""
    out = []
    if v["lost"]:
        i = v["lost"][0]
        kinds = {sc["steps"][j]["kind"] for j in v["lost"]}
        sig = SIG_B if kinds == {"suid_trunc"} else None
        out.append(("lost-suid" if sig else "lost",
                    "no notification within %d ms after step %d (%s); consumer delay %d ms, %d notifications received in total%s"
                    % (W_US // 1000, i, step_text(sc, i), sc["delay_ms"], len(h["notes"]),
                       " [note: the kernel reports this truncation as ONE event Write|Chmod; a filter that compares Op with Write for equality drops it]" if sig else ""), sig))
    if v["invented"]:
        k = v["invented"][0]
        r = h["notes"][k] if k < len(h["notes"]) else None
        prev = [j for j, rec in enumerate(h["steps"]) if r is not None and rec["start"] <= r]
        nd = [j for j in prev if is_nodot(sc["steps"][j])]
        last = nd[-1] if nd else prev[-1] if prev else None
        nodot = bool(nd)
        sig = SIG_A if nodot else None
        out.append(("invented-nodot" if sig else "invented",
                    "notification %d (at %.1f ms) is not accounted for by any modification of a .toml file%s"
                    % (k, (r or 0) / 1000.0, "; it follows step %d (%s)" % (last, step_text(sc, last)) if last is not None else ""), sig))
    if h.get("stale", 0) > 0:
        pass   # goroutines leaked by an earlier scenario of the same process: this shutdown cannot be judged (the leak was reported there)
    elif not v["shutdown_ok"] or h["fs_readers"] > 0:
        pend = (not h["reading_at_cancel"]) and h["late_values"] > 0
        if h["gone"] < 0:
            what = "after cancel the goroutine of monitor.go was still alive %d ms later (%s)" % (
                GONE_WAIT_MS, "blocked in `change <- true`, nobody reading; released only by a later read" if pend else "see stacks")
        elif h["closed"] < 0:
            what = "after cancel the goroutines ended but the notification stream was not closed"
        elif h["fs_readers"] > 0 and v["shutdown_ok"]:
            what = "after cancel %d fsnotify reader goroutine(s) are left" % h["fs_readers"]
        else:
            what = "shutdown took longer than %d ms (goroutines gone %s us, closed %s us after cancel)" % (
                WSHUT_US // 1000, h["gone"] - h["cancel"], h["closed"] - h["cancel"])
        out.append(("shutdown", what, SIG_C if pend and h["gone"] < 0 else None))
    return out


def shrink_candidates(sc, cls, v, h):
    """smaller scripts that should show the same class of failure"""
    def only(i, **kw):
        st = dict(sc["steps"][i], gap_ms=100)
        base = {"name": sc["name"] + "-shrunk", "pre": sc["pre"], "steps": [st], "delay_ms": 0, "stop_read_before": -1,
                "cancel_before": 1, "cancel_gap_ms": 0, "settle_ms": W_US // 1000 + 120, "gone_wait_ms": GONE_WAIT_MS}
        base.update(kw)
        return base
    # files created / renamed by earlier steps do not exist in a one-step script: keep only steps on `pre` files
    def on_pre(i):
        st = sc["steps"][i]
        return st["kind"] not in ("create_write", "create_empty") and any(
            p["dir"] == st["dir"] and p["sub"] == st["sub"] and p["name"] == st["name"] for p in sc["pre"])
    c = []
    if cls.startswith("lost") and on_pre(v["lost"][0]):
        c.append(only(v["lost"][0]))
    if cls.startswith("invented"):
        k = v["invented"][0]
        r = h["notes"][k] if k < len(h["notes"]) else None
        prev = [j for j, rec in enumerate(h["steps"]) if r is not None and rec["start"] <= r]
        nd = [j for j in prev if is_nodot(sc["steps"][j])]
        for j in (nd[-1:] or prev[-1:]):
            if on_pre(j):
                c.append(only(j))
    if cls == "shutdown" and not h["reading_at_cancel"]:
        ex = [j for j in range(len(h["steps"])) if v["expects"][j] and on_pre(j)]
        if ex:
            c.append(only(ex[-1], stop_read_before=0, cancel_gap_ms=max(20, sc["cancel_gap_ms"]), settle_ms=0))
    return c


def judge(run_, binary, scenarios, tag, stats, seen_classes, shrink=True):
    res, sweep, errs = run_chunks(binary, scenarios, stats["jobs"], sweep_first=(tag == "corpus"))
    for sc, err in errs:
        run_.violation("C19 harness crashed or hung in a batch starting with scenario %s: %s" % (sc["name"], err),
                       {"kind": "batch", "scenario": sc, "error": err}, no_input=True)
    if sweep is not None:
        stats["sweep"] = sweep_check(run_, sweep)
        stats["sweep_runes"] = sweep[0]
    cases = []
    for sc, h in zip(scenarios, res):
        if h is None:
            continue
        bad = h["setup"] or h["panic"] or [r["err"] for r in h["steps"] if r["err"]]
        if h["panic"]:
            run_.violation("DetectDeviceConfigChanges panicked in scenario %s: %s" % (sc["name"], h["panic"]),
                           {"kind": "scenario", "scenario": sc, "history": h})
            continue
        if bad:
            raise CheckError("C19 harness could not execute scenario %s: %r" % (sc["name"], bad))
        cases.append((sc, h))
    if not cases:
        return []
    verdicts = evaluate(cases, tag)
    for (sc, h), v in zip(cases, verdicts):
        stats["histories"] += 1
        stats["steps"] += len(h["steps"])
        stats["notes"] += len(h["notes"])
        obligated = [j for j, o in enumerate(v["obligated"]) if o]
        stats["obligations"] += len(obligated)
        stats["silent_steps"] += sum(1 for e in v["expects"] if not e)
        for j in obligated:
            after = [r for r in h["notes"] if r >= h["steps"][j]["start"]]
            if after and sc["delay_ms"] == 0:
                stats["max_latency_us"] = max(stats["max_latency_us"], after[0] - h["steps"][j]["done"])
        if not h["reading_at_cancel"] and any(v["expects"][j] and h["steps"][j]["start"] >= h["read_until"] for j in range(len(h["steps"]))):
            stats["cancel_with_pending"] += 1
        if h["gone"] >= 0:
            stats["max_shutdown_us"] = max(stats["max_shutdown_us"], h["gone"] - h["cancel"])
        if h["closed"] >= 0:
            stats["max_closed_us"] = max(stats["max_closed_us"], h["closed"] - h["cancel"] - sc["delay_ms"] * 1000)
        if h["watches"] != 4:
            stats["watch_counts"].add(h["watches"])
        if obligated:
            stats["nontrivial"].add(json.dumps([(s["kind"], s["dir"], s["sub"], s["name"], s["gap_ms"] > 100) for s in sc["steps"]]
                                               + [sc["delay_ms"], sc["stop_read_before"], sc["cancel_before"]]))
        if v["table_missing"] or v["table_extra"]:
            if "table" not in seen_classes:
                seen_classes["table"] = 1
                fmt = lambda l: ["%d %s" % (op, show(nm)) for op, nm in l]
                run_.violation("the kernel/fsnotify coupling table (Run/WatcherRun.v kernel_events) does not match what a second fsnotify "
                               "watcher saw in scenario %s: predicted but not seen %r, seen but not predicted %r"
                               % (sc["name"], fmt(v["table_missing"]), fmt(v["table_extra"])),
                               {"theorem_or_correspondence": "kernel_events table vs reference watcher", "kind": "scenario", "scenario": sc, "history": h},
                               no_input=True)
            else:
                seen_classes["table"] += 1
            continue   # expectations computed from a wrong table are not judged
        for cls, what, sig in classify(sc, h, v):
            stats["rejected"] += 1
            if cls in seen_classes:
                seen_classes[cls] += 1
                continue
            seen_classes[cls] = 1
            rep_sc, rep_h, rep_v = sc, h, v
            if shrink:
                for cand in shrink_candidates(sc, cls, v, h):
                    r2, _, e2 = run_chunks(binary, [cand], 1, sweep_first=False)
                    if e2 or r2[0] is None or r2[0]["setup"] or any(r["err"] for r in r2[0]["steps"]):
                        continue
                    v2 = evaluate([(cand, r2[0])], tag + "_shrink")[0]
                    c2 = [c for c in classify(cand, r2[0], v2) if c[0] == cls]
                    if c2 and not (v2["table_missing"] or v2["table_extra"]):
                        rep_sc, rep_h, rep_v, what = cand, r2[0], v2, c2[0][1]
                        break
            run_.violation("scenario %s: %s" % (rep_sc["name"], what),
                           {"kind": "scenario", "class": cls, "scenario": rep_sc, "history": rep_h,
                            "monitor": "Run/WatcherRun.v accepts %d %d %d: lost=%r invented=%r shutdown_ok=%r"
                                       % (W_US, WSHUT_US, SLACK_US + rep_sc["delay_ms"] * 1000, rep_v["lost"], rep_v["invented"], rep_v["shutdown_ok"]),
                            "found_in": sc["name"]}, signature=sig)
    return list(zip(cases, verdicts))


# ----------------------------------------------------------------------------- proof side

C19_FILES = ["theories/Model/Watcher", "theories/Run/WatcherRun", "theories/Proofs/WatcherProofs", "theories/Properties/C19"]


def ensure_c19_vo():
    """Until coq/_CoqProject lists the C19 files (it is regenerated by coq/regen.sh) `make` does not build them: compile
    them here, in dependency order, when a .vo is missing or older than its source or than an earlier file of the chain."""
    listed = open(os.path.join(COQ, "_CoqProject")).read()
    newest = os.path.getmtime(os.path.join(COQ, "theories/Model/Relay.vo"))
    for f in C19_FILES:
        vo, src = os.path.join(COQ, f + ".vo"), os.path.join(COQ, f + ".v")
        if f + ".v" not in listed and (not os.path.exists(vo) or os.path.getmtime(vo) < max(newest, os.path.getmtime(src))):
            r = subprocess.run(["flock", os.path.join(WORKROOT, "make.lock"), "coqc", "-q", "-Q", "theories", "HIDI", "-w", "none", f + ".v"],
                               cwd=COQ, capture_output=True, text=True, timeout=1800)
            if r.returncode != 0:
                raise CheckError("coqc failed on %s.v: %s" % (f, (r.stdout + r.stderr)[-2000:]))
        if os.path.exists(vo):
            newest = max(newest, os.path.getmtime(vo))


def proof_side(run_):
    bad = scan_forbidden()
    if bad:
        raise CheckError("forbidden constructs in the Coq development: %s" % bad[:5])
    ensure_coq_built()
    ensure_c19_vo()
    run_.proof_obligations()


def new_stats(jobs):
    return {"jobs": jobs, "histories": 0, "steps": 0, "notes": 0, "obligations": 0, "silent_steps": 0, "rejected": 0,
            "max_latency_us": 0, "max_shutdown_us": 0, "max_closed_us": 0, "cancel_with_pending": 0, "watch_counts": set(), "nontrivial": set(),
            "sweep": None, "sweep_runes": None}


ASSUMPTIONS = [
    "environment, not verified: the Linux kernel's inotify and github.com/fsnotify/fsnotify v1.5.1 (inotify backend) - which events a file "
    "operation produces (one Event per raw inotify event, Op = its mask; identical consecutive unread events coalesce) is the table "
    "Run/WatcherRun.v:kernel_events, compared on every run with what a second, independent fsnotify watcher on the same directories saw "
    "(set of distinct (Op, name)); the coupling in time between a write and the arrival of its event is not modelled",
    "time windows (harness clock, generous on purpose): a notification within %d ms of the return of a modifying operation plus the consumer's "
    "own sleep, but not before the operation began; every notification attributable to an accepted operation begun before it (count) and "
    "returned at most %d ms (+ backlog x consumer sleep) before it (time); after cancel no goroutine with monitor.go frames within %d ms "
    "and the stream observed closed within %d ms plus the consumer's sleep; obligations whose deadline lies after the consumer stopped reading are not judged"
    % (W_US // 1000, W_US // 1000, WSHUT_US // 1000, (WSHUT_US + SLACK_US) // 1000),
    "fsnotify discards every event other than Remove/Rename whose file no longer exists when its reader gets to it (Event.ignoreLinux), "
    "which with a late consumer may be much later: a modification of a file that a later operation of the script renames away or removes "
    "carries no obligation (Run/WatcherRun.v sure/obligated), and its events are optional in the table comparison",
    "a modification by open(O_TRUNC)+write may arrive as one or two Write events: the property demands >= 1 and <= 2 notifications for it, "
    "exactly 1 for single-event modifications (append, overwrite, truncate) when isolated",
    "Go's goroutine scheduler, unbuffered channels, select and context cancellation are modelled (DESIGN 3.7): the theorems hold for the "
    "labelled transition system Model/Watcher.v; after close(w.done) fsnotify's reader is over-approximated (may still hand over events)",
    "strings.ToLower is modelled byte-wise (A-Z only); sound for the suffix test because no non-ASCII rune lower-cases to a byte of \".toml\" "
    "and invalid UTF-8 never yields ASCII - swept over all runes and all single bytes on every run",
    "C19_shutdown and the per-run shutdown observation are about the code with fix F15 (patches/C19-watcher.diff); for the repository's code "
    "the model has the D19 witnesses (C19_suffix_refuted, C19_opmask_refuted, C19_shutdown_stuck_refuted) and the harness observes them",
    "not modelled: inotify queue overflow (fsnotify reports it on watcher.Errors, which monitor.go never reads: the reader then blocks until "
    "Close), errors of NewWatcher/Add beyond 'no events arrive', logging (logger.Messages must be drained by the application), atomic-replace "
    "editors (rename over the file produces Create/Rename events only, hence no notification - outside 'in-place modification')",
]


def run(run_):
    tier, rng = run_.tier, random.Random(run_.seed)
    proof_side(run_)
    binary, err = go_build("config")
    if binary is None:
        run_.violation("harness for package config does not build against the repository: " + err,
                       {"theorem_or_correspondence": "C19 harness build", "error": err}, no_input=True)
        return
    n_gen, jobs = (28, 10) if tier == "quick" else (420, 12)
    stats, seen = new_stats(jobs), {}
    cor = corpus()
    judged = judge(run_, binary, cor, "corpus", stats, seen)
    gen = [gen_scenario(rng, i) for i in range(n_gen)]
    judged += judge(run_, binary, gen, "gen", stats, seen)
    sample = judged[0] if judged else None
    run_.coverage.update({
        "evaluations": stats["histories"],
        "distinct_nontrivial": len(stats["nontrivial"]),
        "rule": "6 targeted scripts (one in-place write per watched directory, the three D19 witnesses, a burst with a late consumer, "
                "create/chmod/rename/remove/nested) then seeded random scripts of 2-10 file operations over %d matching names (upper/mixed case, "
                "non-ASCII, invalid UTF-8, '.toml'), %d names ending in 'toml' without the dot and %d other names, in the four directories and a "
                "nested sub-directory; operations: O_TRUNC+write, append, overwrite, truncate, create with/without content, chmod, rename, remove, "
                "truncation of a set-uid file without CAP_FSETID; four shapes: isolated (gaps > 540 ms), burst (gaps 0-10 ms), cancel while a hand-off "
                "is pending and nobody reads, cancel/stop-reading at random points; consumer sleep 0-300 ms. non-trivial = distinct scripts in which "
                "at least one notification was obligated (deadline inside the reading period) and checked" % (len(MATCH), len(NOMATCH_TOML), len(NOMATCH)),
        "samples": ([{"scenario": sample[0][0], "history": {k: sample[0][1][k] for k in ("steps", "notes", "read_until", "cancel", "gone", "closed")},
                      "verdict": sample[1]}] if sample else []) + [{"scenario": gen[0]}],
        "histories": stats["histories"], "file_operations_executed": stats["steps"], "notifications_received": stats["notes"],
        "notification_obligations_checked": stats["obligations"], "operations_expecting_silence": stats["silent_steps"],
        "cancel_with_handoff_pending_and_no_reader": stats["cancel_with_pending"],
        "max_latency_us_write_return_to_receive_prompt_consumer": stats["max_latency_us"],
        "max_us_cancel_to_goroutines_gone": stats["max_shutdown_us"], "max_us_cancel_to_close_observed_minus_consumer_sleep": stats["max_closed_us"],
        "window_us": {"notify": W_US, "shutdown": WSHUT_US, "close_observation_slack": SLACK_US, "plus": "the consumer's own sleep"},
        "watch_counts_other_than_4": sorted(stats["watch_counts"]),
        "violations_by_class": dict(seen), "histories_rejected": stats["rejected"],
        "lower_sweep_runes_with_ascii_lowercase": stats["sweep_runes"],
        "generator": "one random.Random(seed) draws every script; %d harness processes in parallel (each with its own cwd), scenarios "
                     "sequential inside a process" % jobs,
        "exhaustive": False,
        "correspondence_obligations": 5,
    })
    run_.assumptions += ASSUMPTIONS


def replay(run_, data):
    """Re-run the recorded script three times on the current tree and re-judge it (timing is not reproducible, the script is)."""
    proof_side(run_)
    rep = data["replay"]
    binary, err = go_build("config")
    if binary is None:
        run_.violation("harness for package config does not build against the repository: " + err,
                       {"theorem_or_correspondence": "C19 harness build", "error": err}, no_input=True)
        return
    stats, seen = new_stats(1), {}
    if "scenario" in rep:
        for k in range(3):
            judge(run_, binary, [dict(rep["scenario"], name="%s-replay%d" % (rep["scenario"]["name"], k))], "replay%d" % k, stats, {}, shrink=False)
    run_.coverage.update({"evaluations": stats["histories"], "distinct_nontrivial": len(stats["nontrivial"]),
                          "rule": "replay of one recorded script, three times", "samples": [rep.get("scenario")]})
    run_.assumptions += ASSUMPTIONS
