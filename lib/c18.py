"""C18: start-up upkeep (cmd/hidi/config.go:updateHIDIConfiguration) never touches user files and always restores factory files.

Pipeline per batch of trees:
  1. the real function is run (twice) on every tree by the test binary of package main (harness/go/main), in a
     fresh directory per case; the embedded template is dumped from the same binary;
  2. coqc evaluates, per case, the domain checks, the view comparison (model result == observed tree, for both
     calls), the property monitor (Model/Upkeep.v:c18_monitor, the function C18_monitor_sound is about) and
     prints the model's mutation list;
  3. model-driven crash points: coqc computes `apply fs (firstn k ops)` (and the state after a partial k-th write) for
     chosen k, the states are materialised as real trees and go through 1-2 again, plus "nodes of the original tree
     outside factory/ survive";
  4. strace: the order of successful mutating syscalls (MUT_SET) of the real call is compared with the model's list.  A
     difference is a broken correspondence (`no_input`), reported only when no stage exhibits a failing input;
  5. implementation-driven crash points (inject_stage): for a handful of start trees (empty directory, damaged complete
     trees, trees with stale F.tmp/F.new/F~/.F.swp siblings, generated trees) the real call is run under
     `strace -e inject=<syscall>:signal=SIGKILL:when=<n>` once per system call of MUT_SET it issues - the process dies on
     ENTRY of that call, whatever write strategy the code uses - then two complete calls run on the tree it left and the
     result goes through the same Coq evaluation as the crash states of 3 (before = tree after the kill, orig = start tree).
     Three invocations of the harness mode per batch: materialise (runs = 0), the killed call (existing, mark, runs = 1; one
     process per kill point, 12 in parallel), recovery (existing, pre, runs = 2).  strace counts calls per thread AND per
     syscall name: n = calls of that name before the begin marker + inside the call, taken from one uninjected straced run of
     the same start tree; every killed run's own log says where it really died, wrongly placed kills are repeated.
     Paths the killed run itself left behind (not in the start tree, not template paths) are not the property's business:
     an observation that fails only because later runs remove or rewrite them is a correspondence difference, not a failing input.
File contents are passed to Coq as lists of chunk ids (see `Abs`)."""
import hashlib, json, random, re, shutil, time
from concurrent.futures import ThreadPoolExecutor
from common import *

CFG, FACT, BL = "hidi-config", "factory", "device blacklist.txt"
RESERVED = {CFG: 0, FACT: 1, BL: 2}
FLAGS = ["wf_template", "fs_wf", "type_consistent", "view1", "view2", "monitor", "untouched", "orig_kept", "nontrivial"]


# ----------------------------------------------------------------------------- trees
# a tree is a dict: slash path (relative to the case directory) -> None (directory) | bytes (regular file)

def tree_to_json(tree):
    out = []
    for p in sorted(tree, key=lambda q: q.split("/")):
        v = tree[p]
        out.append({"p": p, "d": True} if v is None else {"p": p, "h": v.hex()})
    return out


def tree_from_json(nodes):
    return {n["p"]: (None if n.get("d") else bytes.fromhex(n.get("h", ""))) for n in nodes}


def tree_hash(tree):
    h = hashlib.sha256()
    for p in sorted(tree):
        h.update(p.encode() + b"\0" + (b"D" if tree[p] is None else b"F" + tree[p]) + b"\0")
    return h.hexdigest()


def describe(tree, limit=40):
    return ["%s%s" % (p, "/" if tree[p] is None else " (%d bytes, sha1 %s)" % (len(tree[p]), hashlib.sha1(tree[p]).hexdigest()[:8]))
            for p in sorted(tree)][:limit]


def parents_ok(tree):
    for p in tree:
        if "/" in p:
            par = p.rsplit("/", 1)[0]
            if par not in tree or tree[par] is not None:
                return False
    return True


# ----------------------------------------------------------------------------- abstraction to Coq literals

class Abs:
    """Names -> ids (hidi-config = 0, factory = 1, 'device blacklist.txt' = 2, the rest in order of appearance).
    Contents -> list of chunk ids: per case every content is cut at all `bounds` (every content length occurring in
    the case and every partial-write offset), a chunk id stands for (start offset, bytes).  The map is injective on
    the contents of a case and commutes with the operations the model performs on contents (equality, take the
    first j symbols, replace a prefix keeping the longer tail, empty)."""

    def __init__(self):
        self.names = dict(RESERVED)
        self.rnames = {v: k for k, v in RESERVED.items()}
        self.chunks = {}
        self.rchunks = []

    def name(self, s):
        if s not in self.names:
            self.names[s] = len(self.names)
            self.rnames[self.names[s]] = s
        return self.names[s]

    def path(self, p):
        comps = [c for c in p.split("/") if c] if p else []
        return clist([cN(self.name(c)) for c in reversed(comps)])

    def rpath(self, ids):
        return "/".join(self.rnames[i] for i in reversed(ids))

    def content(self, data, bounds):
        out = []
        for lo, hi in zip(bounds, bounds[1:]):
            if hi > len(data):
                break
            key = (lo, data[lo:hi])
            if key not in self.chunks:
                self.chunks[key] = len(self.rchunks)
                self.rchunks.append(data[lo:hi])
            out.append(self.chunks[key])
        if sum(len(self.rchunks[i]) for i in out) != len(data):
            raise CheckError("content length %d is not a chunk boundary" % len(data))
        return out

    def rcontent(self, ids):
        return b"".join(self.rchunks[i] for i in ids)

    def node(self, v, bounds):
        return "Dir" if v is None else "File " + clist([cN(i) for i in self.content(v, bounds)])

    def tree(self, tree, bounds, root=True):
        items = ["([], Dir)"] if root else []
        for p in sorted(tree, key=lambda q: q.split("/")):
            items.append("(%s, %s)" % (self.path(p), self.node(tree[p], bounds)))
        return clist(items)

    def template(self, tmpl, bounds):
        return clist(["(%s, %s)" % (self.path(p), self.node(v, bounds)) for p, v in tmpl])

    def rtree(self, term):
        """parsed Coq fs -> python tree (drops the working directory entry)"""
        out = {}
        for p, n in term:
            if not p:
                continue
            if isinstance(n, dict) and n.get("c") == "Dir":
                out[self.rpath(p)] = None
            else:
                out[self.rpath(p)] = self.rcontent(n["args"][0])
        return out

    def rops(self, term):
        out = []
        for op in term:
            c, args = op["c"], op["args"]
            if c == "Write":
                out.append(["write", self.rpath(args[0]), len(self.rcontent(args[1]))])
            else:
                out.append([c.lower(), self.rpath(args[0])])
        return out


def bounds_of(trees, tmpl, cuts):
    b = {0}
    for t in trees:
        for v in t.values():
            if v is not None:
                b.add(len(v))
    for _, v in tmpl:
        if v is not None:
            b.add(len(v))
    for p, c in cuts.items():
        b.add(c)
    return sorted(b)


HEADER = ("From Coq Require Import List NArith Bool.\nFrom HIDI Require Import Base.AList Model.Upkeep Run.UpkeepRun.\n"
          "Import ListNotations.\nOpen Scope N_scope.\n")


# ----------------------------------------------------------------------------- running the implementation

class Impl:
    def __init__(self, binary):
        self.binary = binary
        self.n = 0
        self.tmpl = None

    def call(self, cases, mark=False, prefix=None):
        """cases: list of trees. Returns list of dict(err, panic, tree) pairs per case: [[run1, run2], ...]"""
        self.n += 1
        root = os.path.join(workdir(), "c18-root-%d" % self.n)
        shutil.rmtree(root, ignore_errors=True)
        os.makedirs(root)
        inp = {"root": root, "mark": mark,
               "cases": [{"id": i, "tree": tree_to_json(t), "runs": 2} for i, t in enumerate(cases)]}
        try:
            out, err = run_harness(self.binary, "c18", inp, timeout=1200, flags=False, prefix=prefix)
        finally:
            shutil.rmtree(root, ignore_errors=True)
        if out is None:
            return None, err
        if out.get("confdir") != CFG:
            return None, "configDir is %r, the model assumes %r" % (out.get("confdir"), CFG)
        self.tmpl = [(n["p"], None if n.get("d") else bytes.fromhex(n.get("h", ""))) for n in out["template"]]
        res = []
        for r in out["results"]:
            if r.get("setup_err") or len(r["runs"]) != 2:
                return None, "harness could not set up case %d: %s" % (r["id"], r.get("setup_err"))
            res.append([{"err": x["err"], "panic": x["panic"], "log_blocked": x.get("log_blocked", False), "tree": tree_from_json(x["tree"] or [])} for x in r["runs"]])
        return res, None


    def raw(self, root, cases, **opts):
        """one invocation of the harness mode with explicit options (setup / recover phases of the injection stage)"""
        inp = dict({"root": root, "cases": cases}, **opts)
        out, err = run_harness(self.binary, "c18", inp, timeout=1200, flags=False)
        if out is None:
            raise CheckError("C18 harness failed: " + err)
        for r in out["results"]:
            if r.get("setup_err"):
                raise CheckError("C18 harness: case %d: %s" % (r["id"], r["setup_err"]))
        return out["results"]


def rcode(run):
    return 2 if run["panic"] else (1 if run["err"] else 0)


# ----------------------------------------------------------------------------- Coq evaluation

def eval_cases(tmpl, cases, results, tag):
    """cases: list of dict(before, orig|None, cuts). Returns list of dict(flags..., ops, model_result)."""
    shard = 25
    items = []
    absl = []
    for s0 in range(0, len(cases), shard):
        A = Abs()
        body = HEADER
        names = []
        for i in range(s0, min(s0 + shard, len(cases))):
            c, r = cases[i], results[i]
            orig = c.get("orig") or c["before"]
            trees = [c["before"], r[0]["tree"], r[1]["tree"], orig]
            bounds = bounds_of(trees, tmpl, {})
            body += "Definition c%d := mk_c18 %s %s %s %s %d %d %s.\n" % (
                i, A.template(tmpl, bounds), A.tree(c["before"], bounds), A.tree(r[0]["tree"], bounds),
                A.tree(r[1]["tree"], bounds), rcode(r[0]), rcode(r[1]), A.tree(orig, bounds))
            names.append("c%d" % i)
        body += "Definition EV := Eval vm_compute in map c18_eval %s.\nPrint EV.\n" % clist(names)
        body += "Definition OPS := Eval vm_compute in map c18_ops %s.\nPrint OPS.\n" % clist(names)
        items.append(("c18_%s_%d" % (tag, s0), body))
        absl.append(A)
    outs = coq_eval_many(items)
    res = []
    for A, out in zip(absl, outs):
        d = extract_defs(out)
        if "EV" not in d or "OPS" not in d or isinstance(d["EV"], tuple) or isinstance(d["OPS"], tuple):
            raise CheckError("cannot read EV/OPS from coqc output: %r" % (out[-400:],))
        for ev, (ops, code) in zip(d["EV"], d["OPS"]):
            x = dict(zip(FLAGS, ev))
            x["ops"] = A.rops(ops)
            x["model_result"] = code
            res.append(x)
    if len(res) != len(cases):
        raise CheckError("coqc returned %d evaluations for %d cases" % (len(res), len(cases)))
    return res


def crash_states(tmpl, picks):
    """picks: list of (before tree, cuts {path: byte offset}, ks). Returns per pick a list of (k, partial, tree)."""
    shard = 25
    items, absl = [], []
    for s0 in range(0, len(picks), shard):
        A = Abs()
        body = HEADER
        for i in range(s0, min(s0 + shard, len(picks))):
            before, cuts, ks = picks[i]
            bounds = bounds_of([before], tmpl, cuts)
            cl = clist(["(%s, %d)" % (A.path(p), bounds.index(c)) for p, c in sorted(cuts.items())])
            body += "Definition S%d := Eval vm_compute in c18_crashes %s %s %s %s.\nPrint S%d.\n" % (
                i, A.template(tmpl, bounds), A.tree(before, bounds), cl, clist([cN(k) for k in ks]), i)
        items.append(("c18_crash_%d" % s0, body))
        absl.append((A, s0))
    outs = coq_eval_many(items)
    res = [None] * len(picks)
    for (A, s0), out in zip(absl, outs):
        d = extract_defs(out)
        for i in range(s0, min(s0 + shard, len(picks))):
            t = d.get("S%d" % i)
            if t is None or isinstance(t, tuple) and t and t[0] == "UNPARSED":
                raise CheckError("cannot read crash states S%d from coqc output" % i)
            res[i] = [(k, part, A.rtree(st)) for (k, part, st) in t]
    return res


# ----------------------------------------------------------------------------- generator

def rbytes(rng, lo=0, hi=48):
    n = rng.randint(lo, hi)
    if rng.random() < 0.5:
        return bytes(rng.choice(b"abcdefghijklmnopqrstuvwxyz =\n\"[]#0123456789") for _ in range(n))
    return bytes(rng.randrange(256) for _ in range(n))


def mutate_file(rng, data, others=()):
    """returns (state name, content or None=absent)"""
    st = rng.choice(["absent", "truncated", "samelen", "shorter", "longer", "longer_tail", "intact", "intact", "empty", "random",
                     "eol", "eol"] + (["other_template"] * 2 if others else []))
    if st == "other_template":
        # exactly the bytes of ANOTHER built-in file (cp PS4_Controller.toml 0_default.toml): pristine content, wrong file
        return st, rng.choice(others)
    if st == "absent":
        return st, None
    if st == "eol":
        # differs from the template in line termination / white space only (an editor's save, a checkout with autocrlf): still "not the
        # template", must be restored byte for byte
        k = rng.randrange(7)
        if k == 0:
            return st, data + b"\n"
        if k == 1 and data.endswith(b"\n"):
            return st, data[:-1]
        if k == 2:
            return st, data.replace(b"\n", b"\r\n")
        if k == 3:
            return st, data + b"\r\n"
        if k == 4:
            return st, data.replace(b"\n", b" \n", 1)
        if k == 5:
            return st, b"\xef\xbb\xbf" + data
        return st, data.rstrip(b"\n") + b"\n\n"
    if st == "truncated":
        return st, data[:rng.randrange(len(data))] if data else b""
    if st == "samelen":
        if not data:
            return st, b""
        i = rng.randrange(len(data))
        return st, data[:i] + bytes([data[i] ^ (1 + rng.randrange(255))]) + data[i + 1:]
    if st == "shorter":
        if len(data) < 2:
            return st, b""
        cut = rng.randrange(1, len(data))
        i = rng.randrange(cut)
        return st, data[:i] + bytes([data[i] ^ 0x20]) + data[i + 1:cut]
    if st == "longer":
        return st, rbytes(rng, len(data) + 1, len(data) + 40)
    if st == "longer_tail":
        return st, data + rbytes(rng, 1, 40)
    if st == "empty":
        return st, b""
    if st == "random":
        return st, rbytes(rng, 0, 64)
    return st, data


USER_NAMES = ["my pad.toml", "keys.toml", "0_default.toml", "notes", "x.TOML", "ünï.toml", "README.md", ".placeholder", "a b c.txt"]


def gen_tree(rng, tmpl, kind):
    """kind: absent | present | conflict. Returns (tree, info)."""
    info = {"kind": kind, "states": {}}
    tree = {}
    if rng.random() < 0.3:
        tree["notes.txt"] = rbytes(rng)
    if rng.random() < 0.2:
        tree[CFG + ".bak"] = None
        tree[CFG + ".bak/hidi.toml"] = rbytes(rng)
    if kind == "absent":
        return tree, info
    fpre = CFG + "/" + FACT
    gone = set()   # template directories chosen to be absent
    for p, v in tmpl:
        par = p.rsplit("/", 1)[0] if "/" in p else ""
        if par in gone or (par and par not in tree and par != ""):
            if v is None:
                gone.add(p)
            info["states"][p] = "absent(parent)"
            continue
        under_factory = p == fpre or p.startswith(fpre + "/")
        if v is None:
            if p == CFG:
                tree[p] = None
            elif p == fpre:
                if rng.random() < 0.08:
                    gone.add(p)
                    info["states"][p] = "absent"
                else:
                    tree[p] = None
            elif under_factory:
                if rng.random() < 0.15:
                    gone.add(p)
                    info["states"][p] = "absent"
                else:
                    tree[p] = None
            else:
                if rng.random() < 0.15:
                    gone.add(p)
                    info["states"][p] = "absent"
                else:
                    tree[p] = None
            continue
        if under_factory:
            st, c = mutate_file(rng, v, others=sorted({w for _q, w in tmpl if w is not None and w != v and _q.startswith(CFG + "/")}))
        elif p == CFG + "/" + BL:
            st, c = rng.choice([("absent", None), ("intact", v), ("arbitrary", rbytes(rng, 0, 80)), ("empty", b""),
                                ("longer_tail", v + b"Bus: 0x0003, Vendor: 0x046d, Product: 0xc52b, Version: 0x0111\n")])
        else:  # hidi.toml, user/README.md, placeholders
            st, c = rng.choice([("absent", None), ("intact", v), ("intact", v), ("modified", rbytes(rng, 0, 120)),
                                ("longer_tail", v + rbytes(rng, 1, 30)), ("truncated", v[:rng.randrange(len(v))] if v else b"x")])
        info["states"][p] = st
        if c is not None:
            tree[p] = c
    # arbitrary user files and extra files (also inside factory/)
    dirs = [p for p in tree if tree[p] is None and (p == CFG or p.startswith(CFG + "/"))]
    for d in dirs:
        n = rng.choice([0, 0, 1, 1, 2, 3]) if "/user" in d else rng.choice([0, 0, 0, 1, 2])
        for _ in range(n):
            nm = rng.choice(USER_NAMES) if rng.random() < 0.7 else "f%d.toml" % rng.randrange(1000)
            q = d + "/" + nm
            if q in tree or any(q == tp for tp, _ in tmpl):
                continue
            if rng.random() < 0.2:
                tree[q] = None
                tree[q + "/inner.toml"] = rbytes(rng)
            else:
                tree[q] = rbytes(rng)
    if kind == "conflict":
        cands = [(p, v) for p, v in tmpl if p in tree]
        p, v = rng.choice(cands)
        info["conflict"] = p
        # drop everything below p, flip its type
        for q in [q for q in tree if q.startswith(p + "/")]:
            del tree[q]
        if v is None:
            tree[p] = rbytes(rng, 0, 20)
        else:
            tree[p] = None
            if rng.random() < 0.5:
                tree[p + "/inside.txt"] = rbytes(rng)
    return tree, info


def handmade(tmpl):
    full = {p: v for p, v in tmpl}
    out = [({}, {"kind": "absent", "tag": "empty working directory"}),
           (dict(full), {"kind": "present", "tag": "complete intact tree"})]
    t = dict(full)
    del t[CFG + "/" + BL]
    out.append((t, {"kind": "present", "tag": "only the blacklist missing"}))
    t = {p: v for p, v in full.items() if not p.startswith(CFG + "/" + FACT)}
    t[CFG + "/user/gamepad/mine.toml"] = b"[identifier]\n"
    t[CFG + "/hidi.toml"] = b"# my settings\n"
    t[CFG + "/" + BL] = b"# mine\n"
    out.append((t, {"kind": "present", "tag": "factory/ missing, user data present"}))
    out.append(({CFG: None}, {"kind": "present", "tag": "empty hidi-config (interrupted first start)"}))
    t = dict(full)
    for p, v in tmpl:
        if v is not None and p.startswith(CFG + "/" + FACT + "/"):
            t[p] = v + b"\n# local edit that is longer than the template\n"
    out.append((t, {"kind": "present", "tag": "every factory file longer than its template"}))
    t = dict(full)
    ff = [(p, v) for p, v in tmpl if v is not None and p.startswith(CFG + "/" + FACT + "/")]
    for i, (p, v) in enumerate(ff):
        t[p] = ff[(i + 1) % len(ff)][1]
    out.append((t, {"kind": "present", "tag": "every factory file carries the pristine content of ANOTHER factory file"}))
    return out


def factory_files(tmpl):
    return [(p, v) for p, v in tmpl if v is not None and p.startswith(CFG + "/" + FACT + "/")]


SIBLINGS = [lambda d, f: "%s/%s.tmp" % (d, f), lambda d, f: "%s/%s.new" % (d, f), lambda d, f: "%s/%s~" % (d, f),
            lambda d, f: "%s/.%s.swp" % (d, f), lambda d, f: "%s/%s.bak" % (d, f), lambda d, f: "%s/.%s.lock" % (d, f)]


def stale_sibling_tree(rng, tmpl, idx):
    """A complete tree in which 1-3 factory files F are damaged or missing while a regular file with arbitrary content sits next to them under a
    name an interrupted run of SOME write strategy might have left (F.tmp F.new F~ .F.swp F.bak .F.lock): later runs must still restore F, and
    must leave the sibling alone (the template does not name it).  Sometimes the same names also appear next to hidi.toml / in user/."""
    tree = {p: v for p, v in tmpl}
    info = {"kind": "stale-sibling", "states": {}, "siblings": []}
    ff = factory_files(tmpl)
    picks = rng.sample(ff, min(len(ff), 1 + idx % 3))
    for j, (p, v) in enumerate(picks):
        st, c = mutate_file(rng, v)
        while st == "intact":
            st, c = mutate_file(rng, v, others=sorted({w for _q, w in tmpl if w is not None and w != v and _q.startswith(CFG + "/")}))
        info["states"][p] = st
        if c is None:
            del tree[p]
        else:
            tree[p] = c
        d, f = p.rsplit("/", 1)
        for mk in ([SIBLINGS[(idx + j) % len(SIBLINGS)]] + ([rng.choice(SIBLINGS)] if rng.random() < 0.4 else [])):
            q = mk(d, f)
            if q not in tree:
                # content: empty, a prefix of the template (what a killed writer leaves), the complete template, or noise
                tree[q] = rng.choice([b"", v[:rng.randrange(len(v) + 1)], v, rbytes(rng, 0, 64)])
                info["siblings"].append(q)
    if rng.random() < 0.5:
        for q in (CFG + "/hidi.toml.tmp", CFG + "/user/.README.md.swp", CFG + "/" + BL + "~"):
            if rng.random() < 0.6 and q.rsplit("/", 1)[0] in tree:
                tree[q] = rbytes(rng, 0, 40)
                info["siblings"].append(q)
    return tree, info


def injection_starts(rng, tmpl, tier):
    """start trees of the implementation-driven crash exploration"""
    full = {p: v for p, v in tmpl}
    ff = factory_files(tmpl)
    out = [({}, {"kind": "absent", "tag": "empty working directory (fresh generation)"})]
    t = dict(full)
    if len(ff) >= 2:
        t[ff[1][0]] = ff[1][1][:len(ff[1][1]) // 2] + b"# local edit\n"
        del t[ff[-1][0]]
    out.append((t, {"kind": "present", "tag": "complete tree, one factory file modified and one missing"}))
    t = dict(full)
    for j, (p, v) in enumerate(ff):
        if j % 4 == 0:
            t[p] = v[:len(v) // 3]
        elif j % 4 == 1:
            t[p] = b""
        elif j % 4 == 2:
            t[p] = v + b"\n# appended by hand\n"
    sub = [p for p, v in tmpl if v is None and p.startswith(CFG + "/" + FACT + "/")]
    if sub:
        for q in [q for q in t if q == sub[-1] or q.startswith(sub[-1] + "/")]:
            del t[q]
    t[CFG + "/hidi.toml"] = b"# my settings\n[hidi]\n"
    t[CFG + "/" + BL] = b"# mine\nBus: 0x0003, Vendor: 0x046d, Product: 0xc52b, Version: 0x0111\n"
    if CFG + "/user" in t:
        t[CFG + "/user/my pad.toml"] = b"[identifier]\nbus = 3\n"
        t[CFG + "/user/notes"] = None
        t[CFG + "/user/notes/todo.txt"] = b"x"
    t[CFG + "/" + FACT + "/extra.toml"] = b"# not a built-in file\n"
    out.append((t, {"kind": "present", "tag": "user files, custom blacklist, damaged factory files, a factory directory missing"}))
    for i in range(4 if tier == "quick" else 8):
        out.append(stale_sibling_tree(rng, tmpl, i))
    for kind in (["present"] * 7 + ["conflict"] * 2 if tier == "quick" else ["present"] * 16 + ["absent"] + ["conflict"] * 3):
        t, info = gen_tree(rng, tmpl, kind)
        out.append((t, info))
    return [{"before": t, "info": i} for t, i in out]


# ----------------------------------------------------------------------------- strace

_STR = r'"((?:[^"\\]|\\.)*)"'


def _unesc(s):
    return re.sub(r"\\(\d{1,3}|.)", lambda m: chr(int(m.group(1), 8)) if m.group(1).isdigit() else m.group(1), s).encode("latin-1").decode("utf-8", "replace")


# every system call that can change a tree (names strace 6.1 knows on x86_64); reads through openat are in the set too
MUT_SET = ("mkdir,mkdirat,open,openat,openat2,creat,write,pwrite64,writev,pwritev,pwritev2,rename,renameat,renameat2,unlink,unlinkat,rmdir,"
           "truncate,ftruncate,fallocate,link,linkat,symlink,symlinkat,chmod,fchmod,fchmodat,chown,fchown,lchown,fchownat,utimensat,"
           "copy_file_range,sendfile,splice,mknod,mknodat")
_FD_CALLS = ("pwrite64", "writev", "pwritev", "pwritev2", "ftruncate", "fallocate", "fchmod", "fchown")


def strace_entries(path):
    """-> [(tid, text)] in log order, one entry per traced system call.  The two halves of a call split by Go's preemption signal
    (`<unfinished ...>` / `<... resumed>`) are joined; a call the process was killed at ends with `= ?`."""
    pending, out = {}, []
    for line in open(path, errors="replace"):
        m = re.match(r"^(\d+)\s+(.*)$", line.rstrip("\n"))
        if not m:
            continue
        pid, rest = m.group(1), m.group(2)
        if rest.endswith("<unfinished ...>"):
            pending[pid] = rest[:-len("<unfinished ...>")].rstrip()
            continue
        m2 = re.match(r"^<\.\.\. \w+ resumed>(.*)$", rest)
        if m2:
            rest = pending.pop(pid, "") + m2.group(1)
        if re.match(r"^\w+\(", rest):
            out.append((pid, rest))
    for pid, rest in pending.items():
        out.append((pid, rest + " = ?"))
    return out


def sc_name(text):
    return text[:text.index("(")]


def parse_strace(path, root):
    """-> {(case id, run): [ops]} for the successful mutating syscalls between the marker mkdirs"""
    out, cur, fds = {}, None, {}
    for _, l in strace_entries(path):
        m = re.match(r'^mkdir(?:at)?\((?:AT_FDCWD, )?' + _STR + r", [0-7]+\)\s+= (-?\d+)", l)
        if m:
            p, rc = _unesc(m.group(1)), int(m.group(2))
            mm = re.match(re.escape(root) + r"/mark-(\d+)-(\d+)-(begin|end)$", p)
            if mm:
                if mm.group(3) == "begin":
                    cur = (int(mm.group(1)), int(mm.group(2)))
                    out[cur] = []
                    fds = {}
                else:
                    cur = None
                continue
            if cur is not None and rc == 0:
                out[cur].append(["mkdir", p])
            continue
        if cur is None:
            continue
        m = re.match(r'^openat\(AT_FDCWD, ' + _STR + r", ([A-Z_|]+)(?:, [0-7]+)?\)\s+= (-?\d+)", l)
        if m:
            p, fl, rc = _unesc(m.group(1)), m.group(2).split("|"), int(m.group(3))
            if rc < 0:
                continue
            fds.pop(rc, None)
            if "O_WRONLY" in fl or "O_RDWR" in fl or "O_CREAT" in fl or "O_TRUNC" in fl:
                fds[rc] = p
                out[cur].append(["truncate" if "O_TRUNC" in fl else "create", p])
            continue
        m = re.match(r"^write\((\d+), .*, (\d+)\)\s+= (-?\d+)", l)
        if m:
            fd, rc = int(m.group(1)), int(m.group(3))
            if fd in fds and rc >= 0:
                last = out[cur][-1] if out[cur] else None
                if last and last[0] == "write" and last[1] == fds[fd]:
                    last[2] += rc
                else:
                    out[cur].append(["write", fds[fd], rc])
            continue
        # anything else of MUT_SET that succeeded (rename, unlink, pwrite64, ftruncate, chmod ...): the model has no such operation
        m = re.match(r"^(\w+)\((.*)\)\s+= (\d+)\s*$", l)
        if not m or m.group(1) == "write":
            continue
        name, args = m.group(1), m.group(2)
        paths = [_unesc(x) for x in re.findall(_STR, args)]
        if name in ("openat", "open", "openat2", "creat"):   # an open the pattern above does not understand (dirfd, openat2)
            if name == "creat" or re.search(r"O_(WRONLY|RDWR|CREAT|TRUNC)", args):
                out[cur].append([name] + paths)
        elif name in _FD_CALLS or name in ("copy_file_range", "sendfile", "splice"):
            hit = [fds[int(x)] for x in re.findall(r"(?:^|, )(\d+)(?=,|$)", args)[:2] if int(x) in fds]
            if hit:
                out[cur].append([name] + hit)
        else:
            out[cur].append([name] + paths)
    return out


def call_window(entries, root, cid):
    """The call bracketed by the marker mkdirs of case `cid` in one strace log.
    -> None (no begin marker: the process ended before the call) or dict(tid, pre = {syscall name: number of calls of that name the calling
    thread issued before the begin marker}, win = [strace text of every MUT_SET call of that thread inside the call], ended = end marker seen,
    others = number of MUT_SET calls of other threads logged inside the call)"""
    b, e = '"%s/mark-%d-0-begin"' % (root, cid), '"%s/mark-%d-0-end"' % (root, cid)
    at = next((i for i, (_, t) in enumerate(entries) if t.startswith("mkdir") and b in t), None)
    if at is None:
        return None
    tid = entries[at][0]
    pre = {}
    for t, text in entries[:at + 1]:
        if t == tid:
            pre[sc_name(text)] = pre.get(sc_name(text), 0) + 1
    win, ended, others = [], False, 0
    for t, text in entries[at + 1:]:
        if t != tid:
            others += 1
            continue
        if text.startswith("mkdir") and e in text:
            ended = True
            break
        win.append(re.sub(r"\s+", " ", text))
    return {"tid": tid, "pre": pre, "win": win, "ended": ended, "others": others}


# ----------------------------------------------------------------------------- the check

def diff_summary(tmpl, before, after):
    fpre = CFG + "/" + FACT
    msgs = []
    for p in sorted(set(before) | set(after)):
        uf = p == fpre or p.startswith(fpre + "/")
        if not uf and p in before and before.get(p) != after.get(p, "missing"):
            msgs.append("%s (outside factory/) was %s" % (p, "removed" if p not in after else "changed"))
    names = {p for p, _ in tmpl}
    for p in sorted(set(before) | set(after)):
        uf = p == fpre or p.startswith(fpre + "/")
        if p not in names and uf and before.get(p, "missing") != after.get(p, "missing"):
            msgs.append("%s (inside factory/, not a built-in entry) was %s" % (p, "removed" if p not in after else "created" if p not in before else "changed"))
        elif p not in names and p not in before:
            msgs.append("%s (not a template path) was created" % p)
    for p, v in tmpl:
        if (p == fpre or p.startswith(fpre + "/")) and after.get(p, "missing") != v:
            msgs.append("factory entry %s is %s" % (p, "missing" if p not in after else "not the template (%s bytes instead of %s)" % (
                len(after[p]) if after[p] is not None else "dir", len(v) if v is not None else "dir")))
    return "; ".join(msgs[:4]) or "see replay file"


class Checker:
    def __init__(self, run_, impl):
        self.run_, self.impl = run_, impl
        self.reported = {}
        self.calls = 0
        self.nontrivial = set()
        self.seen = set()
        self.corr_failed = set()
        self.leftover_notes = []

    def report(self, cat, what, case, res, ev, no_input=False):
        self.reported[cat] = self.reported.get(cat, 0) + 1
        if self.reported[cat] > 2:
            return
        rep = {"kind": "c18-tree", "before": tree_to_json(case["before"]),
               "orig": tree_to_json(case["orig"]) if case.get("orig") else None,
               "crash": case.get("crash"), "info": case.get("info"), "injected": case.get("injected"),
               "after": tree_to_json(res[0]["tree"]) if res else None, "after2": tree_to_json(res[1]["tree"]) if res else None,
               "returned": [{"err": r["err"], "panic": r["panic"]} for r in res] if res else None,
               "flags": {k: ev[k] for k in FLAGS} if ev else None, "model_ops": ev["ops"] if ev else None,
               "model_result": ev["model_result"] if ev else None,
               "monitor": "Model/Upkeep.v:c18_monitor / c18_untouched (C18_monitor_sound)",
               "theorem_or_correspondence": cat}
        self.run_.violation(what, rep, no_input=no_input)

    def process(self, cases, tag):
        """runs implementation + Coq evaluation on the cases; reports violations; returns (results, evals)"""
        results, err = self.impl.call([c["before"] for c in cases])
        if results is None:
            raise CheckError("C18 harness failed: " + err)
        evs = eval_cases(self.impl.tmpl, cases, results, tag)
        for c, r, ev in zip(cases, results, evs):
            self.count(c, ev)
            for cat, what, no_input in self.verdicts(c, r, ev):
                self.report(cat, what, c, r, ev, no_input=no_input)
        return results, evs

    def count(self, c, ev, calls=2):
        self.calls += calls
        h = tree_hash(c["before"])
        if ev["nontrivial"] and h not in self.seen:
            self.nontrivial.add(h)
        self.seen.add(h)

    def verdicts(self, c, r, ev):
        """-> [(theorem or correspondence, text, no_input)] for one evaluated case: `before`, the two observed runs, the flags of c18_eval"""
        tmpl = self.impl.tmpl
        out = []
        if c.get("injected"):
            where = "tree left by a run killed at its %s mutating system call" % ordinal(c["injected"]["k"])
        elif c.get("crash"):
            where = "crash state k=%s%s of a generated tree" % (c["crash"]["k"], " (partial write)" if c["crash"]["partial"] else "")
        else:
            where = "generated tree (%s)" % (c.get("info") or {}).get("kind")
        if not ev["wf_template"]:
            self.corr_failed.add("template")
            return [("template dumped from the binary is not in fs.WalkDir order / lacks factory or blacklist (wf_templateb)",
                     "the embedded template of the binary does not satisfy wf_template: the theorems' hypothesis fails", True)]
        if not ev["fs_wf"]:
            raise CheckError("generator produced a tree that is not a tree: %r" % describe(c["before"]))
        for i, x in enumerate(r):
            if x["panic"]:
                out.append(("panic", "updateHIDIConfiguration panicked (call %d) on a %s: %s" % (i + 1, where, x["panic"]), False))
            if x.get("log_blocked"):
                out.append(("hang", "updateHIDIConfiguration (call %d) on a %s queued more log messages than the logger's channel holds (128) and blocked: in "
                            "main() nothing reads that channel before the upkeep has finished, so the start-up hangs with the tree left as it was at "
                            "that point" % (i + 1, where), False))
        if not ev["untouched"]:
            out.append(("C18_user_untouched monitor",
                        "start-up upkeep touched something it must not on a %s: %s" % (where, diff_summary(tmpl, c["before"], r[0]["tree"])), False))
        elif not ev["orig_kept"]:
            out.append(("C18_crash_recovery monitor (original nodes outside factory/)",
                        "after an interrupted run and a later complete run a node of the original tree outside factory/ is lost or changed (%s): %s"
                        % (where, diff_summary(tmpl, c["orig"], r[0]["tree"])), False))
        elif ev["type_consistent"] and not ev["monitor"]:
            what = diff_summary(tmpl, c["before"], r[0]["tree"])
            if r[0]["tree"] != r[1]["tree"]:
                what += "; a second run changed the tree again"
            if r[0]["err"]:
                what += "; the call returned: " + r[0]["err"][:160]
            out.append(("C18 monitor (factory restored / blacklist / fresh tree / idempotent)",
                        "start-up upkeep on a %s does not establish the property: %s" % (where, what), False))
        elif not (ev["view1"] and ev["view2"]):
            self.corr_failed.add("view")
            out.append(("C18 view: tree and outcome after updateHIDIConfiguration == Model/Upkeep.v run/upkeep",
                        "model and implementation disagree on a %s (call %s): implementation returned %r, model result code %s, model ops %s"
                        % (where, "1" if not ev["view1"] else "2", [x["err"][:80] or x["panic"][:80] for x in r], ev["model_result"], ev["ops"][:6]), False))
        return out


def _verdicts_quiet(self, c, r, ev):
    keep = set(self.corr_failed)
    try:
        return self.verdicts(c, r, ev)
    finally:
        self.corr_failed = keep


Checker.verdicts_quiet = _verdicts_quiet


def ordinal(n):
    return "%d%s" % (n, "th" if 10 <= n % 100 <= 20 else {1: "st", 2: "nd", 3: "rd"}.get(n % 10, "th"))


def gen_cases(rng, tmpl, n):
    cases = [{"before": t, "info": i} for t, i in handmade(tmpl)]
    for i in range(max(8, n // 12)):
        t, info = stale_sibling_tree(rng, tmpl, i)
        cases.append({"before": t, "info": info})
    kinds = ["present"] * 8 + ["absent"] + ["conflict"]
    while len(cases) < n:
        kind = rng.choice(kinds)
        t, info = gen_tree(rng, tmpl, kind)
        if not parents_ok(t):
            raise CheckError("generator bug: parent missing in %r" % sorted(t))
        cases.append({"before": t, "info": info})
    return cases


def crash_cases(rng, tmpl, cases, evs, tier):
    picks, owners = [], []
    for ci, (c, ev) in enumerate(zip(cases, evs)):
        if not (ev["type_consistent"] and ev["fs_wf"] and ev["wf_template"]) or not ev["ops"]:
            continue
        n = len(ev["ops"])
        if tier == "quick":
            ks = sorted(set(rng.sample(range(n + 1), min(3, n + 1))) | ({rng.choice([i for i, o in enumerate(ev["ops"]) if o[0] == "write"])}
                                                                         if any(o[0] == "write" for o in ev["ops"]) else set()))
        else:
            ks = list(range(n + 1))
        cuts = {p: rng.randint(0, len(v)) for p, v in tmpl if v is not None}
        picks.append((c["before"], cuts, ks))
        owners.append(ci)
    states = crash_states(tmpl, picks)
    out = []
    for ci, (before, cuts, ks), sts in zip(owners, picks, states):
        for k, part, st in sts:
            out.append({"before": st, "orig": before, "crash": {"k": k, "partial": bool(part), "of_case": ci,
                                                                "cut": None if not part else cuts.get(evs[ci]["ops"][k][1])},
                        "info": {"kind": "crash"}})
    return out


ORDER_CORR = "C18 order: successful mutating syscalls == model ops"


def strace_order(chk, cases, evs):
    """compare the order of successful mutating syscalls of the first call with the model's operation list.
    -> (number of traced cases, [(case, results, eval, observed ops)] where the order differs).  A difference alone is a broken
    correspondence, not a failing input: run() reports it (no_input) only when no stage exhibits a failing input."""
    run_ = chk.run_
    if shutil.which("strace") is None:
        run_.assumptions.append("strace not available: syscall order not compared in this run")
        return 0, []
    log = os.path.join(workdir(), "c18-strace.log")
    impl = chk.impl
    n0 = impl.n + 1
    root = os.path.join(workdir(), "c18-root-%d" % n0)
    res, err = impl.call([c["before"] for c in cases], mark=True,
                         prefix=["strace", "-f", "-s", "0", "-e", "trace=" + MUT_SET, "-o", log])
    if res is None:
        raise CheckError("C18 harness under strace failed: " + err)
    seq = parse_strace(log, root)
    os.unlink(log)
    diffs = []
    for i, (c, ev) in enumerate(zip(cases, evs)):
        got = seq.get((i, 0))
        if got is None:
            raise CheckError("no strace window for case %d" % i)
        if got != ev["ops"]:
            chk.corr_failed.add("strace")
            diffs.append((c, res[i], ev, got))
        second = seq.get((i, 1))
        if ev["type_consistent"] and second:
            chk.report("C18_idempotent (syscalls)", "the second call issued mutating system calls: %s" % second[:6], c, res[i], ev)
    return len(cases), diffs


def first_diff(got, ops):
    i = next((j for j, (x, y) in enumerate(zip(got, ops)) if x != y), min(len(got), len(ops)))
    return "from operation %d on: observed %s, model %s" % (i + 1, got[i:i + 4], ops[i:i + 4])


# ----------------------------------------------------------------------------- implementation-driven crash exploration

def _straced_call(binary, root, cid, inject, tag):
    """One process: chdir into the existing directory case-<cid>, one updateHIDIConfiguration between the marker mkdirs, under strace.
    inject = None | (syscall name, n): strace kills the process (SIGKILL) when the calling thread enters its n-th call of that name.
    -> (finished normally, strace entries)"""
    import subprocess
    w = workdir()
    fin, fout, log = [os.path.join(w, "inj-%s.%s" % (tag, x)) for x in ("in.json", "out.json", "strace")]
    with open(fin, "w") as fh:
        json.dump({"root": root, "mark": True, "existing": True, "cases": [{"id": cid, "tree": [], "runs": 1}]}, fh)
    cmd = ["strace", "-f", "-s", "0", "-e", "trace=" + MUT_SET]
    if inject:
        cmd += ["-e", "inject=%s:signal=SIGKILL:when=%d" % inject]
    cmd += ["-o", log, binary]
    try:
        subprocess.run(cmd, env=dict(GOENV, VERIF_MODE="c18", VERIF_IN=fin, VERIF_OUT=fout), cwd=w, capture_output=True, text=True, timeout=300)
        finished = os.path.exists(fout)
        entries = strace_entries(log)
    finally:
        for f in (fin, fout, log):
            if os.path.exists(f):
                os.unlink(f)
    return finished, entries


def leftovers(tmpl, orig, tree):
    """paths of `tree` that are neither in the start tree nor named by the template: what the interrupted run itself left behind"""
    names = {p for p, _ in tmpl}
    return {p for p in tree if p not in orig and p not in names}


def without(tree, drop):
    return {p: v for p, v in tree.items() if p not in drop and not any(p.startswith(d + "/") for d in drop)}


def inject_stage(chk, starts, order_note=""):
    """Kill the real code at every mutating system call of one call, then let two complete calls recover; judge the result with the
    monitor used for crash states.  starts: [dict(before, info)].  Returns a coverage dict."""
    run_, impl, tmpl = chk.run_, chk.impl, chk.impl.tmpl
    cov = {"injected_cases": len(starts), "injected_crash_points": 0, "injected_distinct_states": 0, "injected_retries": 0,
           "injected_points_unreached": 0, "injected_leftover_only_differences": 0, "injected_other_thread_syscalls": 0,
           "injected_windows": [], "injected_s": 0.0}
    if shutil.which("strace") is None or not starts:
        if starts:
            run_.assumptions.append("strace not available: no implementation-driven crash exploration in this run")
        return cov
    t0 = time.time()
    # the start trees themselves, run to completion: a tree that fails without any interruption is reported as such and not explored further
    # (every history from it would fail for the same reason and hide the histories that need the interruption)
    _, sev = chk.process(starts, "istart")
    ok = [not chk.verdicts_quiet(c, r, ev) for c, r, ev in zip(starts, _, sev)]
    cov["injected_start_trees_failing_uninterrupted"] = ok.count(False)
    starts = [c for c, o in zip(starts, ok) if o]
    cov["injected_cases"] = len(starts)
    if not starts:
        return cov
    impl.n += 1
    root = os.path.join(workdir(), "c18-inject-%d" % impl.n)
    shutil.rmtree(root, ignore_errors=True)
    os.makedirs(root)
    pool = ThreadPoolExecutor(max_workers=min(12, os.cpu_count() or 4))
    next_id = [0]

    def materialise(trees):
        ids = list(range(next_id[0], next_id[0] + len(trees)))
        next_id[0] += len(trees)
        for b0 in range(0, len(trees), 100):
            impl.raw(root, [{"id": i, "tree": tree_to_json(t), "runs": 0} for i, t in zip(ids[b0:b0 + 100], trees[b0:b0 + 100])])
        return ids

    try:
        # 1. one complete straced call per start tree: the window = every MUT_SET call of the calling thread inside the call
        ids = materialise([c["before"] for c in starts])
        probes = list(pool.map(lambda a: _straced_call(impl.binary, root, a, None, "p%d" % a), ids))
        wins = []
        for c, cid, (fin, ent) in zip(starts, ids, probes):
            w = call_window(ent, root, cid)
            if not fin or w is None or not w["ended"]:
                raise CheckError("injection stage: the uninjected straced call on start tree %r did not complete" % (c["info"],))
            wins.append(w)
            cov["injected_other_thread_syscalls"] += w["others"]
            cov["injected_windows"].append(len(w["win"]))
        # 2. kill on entry of the i-th call of the window, i = 1..len(window): the tree then holds the effects of the first i-1 calls
        want = [(ci, i) for ci, w in enumerate(wins) for i in range(1, len(w["win"]) + 1)]
        got = {}        # (ci, i) -> (case directory id, window of the killed run)
        pres = [[w["pre"]] for w in wins]      # per start tree: the pre-counts seen so far (they depend on which thread runs the call)
        for rnd in range(6):
            todo = [x for x in want if x not in got]
            if not todo:
                break
            cov["injected_retries"] += len(todo) if rnd else 0
            dirs = materialise([starts[ci]["before"] for ci, _ in todo])

            def one(a):
                (ci, i), cid = a
                names = [sc_name(t) for t in wins[ci]["win"]]
                pre = pres[ci][(rnd + i) % len(pres[ci])] if rnd else pres[ci][0]
                return _straced_call(impl.binary, root, cid, (names[i - 1], pre.get(names[i - 1], 0) + names[:i].count(names[i - 1])), "k%d" % cid)
            for ((ci, i), cid), (fin, ent) in zip(zip(todo, dirs), list(pool.map(one, zip(todo, dirs)))):
                w = call_window(ent, root, cid)
                if w is not None and w["pre"] not in pres[ci]:
                    pres[ci].append(w["pre"])
                if fin or w is None or w["ended"] or not w["win"] or not w["win"][-1].endswith("= ?"):
                    continue        # not killed inside the call (another thread ran it: different counters): tried again
                names = [sc_name(t) for t in w["win"]]
                if names != [sc_name(t) for t in wins[ci]["win"][:len(names)]]:
                    raise CheckError("injection stage: two runs on the same start tree issue different system calls: %s / %s"
                                     % (w["win"][-3:], wins[ci]["win"][max(0, len(names) - 3):len(names)]))
                got.setdefault((ci, len(names)), (cid, w))
        cov["injected_points_unreached"] = len([x for x in want if x not in got])
        if cov["injected_points_unreached"] > max(2, len(want) // 10):
            raise CheckError("injection stage: %d of %d kill points could not be hit" % (cov["injected_points_unreached"], len(want)))
        # 3. recovery: the tree as the killed run left it, then two complete calls
        keys = sorted(got)
        rec = {}
        for b0 in range(0, len(keys), 100):
            part = keys[b0:b0 + 100]
            for k, r in zip(part, impl.raw(root, [{"id": got[k][0], "tree": [], "runs": 2} for k in part], existing=True, pre=True)):
                if len(r["runs"]) != 2:
                    raise CheckError("injection stage: recovery of case %d did not run twice" % r["id"])
                rec[k] = (tree_from_json(r.get("pre") or []),
                          [{"err": x["err"], "panic": x["panic"], "tree": tree_from_json(x["tree"] or [])} for x in r["runs"]])
    finally:
        pool.shutdown(wait=True)
        shutil.rmtree(root, ignore_errors=True)
    cov["injected_crash_points"] = len(rec)
    # 4. verdict through the same Coq path as the model-driven crash states; identical (kill tree, recovery) outcomes are evaluated once
    groups = {}
    for (ci, i) in sorted(rec):
        crash, runs = rec[(ci, i)]
        key = (ci, tree_hash(crash), tree_hash(runs[0]["tree"]), tree_hash(runs[1]["tree"]), rcode(runs[0]), rcode(runs[1]))
        groups.setdefault(key, []).append(i)
    cases, results = [], []
    for key, ks in groups.items():
        ci, k = key[0], ks[0]
        crash, runs = rec[(ci, k)]
        win = got[(ci, k)][1]["win"]
        cases.append({"before": crash, "orig": starts[ci]["before"], "crash": {"k": k, "partial": False, "of_case": ci},
                      "info": dict(starts[ci]["info"], kind="injected"),
                      "injected": {"k": k, "same_outcome_at_k": ks, "killed_at": win[-1], "syscalls_up_to_k": win,
                                   "window_length": len(wins[ci]["win"]), "start": tree_to_json(starts[ci]["before"]),
                                   "start_info": starts[ci]["info"], "tree_after_kill": tree_to_json(crash),
                                   "history": "run interrupted at the %s mutating syscall (%s), then 2 complete runs"
                                              % (ordinal(k), re.sub(r"\s*= \?$", "", win[-1]))}})
        results.append(runs)
    cov["injected_distinct_states"] = len(cases)
    evs = eval_cases(tmpl, cases, results, "inject") if cases else []
    retry, reports = [], []
    for c, r, ev in zip(cases, results, evs):
        chk.count(c, ev, calls=2 + len(c["injected"]["same_outcome_at_k"]))
        vs = chk.verdicts(c, r, ev)
        left = leftovers(tmpl, c["orig"], c["before"])
        if vs and left and not any(x["panic"] for x in r):
            retry.append((c, r, ev, vs, left))
        elif vs:
            reports.append((c, r, ev, vs))
    if retry:
        # the killed run left paths of its own (not in the start tree, not template paths).  The property says nothing about them: judge the
        # same observation without them; what then passes is only a difference from the model (which never creates such paths)
        c2 = [dict(c, before=without(c["before"], left)) for c, r, ev, vs, left in retry]
        r2 = [[dict(x, tree=without(x["tree"], left)) for x in r] for c, r, ev, vs, left in retry]
        ev2 = eval_cases(tmpl, c2, r2, "injectl")
        for (c, r, ev, vs, left), cc, rr, ee in zip(retry, c2, r2, ev2):
            vs2 = chk.verdicts(cc, rr, ee)
            if vs2:
                c["injected"]["own_leftovers_disregarded"] = sorted(left)
                reports.append((c, r, ee, vs2))
            else:
                cov["injected_leftover_only_differences"] += 1
                chk.corr_failed.add("inject-leftover")
                chk.leftover_notes.append("killed at the %s mutating syscall (%s) the code leaves %s, which later runs %s" % (
                    ordinal(c["injected"]["k"]), c["injected"]["killed_at"][:100], sorted(left)[:3],
                    "remove or change" if any(r[0]["tree"].get(p, 0) != c["before"].get(p) for p in left) else "keep"))
    for c, r, ev, vs in sorted(reports, key=lambda x: (x[0]["crash"]["of_case"], x[0]["injected"]["k"])):
        report_injected(chk, c, r, ev, vs, order_note)
    cov["injected_failing_histories"] = len(reports)
    cov["injected_sample"] = [{"start": (c["injected"]["start_info"] or {}).get("tag") or (c["injected"]["start_info"] or {}).get("kind"),
                               "history": c["injected"]["history"], "tree_after_kill": describe(c["before"], 8)}
                              for c in cases[1:len(cases):max(1, len(cases) // 3)]][:3]
    cov["injected_s"] = round(time.time() - t0, 1)
    return cov


def report_injected(chk, c, r, ev, vs, order_note):
    left = sorted(leftovers(chk.impl.tmpl, c["orig"], c["before"]))
    for cat, what, no_input in vs:
        chk.report("injected crash: " + cat, "history: %s; start tree: %s. %s%s%s" % (
            c["injected"]["history"], (c["injected"]["start_info"] or {}).get("tag") or (c["injected"]["start_info"] or {}).get("kind"),
            what, "; the killed run left behind %s, still %s after both later runs" % (
                left[:3], "there" if all(p in r[1]["tree"] for p in left) else "partly there") if left and any(p in r[1]["tree"] for p in left) else "",
            order_note), c, r, ev, no_input=no_input)


C18_FILES = ["Model/Upkeep", "Proofs/UpkeepProofs", "Properties/C18", "Run/UpkeepRun"]


def ensure_c18_compiled():
    """The C18 files are built by the normal `make` once they are listed in coq/_CoqProject (coq/regen.sh).
    Until then (or after a dependency was rebuilt) compile what is missing or stale here, under the build lock."""
    import subprocess
    proj = open(os.path.join(COQ, "_CoqProject")).read()
    if all(("theories/%s.v" % f) in proj for f in C18_FILES):
        return
    os.makedirs(WORKROOT, exist_ok=True)
    stale = False
    dep = os.path.join(COQ, "theories/Base/AList.vo")
    for f in C18_FILES:
        v, vo = os.path.join(COQ, "theories", f + ".v"), os.path.join(COQ, "theories", f + ".vo")
        if stale or not os.path.exists(vo) or os.path.getmtime(vo) < os.path.getmtime(v) or \
                (os.path.exists(dep) and os.path.getmtime(vo) < os.path.getmtime(dep)):
            stale = True
            r = subprocess.run(["flock", os.path.join(WORKROOT, "make.lock"), "coqc", "-q", "-Q", "theories", "HIDI", "-w", "none",
                                "theories/%s.v" % f], cwd=COQ, capture_output=True, text=True, timeout=1800)
            if r.returncode != 0:
                raise CheckError("Coq file %s.v does not compile:\n%s" % (f, (r.stdout + r.stderr)[-3000:]))


def run(run_, only=None):
    tier = run_.tier
    rng = random.Random(run_.seed)
    bad = scan_forbidden()
    if bad:
        raise CheckError("forbidden constructs in the Coq development: %s" % bad[:5])
    ensure_coq_built()
    ensure_c18_compiled()
    run_.proof_obligations()
    binary, err = go_build("main")
    if binary is None:
        run_.violation("harness for package main (cmd/hidi) does not build against /repo: " + err,
                       {"theorem_or_correspondence": "C18 harness build", "error": err}, no_input=True)
        return
    impl = Impl(binary)
    res, err = impl.call([])
    if res is None:
        run_.violation("C18 harness failed: " + err, {"theorem_or_correspondence": "C18 harness run", "error": err}, no_input=True)
        return
    tmpl = impl.tmpl
    chk = Checker(run_, impl)
    if only is not None:
        cases = only
    else:
        cases = gen_cases(rng, tmpl, 110 if tier == "quick" else 320)
    batch = 120
    all_evs, crash_total, crash_partial = [], 0, 0
    for b0 in range(0, len(cases), batch):
        part = cases[b0:b0 + batch]
        _, evs = chk.process(part, "base%d" % b0)
        all_evs += evs
    # crash points derived from the model's mutation list
    base_for_crash = [(c, e) for c, e in zip(cases, all_evs) if not c.get("crash")]
    cc = crash_cases(rng, tmpl, [c for c, _ in base_for_crash], [e for _, e in base_for_crash], tier)
    for b0 in range(0, len(cc), 150):
        part = cc[b0:b0 + 150]
        chk.process(part, "crash%d" % b0)
        crash_total += len(part)
        crash_partial += sum(1 for c in part if c["crash"]["partial"])
    # syscall order
    n_st = 30 if tier == "quick" else len(cases)
    straced, order_diffs = strace_order(chk, cases[:n_st], all_evs[:n_st])
    order_note = ""
    if order_diffs:
        order_note = " (the order of mutating system calls also differs from the model's operation list on %d of %d traced trees, %s)" % (
            len(order_diffs), straced, first_diff(order_diffs[0][3], order_diffs[0][2]["ops"]))
    # crash points of the implementation: the real code killed at each of its mutating system calls
    if only is not None:
        starts = [{"before": c["before"], "info": c.get("info") or {"kind": "replay"}} for c in only if c.get("inject")]
    else:
        starts = injection_starts(rng, tmpl, tier)
    icov = inject_stage(chk, starts, order_note)
    # a difference between the real call sequence and the model's, without any failing input: the correspondence is broken, nothing else
    if (order_diffs or chk.leftover_notes) and not any(not v["no_input"] for v in run_.violations) and not run_.known_hits:
        c, r, ev, got = order_diffs[0] if order_diffs else (starts[0], None, None, None)
        parts = []
        if order_diffs:
            parts.append("the successful mutating system calls of updateHIDIConfiguration differ from the model's operation list on %d of %d traced "
                         "trees (first: %s)" % (len(order_diffs), straced, first_diff(got, ev["ops"])))
        if chk.leftover_notes:
            parts.append("an interrupted run leaves paths the model never creates (%d kill points; first: %s)"
                         % (len(chk.leftover_notes), chk.leftover_notes[0]))
        chk.report(ORDER_CORR, "%s. No failing input: all %d trees, %d crash states derived from the model and %d runs killed at a mutating system "
                   "call of the real code (each followed by 2 complete runs) satisfy the monitor - the model no longer describes HOW the code gets "
                   "there, so C18_crash_recovery / C18_user_untouched (statements about the model's intermediate states) are not tied to this code"
                   % ("; ".join(parts), len(cases), crash_total, icov["injected_crash_points"]), c, r, ev, no_input=True)

    kinds = {}
    for c in cases:
        k = (c.get("info") or {}).get("kind", "?")
        kinds[k] = kinds.get(k, 0) + 1
    states = {}
    for c in cases:
        for p, st in ((c.get("info") or {}).get("states") or {}).items():
            if (CFG + "/" + FACT + "/") in p:
                states[st] = states.get(st, 0) + 1
    n_corr = 6
    run_.coverage.update({
        "evaluations": chk.calls,
        "distinct_nontrivial": len(chk.nontrivial),
        "rule": "seeded random trees around the template dumped from the binary: each factory file absent / truncated at a random byte / "
                "modified (same length, shorter, longer, template plus a tail) / empty / intact, factory directories absent, arbitrary user "
                "files and extra files and directories (also inside factory/), blacklist absent / arbitrary / intact, hidi.toml and user/ files "
                "modified or absent, the whole directory absent, a few type conflicts, 6 hand-made trees, trees with a damaged or missing factory "
                "file F next to a stale F.tmp / F.new / F~ / .F.swp / F.bak / .F.lock (what an interrupted run of some other write strategy leaves); "
                "every tree is run twice through the real updateHIDIConfiguration; then for %s k the model's state after the first k mutations "
                "(and after a partial k-th write at a random byte) is materialised and run twice again; then, implementation-driven, on %d start "
                "trees the real call is killed by strace (SIGKILL on entry) at EVERY system call of MUT_SET it issues (mkdir*, open*, write*, "
                "rename*, unlink*, truncate*, link*, symlink*, chmod*, ... - reads through openat included), the tree it leaves is run twice "
                "again and judged by the same monitor as the model's crash states. non-trivial = distinct trees on which the model issues at "
                "least one mutation (evaluations = calls of the real function, a killed call counts as one)"
                % ("sampled" if tier == "quick" else "every", icov["injected_cases"]),
        "samples": [{"tree": describe(c["before"], 12), "kind": (c.get("info") or {}).get("kind"), "model_ops": e["ops"][:8]}
                    for c, e in list(zip(cases, all_evs))[3:9:2]] +
                   ([{"crash_state_of_case": cc[0]["crash"], "tree": describe(cc[0]["before"], 12)}] if cc else []) +
                   [{"injected": x} for x in icov.pop("injected_sample", [])],
        "exhaustive": False,
        "base_trees": len(cases), "base_tree_kinds": kinds, "factory_file_states_generated": states,
        "crash_states": crash_total, "crash_states_with_partial_write": crash_partial,
        "strace_compared_cases": straced, "strace_order_differs_on": len(order_diffs),
        "template_entries": len(tmpl),
        "correspondence_obligations": n_corr,
        "correspondence_discharged": n_corr - len(chk.corr_failed) if not run_.violations else max(0, n_corr - max(1, len(chk.corr_failed))),
        "correspondence_names": ["template dumped from the binary satisfies wf_template", "view: tree+outcome after each real call == model (base trees)",
                                 "view on materialised crash states", "monitor c18_monitor / c18_untouched on observed trees",
                                 "strace: order of successful mutating syscalls == model ops",
                                 "injected crash points: monitor and view on the trees the real code leaves when killed at each of its mutating "
                                 "syscalls; it leaves no path of its own"],
    })
    run_.coverage.update(icov)
    run_.assumptions += [
        "file contents are given to Coq as chunk-id lists: every content of a case is cut at all content lengths and partial-write offsets of "
        "that case, a chunk id names (offset, bytes); injective per case and commutes with the model's content operations (equality, prefix, "
        "overwrite-keeping-tail, empty); names are interned as integers with hidi-config=0, factory=1, 'device blacklist.txt'=2",
        "domain of the model: trees of directories and regular files owned by the user (no symlinks, no permission errors, no I/O errors or "
        "short writes, nobody else modifies the tree during the call); type conflicts are modelled below factory/ and at hidi-config",
        "a crash is modelled as a prefix of the mutation sequence plus an arbitrary prefix of the data of the write in progress "
        "(no reordering of metadata and data by the file system after power loss)",
        "the harness calls updateHIDIConfiguration in a process whose working directory is the case directory, the logger channel is drained",
        "implementation-driven crash points: strace 6.1 `-e inject=<syscall>:signal=SIGKILL:when=<n>` kills the process when the calling thread "
        "ENTERS its n-th call of that name, i.e. before the call takes effect (observed: the file of a killed openat(O_CREAT) does not exist); the "
        "state after the last call is the complete run.  strace counts per thread and per syscall name, so n is computed from an uninjected "
        "straced run of the same start tree (calls of that name before the begin marker + inside the call) and the log of every killed run is "
        "re-read to establish where it really died (a run that died elsewhere - the Go scheduler put the test on another thread - is repeated). "
        "A kill inside a write (partial data) cannot be produced this way: partial writes are covered by the model-derived crash states only. "
        "Only calls of the thread that runs updateHIDIConfiguration (locked) are kill points; MUT_SET calls of other threads inside the call are "
        "counted in coverage.injected_other_thread_syscalls (runtime wake-ups; none touch the tree on the unchanged code)",
        "injected histories are judged by the monitor of the crash states (before = the tree the killed run left, orig = the start tree); when that "
        "fails and the killed run left paths of its own (not in the start tree, not named by the template) the same observation is judged again "
        "without those paths: the property does not speak about them.  What passes only then is reported as a broken correspondence "
        "(the model never creates such paths), not as a failing input",
        "a difference between the order of the real mutating syscalls and the model's operation list is reported as a broken correspondence "
        "(no failing input) only when no stage found a failing input; otherwise it is mentioned in the text of the injected-crash report",
    ]


def replay(run_, data):
    rep = data["replay"]
    inj = rep.get("injected")
    if inj:
        # the whole history again: the start tree, the real code killed at every mutating syscall, two complete runs
        case = {"before": tree_from_json(inj["start"]), "info": inj.get("start_info") or {"kind": "replay"}, "inject": True}
        run(run_, only=[case])
        return
    case = {"before": tree_from_json(rep["before"]), "info": rep.get("info") or {"kind": "replay"}}
    if rep.get("orig"):
        case["orig"] = tree_from_json(rep["orig"])
        case["crash"] = rep.get("crash") or {"k": "?", "partial": False}
    run(run_, only=[case])
