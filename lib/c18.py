"""C18: start-up upkeep (cmd/hidi/config.go:updateHIDIConfiguration) never touches user files and always restores factory files.

Pipeline per batch of trees:
  1. the real function is run (twice) on every tree by the test binary of package main (harness/go/main), in a
     fresh directory per case; the embedded template is dumped from the same binary;
  2. coqc evaluates, per case, the domain checks, the view comparison (model result == observed tree, for both
     calls), the property monitor (Model/Upkeep.v:c18_monitor, the function C18_monitor_sound is about) and
     prints the model's mutation list;
  3. crash points: coqc computes `apply fs (firstn k ops)` (and the state after a partial k-th write) for chosen k,
     the states are materialised as real trees and go through 1-2 again, plus "nodes of the original tree outside
     factory/ survive";
  4. strace: the order of successful mutating syscalls of the real call is compared with the model's list.
File contents are passed to Coq as lists of chunk ids (see `Abs`)."""
import hashlib, random, re, shutil
from common import *

CFG, FACT, BL = "hidi-config", "factory", "device blacklist.txt"
RESERVED = {CFG: 0, FACT: 1, BL: 2}
FLAGS = ["wf_template", "fs_wf", "type_consistent", "view1", "view2", "monitor", "untouched", "orig_kept", "nontrivial"]


# ----------------------------------------------------------------------------- trees
# a tree is a dict: slash path (relative to the case directory) -> None (directory) | bytes (regular file)

def tree_to_json(tree):
    out = []
    for p in sorted(tree, key=lambda q: q.split("/")):
        v = tree[p]
        out.append({"p": p, "d": True} if v is None else {"p": p, "h": v.hex()})
    return out


def tree_from_json(nodes):
    return {n["p"]: (None if n.get("d") else bytes.fromhex(n.get("h", ""))) for n in nodes}


def tree_hash(tree):
    h = hashlib.sha256()
    for p in sorted(tree):
        h.update(p.encode() + b"\0" + (b"D" if tree[p] is None else b"F" + tree[p]) + b"\0")
    return h.hexdigest()


def describe(tree, limit=40):
    return ["%s%s" % (p, "/" if tree[p] is None else " (%d bytes, sha1 %s)" % (len(tree[p]), hashlib.sha1(tree[p]).hexdigest()[:8]))
            for p in sorted(tree)][:limit]


def parents_ok(tree):
    for p in tree:
        if "/" in p:
            par = p.rsplit("/", 1)[0]
            if par not in tree or tree[par] is not None:
                return False
    return True


# ----------------------------------------------------------------------------- abstraction to Coq literals

class Abs:
    """Names -> ids (hidi-config = 0, factory = 1, 'device blacklist.txt' = 2, the rest in order of appearance).
    Contents -> list of chunk ids: per case every content is cut at all `bounds` (every content length occurring in
    the case and every partial-write offset), a chunk id stands for (start offset, bytes).  The map is injective on
    the contents of a case and commutes with the operations the model performs on contents (equality, take the
    first j symbols, replace a prefix keeping the longer tail, empty)."""

    def __init__(self):
        self.names = dict(RESERVED)
        self.rnames = {v: k for k, v in RESERVED.items()}
        self.chunks = {}
        self.rchunks = []

    def name(self, s):
        if s not in self.names:
            self.names[s] = len(self.names)
            self.rnames[self.names[s]] = s
        return self.names[s]

    def path(self, p):
        comps = [c for c in p.split("/") if c] if p else []
        return clist([cN(self.name(c)) for c in reversed(comps)])

    def rpath(self, ids):
        return "/".join(self.rnames[i] for i in reversed(ids))

    def content(self, data, bounds):
        out = []
        for lo, hi in zip(bounds, bounds[1:]):
            if hi > len(data):
                break
            key = (lo, data[lo:hi])
            if key not in self.chunks:
                self.chunks[key] = len(self.rchunks)
                self.rchunks.append(data[lo:hi])
            out.append(self.chunks[key])
        if sum(len(self.rchunks[i]) for i in out) != len(data):
            raise CheckError("content length %d is not a chunk boundary" % len(data))
        return out

    def rcontent(self, ids):
        return b"".join(self.rchunks[i] for i in ids)

    def node(self, v, bounds):
        return "Dir" if v is None else "File " + clist([cN(i) for i in self.content(v, bounds)])

    def tree(self, tree, bounds, root=True):
        items = ["([], Dir)"] if root else []
        for p in sorted(tree, key=lambda q: q.split("/")):
            items.append("(%s, %s)" % (self.path(p), self.node(tree[p], bounds)))
        return clist(items)

    def template(self, tmpl, bounds):
        return clist(["(%s, %s)" % (self.path(p), self.node(v, bounds)) for p, v in tmpl])

    def rtree(self, term):
        """parsed Coq fs -> python tree (drops the working directory entry)"""
        out = {}
        for p, n in term:
            if not p:
                continue
            if isinstance(n, dict) and n.get("c") == "Dir":
                out[self.rpath(p)] = None
            else:
                out[self.rpath(p)] = self.rcontent(n["args"][0])
        return out

    def rops(self, term):
        out = []
        for op in term:
            c, args = op["c"], op["args"]
            if c == "Write":
                out.append(["write", self.rpath(args[0]), len(self.rcontent(args[1]))])
            else:
                out.append([c.lower(), self.rpath(args[0])])
        return out


def bounds_of(trees, tmpl, cuts):
    b = {0}
    for t in trees:
        for v in t.values():
            if v is not None:
                b.add(len(v))
    for _, v in tmpl:
        if v is not None:
            b.add(len(v))
    for p, c in cuts.items():
        b.add(c)
    return sorted(b)


HEADER = ("From Coq Require Import List NArith Bool.\nFrom HIDI Require Import Base.AList Model.Upkeep Run.UpkeepRun.\n"
          "Import ListNotations.\nOpen Scope N_scope.\n")


# ----------------------------------------------------------------------------- running the implementation

class Impl:
    def __init__(self, binary):
        self.binary = binary
        self.n = 0
        self.tmpl = None

    def call(self, cases, mark=False, prefix=None):
        """cases: list of trees. Returns list of dict(err, panic, tree) pairs per case: [[run1, run2], ...]"""
        self.n += 1
        root = os.path.join(workdir(), "c18-root-%d" % self.n)
        shutil.rmtree(root, ignore_errors=True)
        os.makedirs(root)
        inp = {"root": root, "mark": mark,
               "cases": [{"id": i, "tree": tree_to_json(t), "runs": 2} for i, t in enumerate(cases)]}
        try:
            out, err = run_harness(self.binary, "c18", inp, timeout=1200, flags=False, prefix=prefix)
        finally:
            shutil.rmtree(root, ignore_errors=True)
        if out is None:
            return None, err
        if out.get("confdir") != CFG:
            return None, "configDir is %r, the model assumes %r" % (out.get("confdir"), CFG)
        self.tmpl = [(n["p"], None if n.get("d") else bytes.fromhex(n.get("h", ""))) for n in out["template"]]
        res = []
        for r in out["results"]:
            if r.get("setup_err") or len(r["runs"]) != 2:
                return None, "harness could not set up case %d: %s" % (r["id"], r.get("setup_err"))
            res.append([{"err": x["err"], "panic": x["panic"], "tree": tree_from_json(x["tree"] or [])} for x in r["runs"]])
        return res, None


def rcode(run):
    return 2 if run["panic"] else (1 if run["err"] else 0)


# ----------------------------------------------------------------------------- Coq evaluation

def eval_cases(tmpl, cases, results, tag):
    """cases: list of dict(before, orig|None, cuts). Returns list of dict(flags..., ops, model_result)."""
    shard = 25
    items = []
    absl = []
    for s0 in range(0, len(cases), shard):
        A = Abs()
        body = HEADER
        names = []
        for i in range(s0, min(s0 + shard, len(cases))):
            c, r = cases[i], results[i]
            orig = c.get("orig") or c["before"]
            trees = [c["before"], r[0]["tree"], r[1]["tree"], orig]
            bounds = bounds_of(trees, tmpl, {})
            body += "Definition c%d := mk_c18 %s %s %s %s %d %d %s.\n" % (
                i, A.template(tmpl, bounds), A.tree(c["before"], bounds), A.tree(r[0]["tree"], bounds),
                A.tree(r[1]["tree"], bounds), rcode(r[0]), rcode(r[1]), A.tree(orig, bounds))
            names.append("c%d" % i)
        body += "Definition EV := Eval vm_compute in map c18_eval %s.\nPrint EV.\n" % clist(names)
        body += "Definition OPS := Eval vm_compute in map c18_ops %s.\nPrint OPS.\n" % clist(names)
        items.append(("c18_%s_%d" % (tag, s0), body))
        absl.append(A)
    outs = coq_eval_many(items)
    res = []
    for A, out in zip(absl, outs):
        d = extract_defs(out)
        if "EV" not in d or "OPS" not in d or isinstance(d["EV"], tuple) or isinstance(d["OPS"], tuple):
            raise CheckError("cannot read EV/OPS from coqc output: %r" % (out[-400:],))
        for ev, (ops, code) in zip(d["EV"], d["OPS"]):
            x = dict(zip(FLAGS, ev))
            x["ops"] = A.rops(ops)
            x["model_result"] = code
            res.append(x)
    if len(res) != len(cases):
        raise CheckError("coqc returned %d evaluations for %d cases" % (len(res), len(cases)))
    return res


def crash_states(tmpl, picks):
    """picks: list of (before tree, cuts {path: byte offset}, ks). Returns per pick a list of (k, partial, tree)."""
    shard = 25
    items, absl = [], []
    for s0 in range(0, len(picks), shard):
        A = Abs()
        body = HEADER
        for i in range(s0, min(s0 + shard, len(picks))):
            before, cuts, ks = picks[i]
            bounds = bounds_of([before], tmpl, cuts)
            cl = clist(["(%s, %d)" % (A.path(p), bounds.index(c)) for p, c in sorted(cuts.items())])
            body += "Definition S%d := Eval vm_compute in c18_crashes %s %s %s %s.\nPrint S%d.\n" % (
                i, A.template(tmpl, bounds), A.tree(before, bounds), cl, clist([cN(k) for k in ks]), i)
        items.append(("c18_crash_%d" % s0, body))
        absl.append((A, s0))
    outs = coq_eval_many(items)
    res = [None] * len(picks)
    for (A, s0), out in zip(absl, outs):
        d = extract_defs(out)
        for i in range(s0, min(s0 + shard, len(picks))):
            t = d.get("S%d" % i)
            if t is None or isinstance(t, tuple) and t and t[0] == "UNPARSED":
                raise CheckError("cannot read crash states S%d from coqc output" % i)
            res[i] = [(k, part, A.rtree(st)) for (k, part, st) in t]
    return res


# ----------------------------------------------------------------------------- generator

def rbytes(rng, lo=0, hi=48):
    n = rng.randint(lo, hi)
    if rng.random() < 0.5:
        return bytes(rng.choice(b"abcdefghijklmnopqrstuvwxyz =\n\"[]#0123456789") for _ in range(n))
    return bytes(rng.randrange(256) for _ in range(n))


def mutate_file(rng, data):
    """returns (state name, content or None=absent)"""
    st = rng.choice(["absent", "truncated", "samelen", "shorter", "longer", "longer_tail", "intact", "intact", "empty", "random"])
    if st == "absent":
        return st, None
    if st == "truncated":
        return st, data[:rng.randrange(len(data))] if data else b""
    if st == "samelen":
        if not data:
            return st, b""
        i = rng.randrange(len(data))
        return st, data[:i] + bytes([data[i] ^ (1 + rng.randrange(255))]) + data[i + 1:]
    if st == "shorter":
        if len(data) < 2:
            return st, b""
        cut = rng.randrange(1, len(data))
        i = rng.randrange(cut)
        return st, data[:i] + bytes([data[i] ^ 0x20]) + data[i + 1:cut]
    if st == "longer":
        return st, rbytes(rng, len(data) + 1, len(data) + 40)
    if st == "longer_tail":
        return st, data + rbytes(rng, 1, 40)
    if st == "empty":
        return st, b""
    if st == "random":
        return st, rbytes(rng, 0, 64)
    return st, data


USER_NAMES = ["my pad.toml", "keys.toml", "0_default.toml", "notes", "x.TOML", "ünï.toml", "README.md", ".placeholder", "a b c.txt"]


def gen_tree(rng, tmpl, kind):
    """kind: absent | present | conflict. Returns (tree, info)."""
    info = {"kind": kind, "states": {}}
    tree = {}
    if rng.random() < 0.3:
        tree["notes.txt"] = rbytes(rng)
    if rng.random() < 0.2:
        tree[CFG + ".bak"] = None
        tree[CFG + ".bak/hidi.toml"] = rbytes(rng)
    if kind == "absent":
        return tree, info
    fpre = CFG + "/" + FACT
    gone = set()   # template directories chosen to be absent
    for p, v in tmpl:
        par = p.rsplit("/", 1)[0] if "/" in p else ""
        if par in gone or (par and par not in tree and par != ""):
            if v is None:
                gone.add(p)
            info["states"][p] = "absent(parent)"
            continue
        under_factory = p == fpre or p.startswith(fpre + "/")
        if v is None:
            if p == CFG:
                tree[p] = None
            elif p == fpre:
                if rng.random() < 0.08:
                    gone.add(p)
                    info["states"][p] = "absent"
                else:
                    tree[p] = None
            elif under_factory:
                if rng.random() < 0.15:
                    gone.add(p)
                    info["states"][p] = "absent"
                else:
                    tree[p] = None
            else:
                if rng.random() < 0.15:
                    gone.add(p)
                    info["states"][p] = "absent"
                else:
                    tree[p] = None
            continue
        if under_factory:
            st, c = mutate_file(rng, v)
        elif p == CFG + "/" + BL:
            st, c = rng.choice([("absent", None), ("intact", v), ("arbitrary", rbytes(rng, 0, 80)), ("empty", b""),
                                ("longer_tail", v + b"Bus: 0x0003, Vendor: 0x046d, Product: 0xc52b, Version: 0x0111\n")])
        else:  # hidi.toml, user/README.md, placeholders
            st, c = rng.choice([("absent", None), ("intact", v), ("intact", v), ("modified", rbytes(rng, 0, 120)),
                                ("longer_tail", v + rbytes(rng, 1, 30)), ("truncated", v[:rng.randrange(len(v))] if v else b"x")])
        info["states"][p] = st
        if c is not None:
            tree[p] = c
    # arbitrary user files and extra files (also inside factory/)
    dirs = [p for p in tree if tree[p] is None and (p == CFG or p.startswith(CFG + "/"))]
    for d in dirs:
        n = rng.choice([0, 0, 1, 1, 2, 3]) if "/user" in d else rng.choice([0, 0, 0, 1, 2])
        for _ in range(n):
            nm = rng.choice(USER_NAMES) if rng.random() < 0.7 else "f%d.toml" % rng.randrange(1000)
            q = d + "/" + nm
            if q in tree or any(q == tp for tp, _ in tmpl):
                continue
            if rng.random() < 0.2:
                tree[q] = None
                tree[q + "/inner.toml"] = rbytes(rng)
            else:
                tree[q] = rbytes(rng)
    if kind == "conflict":
        cands = [(p, v) for p, v in tmpl if p in tree]
        p, v = rng.choice(cands)
        info["conflict"] = p
        # drop everything below p, flip its type
        for q in [q for q in tree if q.startswith(p + "/")]:
            del tree[q]
        if v is None:
            tree[p] = rbytes(rng, 0, 20)
        else:
            tree[p] = None
            if rng.random() < 0.5:
                tree[p + "/inside.txt"] = rbytes(rng)
    return tree, info


def handmade(tmpl):
    full = {p: v for p, v in tmpl}
    out = [({}, {"kind": "absent", "tag": "empty working directory"}),
           (dict(full), {"kind": "present", "tag": "complete intact tree"})]
    t = dict(full)
    del t[CFG + "/" + BL]
    out.append((t, {"kind": "present", "tag": "only the blacklist missing"}))
    t = {p: v for p, v in full.items() if not p.startswith(CFG + "/" + FACT)}
    t[CFG + "/user/gamepad/mine.toml"] = b"[identifier]\n"
    t[CFG + "/hidi.toml"] = b"# my settings\n"
    t[CFG + "/" + BL] = b"# mine\n"
    out.append((t, {"kind": "present", "tag": "factory/ missing, user data present"}))
    out.append(({CFG: None}, {"kind": "present", "tag": "empty hidi-config (interrupted first start)"}))
    t = dict(full)
    for p, v in tmpl:
        if v is not None and p.startswith(CFG + "/" + FACT + "/"):
            t[p] = v + b"\n# local edit that is longer than the template\n"
    out.append((t, {"kind": "present", "tag": "every factory file longer than its template"}))
    return out


# ----------------------------------------------------------------------------- strace

_STR = r'"((?:[^"\\]|\\.)*)"'


def _unesc(s):
    return re.sub(r"\\(\d{1,3}|.)", lambda m: chr(int(m.group(1), 8)) if m.group(1).isdigit() else m.group(1), s).encode("latin-1").decode("utf-8", "replace")


def parse_strace(path, root):
    """-> {(case id, run): [ops]} for the syscalls between the marker mkdirs"""
    pending = {}
    lines = []
    for line in open(path, errors="replace"):
        m = re.match(r"^(\d+)\s+(.*)$", line.rstrip("\n"))
        if not m:
            continue
        pid, rest = m.group(1), m.group(2)
        if rest.endswith("<unfinished ...>"):
            pending[pid] = rest[:-len("<unfinished ...>")].rstrip()
            continue
        m2 = re.match(r"^<\.\.\. \w+ resumed>(.*)$", rest)
        if m2:
            rest = pending.pop(pid, "") + m2.group(1)
        lines.append(rest)
    out, cur, fds = {}, None, {}
    for l in lines:
        m = re.match(r'^mkdir(?:at)?\((?:AT_FDCWD, )?' + _STR + r", [0-7]+\)\s+= (-?\d+)", l)
        if m:
            p, rc = _unesc(m.group(1)), int(m.group(2))
            mm = re.match(re.escape(root) + r"/mark-(\d+)-(\d+)-(begin|end)$", p)
            if mm:
                if mm.group(3) == "begin":
                    cur = (int(mm.group(1)), int(mm.group(2)))
                    out[cur] = []
                    fds = {}
                else:
                    cur = None
                continue
            if cur is not None and rc == 0:
                out[cur].append(["mkdir", p])
            continue
        if cur is None:
            continue
        m = re.match(r'^openat\(AT_FDCWD, ' + _STR + r", ([A-Z_|]+)(?:, [0-7]+)?\)\s+= (-?\d+)", l)
        if m:
            p, fl, rc = _unesc(m.group(1)), m.group(2).split("|"), int(m.group(3))
            if rc < 0:
                continue
            fds.pop(rc, None)
            if "O_WRONLY" in fl or "O_RDWR" in fl or "O_CREAT" in fl or "O_TRUNC" in fl:
                fds[rc] = p
                out[cur].append(["truncate" if "O_TRUNC" in fl else "create", p])
            continue
        m = re.match(r"^write\((\d+), .*, (\d+)\)\s+= (-?\d+)", l)
        if m:
            fd, rc = int(m.group(1)), int(m.group(3))
            if fd in fds and rc >= 0:
                last = out[cur][-1] if out[cur] else None
                if last and last[0] == "write" and last[1] == fds[fd]:
                    last[2] += rc
                else:
                    out[cur].append(["write", fds[fd], rc])
    return out


# ----------------------------------------------------------------------------- the check

def diff_summary(tmpl, before, after):
    fpre = CFG + "/" + FACT
    msgs = []
    for p in sorted(set(before) | set(after)):
        uf = p == fpre or p.startswith(fpre + "/")
        if not uf and p in before and before.get(p) != after.get(p, "missing"):
            msgs.append("%s (outside factory/) was %s" % (p, "removed" if p not in after else "changed"))
    for p, v in tmpl:
        if (p == fpre or p.startswith(fpre + "/")) and after.get(p, "missing") != v:
            msgs.append("factory entry %s is %s" % (p, "missing" if p not in after else "not the template (%s bytes instead of %s)" % (
                len(after[p]) if after[p] is not None else "dir", len(v) if v is not None else "dir")))
    return "; ".join(msgs[:4]) or "see replay file"


class Checker:
    def __init__(self, run_, impl):
        self.run_, self.impl = run_, impl
        self.reported = {}
        self.calls = 0
        self.nontrivial = set()
        self.seen = set()
        self.corr_failed = set()

    def report(self, cat, what, case, res, ev, no_input=False):
        self.reported[cat] = self.reported.get(cat, 0) + 1
        if self.reported[cat] > 2:
            return
        rep = {"kind": "c18-tree", "before": tree_to_json(case["before"]),
               "orig": tree_to_json(case["orig"]) if case.get("orig") else None,
               "crash": case.get("crash"), "info": case.get("info"),
               "after": tree_to_json(res[0]["tree"]) if res else None, "after2": tree_to_json(res[1]["tree"]) if res else None,
               "returned": [{"err": r["err"], "panic": r["panic"]} for r in res] if res else None,
               "flags": {k: ev[k] for k in FLAGS} if ev else None, "model_ops": ev["ops"] if ev else None,
               "model_result": ev["model_result"] if ev else None,
               "monitor": "Model/Upkeep.v:c18_monitor / c18_untouched (C18_monitor_sound)",
               "theorem_or_correspondence": cat}
        self.run_.violation(what, rep, no_input=no_input)

    def process(self, cases, tag):
        """runs implementation + Coq evaluation on the cases; reports violations; returns (results, evals)"""
        results, err = self.impl.call([c["before"] for c in cases])
        if results is None:
            raise CheckError("C18 harness failed: " + err)
        tmpl = self.impl.tmpl
        evs = eval_cases(tmpl, cases, results, tag)
        for c, r, ev in zip(cases, results, evs):
            self.calls += 2
            h = tree_hash(c["before"])
            if ev["nontrivial"] and h not in self.seen:
                self.nontrivial.add(h)
            self.seen.add(h)
            where = "crash state k=%s%s of a generated tree" % (c["crash"]["k"], " (partial write)" if c["crash"]["partial"] else "") if c.get("crash") else "generated tree (%s)" % (c.get("info") or {}).get("kind")
            if not ev["wf_template"]:
                self.corr_failed.add("template")
                self.report("template dumped from the binary is not in fs.WalkDir order / lacks factory or blacklist (wf_templateb)",
                            "the embedded template of the binary does not satisfy wf_template: the theorems' hypothesis fails", c, r, ev, no_input=True)
                continue
            if not ev["fs_wf"]:
                raise CheckError("generator produced a tree that is not a tree: %r" % describe(c["before"]))
            for i, x in enumerate(r):
                if x["panic"]:
                    self.report("panic", "updateHIDIConfiguration panicked (call %d) on a %s: %s" % (i + 1, where, x["panic"]), c, r, ev)
            if not ev["untouched"]:
                self.report("C18_user_untouched monitor",
                            "start-up upkeep touched something it must not on a %s: %s" % (where, diff_summary(tmpl, c["before"], r[0]["tree"])), c, r, ev)
            elif not ev["orig_kept"]:
                self.report("C18_crash_recovery monitor (original nodes outside factory/)",
                            "after an interrupted run and a later complete run a node of the original tree outside factory/ is lost or changed (%s): %s"
                            % (where, diff_summary(tmpl, c["orig"], r[0]["tree"])), c, r, ev)
            elif ev["type_consistent"] and not ev["monitor"]:
                what = diff_summary(tmpl, c["before"], r[0]["tree"])
                if r[0]["tree"] != r[1]["tree"]:
                    what += "; a second run changed the tree again"
                if r[0]["err"]:
                    what += "; the call returned: " + r[0]["err"][:160]
                self.report("C18 monitor (factory restored / blacklist / fresh tree / idempotent)",
                            "start-up upkeep on a %s does not establish the property: %s" % (where, what), c, r, ev)
            elif not (ev["view1"] and ev["view2"]):
                self.corr_failed.add("view")
                self.report("C18 view: tree and outcome after updateHIDIConfiguration == Model/Upkeep.v run/upkeep",
                            "model and implementation disagree on a %s (call %s): implementation returned %r, model result code %s, model ops %s"
                            % (where, "1" if not ev["view1"] else "2", [x["err"][:80] or x["panic"][:80] for x in r], ev["model_result"], ev["ops"][:6]), c, r, ev)
        return results, evs


def gen_cases(rng, tmpl, n):
    cases = [{"before": t, "info": i} for t, i in handmade(tmpl)]
    kinds = ["present"] * 8 + ["absent"] + ["conflict"]
    while len(cases) < n:
        kind = rng.choice(kinds)
        t, info = gen_tree(rng, tmpl, kind)
        if not parents_ok(t):
            raise CheckError("generator bug: parent missing in %r" % sorted(t))
        cases.append({"before": t, "info": info})
    return cases


def crash_cases(rng, tmpl, cases, evs, tier):
    picks, owners = [], []
    for ci, (c, ev) in enumerate(zip(cases, evs)):
        if not (ev["type_consistent"] and ev["fs_wf"] and ev["wf_template"]) or not ev["ops"]:
            continue
        n = len(ev["ops"])
        if tier == "quick":
            ks = sorted(set(rng.sample(range(n + 1), min(3, n + 1))) | ({rng.choice([i for i, o in enumerate(ev["ops"]) if o[0] == "write"])}
                                                                         if any(o[0] == "write" for o in ev["ops"]) else set()))
        else:
            ks = list(range(n + 1))
        cuts = {p: rng.randint(0, len(v)) for p, v in tmpl if v is not None}
        picks.append((c["before"], cuts, ks))
        owners.append(ci)
    states = crash_states(tmpl, picks)
    out = []
    for ci, (before, cuts, ks), sts in zip(owners, picks, states):
        for k, part, st in sts:
            out.append({"before": st, "orig": before, "crash": {"k": k, "partial": bool(part), "of_case": ci,
                                                                "cut": None if not part else cuts.get(evs[ci]["ops"][k][1])},
                        "info": {"kind": "crash"}})
    return out


def strace_order(chk, cases, evs):
    """compare the order of successful mutating syscalls of the first call with the model's operation list"""
    run_ = chk.run_
    if shutil.which("strace") is None:
        run_.assumptions.append("strace not available: syscall order not compared in this run")
        return 0
    log = os.path.join(workdir(), "c18-strace.log")
    impl = chk.impl
    n0 = impl.n + 1
    root = os.path.join(workdir(), "c18-root-%d" % n0)
    res, err = impl.call([c["before"] for c in cases], mark=True,
                         prefix=["strace", "-f", "-s", "0", "-e", "trace=mkdir,mkdirat,openat,write", "-o", log])
    if res is None:
        raise CheckError("C18 harness under strace failed: " + err)
    seq = parse_strace(log, root)
    os.unlink(log)
    bad = 0
    for i, (c, ev) in enumerate(zip(cases, evs)):
        got = seq.get((i, 0))
        if got is None:
            raise CheckError("no strace window for case %d" % i)
        if got != ev["ops"]:
            bad += 1
            chk.corr_failed.add("strace")
            chk.report("C18 order: successful mutating syscalls of updateHIDIConfiguration == fst (upkeep T fs)",
                       "the order of mutating system calls differs from the model: observed %s, model %s" % (got[:8], ev["ops"][:8]),
                       c, res[i], ev)
        second = seq.get((i, 1))
        if ev["type_consistent"] and second:
            bad += 1
            chk.report("C18_idempotent (syscalls)", "the second call issued mutating system calls: %s" % second[:6], c, res[i], ev)
    return len(cases)


C18_FILES = ["Model/Upkeep", "Proofs/UpkeepProofs", "Properties/C18", "Run/UpkeepRun"]


def ensure_c18_compiled():
    """The C18 files are built by the normal `make` once they are listed in coq/_CoqProject (coq/regen.sh).
    Until then (or after a dependency was rebuilt) compile what is missing or stale here, under the build lock."""
    import subprocess
    proj = open(os.path.join(COQ, "_CoqProject")).read()
    if all(("theories/%s.v" % f) in proj for f in C18_FILES):
        return
    os.makedirs(WORKROOT, exist_ok=True)
    stale = False
    dep = os.path.join(COQ, "theories/Base/AList.vo")
    for f in C18_FILES:
        v, vo = os.path.join(COQ, "theories", f + ".v"), os.path.join(COQ, "theories", f + ".vo")
        if stale or not os.path.exists(vo) or os.path.getmtime(vo) < os.path.getmtime(v) or \
                (os.path.exists(dep) and os.path.getmtime(vo) < os.path.getmtime(dep)):
            stale = True
            r = subprocess.run(["flock", os.path.join(WORKROOT, "make.lock"), "coqc", "-q", "-Q", "theories", "HIDI", "-w", "none",
                                "theories/%s.v" % f], cwd=COQ, capture_output=True, text=True, timeout=1800)
            if r.returncode != 0:
                raise CheckError("Coq file %s.v does not compile:\n%s" % (f, (r.stdout + r.stderr)[-3000:]))


def run(run_, only=None):
    tier = run_.tier
    rng = random.Random(run_.seed)
    bad = scan_forbidden()
    if bad:
        raise CheckError("forbidden constructs in the Coq development: %s" % bad[:5])
    ensure_coq_built()
    ensure_c18_compiled()
    run_.proof_obligations()
    binary, err = go_build("main")
    if binary is None:
        run_.violation("harness for package main (cmd/hidi) does not build against /repo: " + err,
                       {"theorem_or_correspondence": "C18 harness build", "error": err}, no_input=True)
        return
    impl = Impl(binary)
    res, err = impl.call([])
    if res is None:
        run_.violation("C18 harness failed: " + err, {"theorem_or_correspondence": "C18 harness run", "error": err}, no_input=True)
        return
    tmpl = impl.tmpl
    chk = Checker(run_, impl)
    if only is not None:
        cases = only
    else:
        cases = gen_cases(rng, tmpl, 110 if tier == "quick" else 320)
    batch = 120
    all_evs, crash_total, crash_partial = [], 0, 0
    for b0 in range(0, len(cases), batch):
        part = cases[b0:b0 + batch]
        _, evs = chk.process(part, "base%d" % b0)
        all_evs += evs
    # crash points
    base_for_crash = [(c, e) for c, e in zip(cases, all_evs) if not c.get("crash")]
    cc = crash_cases(rng, tmpl, [c for c, _ in base_for_crash], [e for _, e in base_for_crash], tier)
    for b0 in range(0, len(cc), 150):
        part = cc[b0:b0 + 150]
        chk.process(part, "crash%d" % b0)
        crash_total += len(part)
        crash_partial += sum(1 for c in part if c["crash"]["partial"])
    # syscall order
    n_st = 30 if tier == "quick" else len(cases)
    straced = strace_order(chk, cases[:n_st], all_evs[:n_st])

    kinds = {}
    for c in cases:
        k = (c.get("info") or {}).get("kind", "?")
        kinds[k] = kinds.get(k, 0) + 1
    states = {}
    for c in cases:
        for p, st in ((c.get("info") or {}).get("states") or {}).items():
            if (CFG + "/" + FACT + "/") in p:
                states[st] = states.get(st, 0) + 1
    n_corr = 5
    run_.coverage.update({
        "evaluations": chk.calls,
        "distinct_nontrivial": len(chk.nontrivial),
        "rule": "seeded random trees around the template dumped from the binary: each factory file absent / truncated at a random byte / "
                "modified (same length, shorter, longer, template plus a tail) / empty / intact, factory directories absent, arbitrary user "
                "files and extra files and directories (also inside factory/), blacklist absent / arbitrary / intact, hidi.toml and user/ files "
                "modified or absent, the whole directory absent, a few type conflicts, 6 hand-made trees; every tree is run twice through the "
                "real updateHIDIConfiguration; then for %s k the model's state after the first k mutations (and after a partial k-th write "
                "at a random byte) is materialised and run twice again. non-trivial = distinct trees on which the model issues at least one "
                "mutation (evaluations = calls of the real function)" % ("sampled" if tier == "quick" else "every"),
        "samples": [{"tree": describe(c["before"], 12), "kind": (c.get("info") or {}).get("kind"), "model_ops": e["ops"][:8]}
                    for c, e in list(zip(cases, all_evs))[3:9:2]] +
                   ([{"crash_state_of_case": cc[0]["crash"], "tree": describe(cc[0]["before"], 12)}] if cc else []),
        "exhaustive": False,
        "base_trees": len(cases), "base_tree_kinds": kinds, "factory_file_states_generated": states,
        "crash_states": crash_total, "crash_states_with_partial_write": crash_partial,
        "strace_compared_cases": straced,
        "template_entries": len(tmpl),
        "correspondence_obligations": n_corr,
        "correspondence_discharged": n_corr - len(chk.corr_failed) if not run_.violations else max(0, n_corr - max(1, len(chk.corr_failed))),
        "correspondence_names": ["template dumped from the binary satisfies wf_template", "view: tree+outcome after each real call == model (base trees)",
                                 "view on materialised crash states", "monitor c18_monitor / c18_untouched on observed trees",
                                 "strace: order of successful mutating syscalls == model ops"],
    })
    run_.assumptions += [
        "file contents are given to Coq as chunk-id lists: every content of a case is cut at all content lengths and partial-write offsets of "
        "that case, a chunk id names (offset, bytes); injective per case and commutes with the model's content operations (equality, prefix, "
        "overwrite-keeping-tail, empty); names are interned as integers with hidi-config=0, factory=1, 'device blacklist.txt'=2",
        "domain of the model: trees of directories and regular files owned by the user (no symlinks, no permission errors, no I/O errors or "
        "short writes, nobody else modifies the tree during the call); type conflicts are modelled below factory/ and at hidi-config",
        "a crash is modelled as a prefix of the mutation sequence plus an arbitrary prefix of the data of the write in progress "
        "(no reordering of metadata and data by the file system after power loss)",
        "the harness calls updateHIDIConfiguration in a process whose working directory is the case directory, the logger channel is drained",
    ]


def replay(run_, data):
    rep = data["replay"]
    case = {"before": tree_from_json(rep["before"]), "info": rep.get("info") or {"kind": "replay"}}
    if rep.get("orig"):
        case["orig"] = tree_from_json(rep["orig"])
        case["crash"] = rep.get("crash") or {"k": "?", "partial": False}
    run(run_, only=[case])
