"""Running device cases on the real implementation and evaluating the model / monitors on them in Coq."""
from common import *
import devgen

HEADER = ("From Coq Require Import List NArith ZArith Bool.\nFrom HIDI Require Import Base.AList Model.Device Run.DeviceRun %s.\n"
          "Import ListNotations.\nOpen Scope N_scope.\n")


def run_impl(binary, cases, chunk=400):
    results = []
    for i in range(0, len(cases), chunk):
        # every third case runs with logging enabled, as in production (the log formatting paths are part of the event processing)
        batch = [dict(c, logs=((i + j) % 3 == 0)) for j, c in enumerate(cases[i:i + chunk])]
        out, err = run_harness(binary, "device", {"cases": batch}, timeout=900)
        if out is None:
            return None, err
        results += out["results"]
    return results, None


def run_stream(binary, cases, chunk=600):
    """mode "stream" of the device harness: production-capacity output channel, back-to-back events, lagging consumer"""
    results = []
    for i in range(0, len(cases), chunk):
        batch = [dict(c, logs=((i + j) % 3 == 0)) for j, c in enumerate(cases[i:i + chunk])]
        out, err = run_harness(binary, "stream", {"cases": batch}, timeout=900)
        if out is None:
            return None, err
        results += out["results"]
    return results, None


def receiver_trajectory(stream):
    """what a receiver makes of a message stream: the sequence of distinct (sounding notes, non-zero controllers, bends) states"""
    notes, ccs, pbs = set(), {}, {}
    traj = []
    last = None
    for m in stream:
        if len(m) != 3:
            continue
        st, ch = m[0] & 0xF0, m[0] & 15
        if st == 0x90 and m[2] > 0:
            notes.add((ch, m[1]))
        elif st == 0x80 or st == 0x90:
            notes.discard((ch, m[1]))
        elif st == 0xB0:
            if m[1] == 123:
                notes -= {n for n in notes if n[0] == ch}
            elif m[2]:
                ccs[(ch, m[1])] = m[2]
            else:
                ccs.pop((ch, m[1]), None)
        elif st == 0xE0:
            pbs[ch] = (m[1], m[2])
        cur = (tuple(sorted(notes)), tuple(sorted(ccs.items())), tuple(sorted(pbs.items())))
        if cur != last:
            traj.append(cur)
            last = cur
    return traj


def emit_kcase(case, res):
    cfg = case["cfg"]
    sid = devgen.sub_ids(cfg)
    names = devgen.map_name_ids(cfg)
    evs = clist([devgen.emit_key_event(cfg, e, sid) for e in case["events"]])
    obs = clist([devgen.emit_ostep(cfg, st, names) for st in res["steps"]])
    return "(Build_kcase %s %s %s %s)" % (devgen.emit_config(cfg), evs, obs, devgen.emit_msgs(res["cleanup"]))


ACTION_ID = {a: i for i, a in enumerate(["MappingUp", "MappingDown", "AMapping", "OctaveUp", "OctaveDown", "SemitoneUp", "SemitoneDown",
                                          "ChannelUp", "ChannelDown", "AChannel", "Multinote", "Panic", "Learning", "Exit", "ANone"])}
CMODE_ID = {m: i for i, m in enumerate(devgen.CMODES)}
ATYPE_ID = {"cc": 0, "pitch_bend": 1, "key": 2, "action": 3}


def _msgs_text(out, ms):
    out.append(len(ms))
    for m in ms:
        out.append(len(m))
        out += m


def emit_kcase_text(case, res, index=0):
    """The content of emit_kcase as one line of blank-separated integers for the extracted driver (grammar: coq/extract/driver.ml).
    Field for field the same encoding as emit_config / emit_key_event / emit_ostep / emit_msgs (sub-handler ids, mapping ids,
    constructor choice for unknown strings); numbers that are N in the model must be non-negative here too."""
    cfg = case["cfg"]
    sid = devgen.sub_ids(cfg)
    names = devgen.map_name_ids(cfg)
    act = lambda a: ACTION_ID[devgen.action_ctor(a)]
    o = [index, len(cfg["mappings"])]
    for i, m in enumerate(cfg["mappings"]):
        o += [i, len(m["midi"])]
        for k in m["midi"]:
            o += [sid[k["sub"]], k["code"], k["note"], k["off"]]
        o.append(len(m["analog"]))
        for a in m["analog"]:
            o += [sid[a["sub"]], a["code"], ATYPE_ID.get(a["type"], 4), a["cc"], a["ccneg"], a["note"], a["noteneg"], a["off"], a["offneg"],
                  act(a["act"]), act(a["actneg"]), int(bool(a["flip"])), int(bool(a["bidi"])), int(bool(a["dzc"]))]
    o.append(len(cfg["actions"]))
    for a in cfg["actions"]:
        o += [a["code"], act(a["action"])]
    o.append(len(cfg["exitseq"]))
    o += cfg["exitseq"]
    o += [CMODE_ID[cfg["cmode"]], cfg["octave"], cfg["semitone"], cfg["channel"], cfg["mapping"], cfg["velocity"]]
    o.append(len(case["events"]))
    for e in case["events"]:
        if e["t"] == "o":      # not interpreted by the device: for the extracted model the same as an autorepeat event (value 2 = ignored, state unchanged)
            o += [0, e["code"], 2]
            continue
        if e["t"] != "k":
            raise ValueError(e)
        o += [sid[e["sub"]], e["code"], e["val"]]
    o.append(len(res["steps"]))
    for st in res["steps"]:
        s = st["state"]
        _msgs_text(o, st["midi"])
        o += [st["sigs"], s["octave"], s["semitone"], s["channel"], s["notes"], names.get(s["mapping"], 999)]
    _msgs_text(o, res["cleanup"])
    return " ".join(map(str, map(int, o)))


def eval_shards(cases, results, evals, imports="", shard=150, emit=emit_kcase, case_type="kcase", tag="dev"):
    """evals: list of (NAME, coq term with free variable `cases`). Returns {NAME: [(global case index, value)...]} where
    every coq term must evaluate to a list of (nat * X) pairs or a list of nat (local indices)."""
    items = []
    idx = [i for i in range(len(cases)) if not results[i].get("panic") and not results[i].get("hang")]
    for si in range(0, len(idx), shard):
        part = idx[si:si + shard]
        body = HEADER % imports
        for j, gi in enumerate(part):
            body += "Definition k%d : %s := %s.\n" % (j, case_type, emit(cases[gi], results[gi]))
        body += "Definition cases : list %s := %s.\n" % (case_type, clist(["k%d" % j for j in range(len(part))]))
        for name, term in evals:
            body += "Definition %s := Eval vm_compute in %s.\nPrint %s.\n" % (name, term, name)
        items.append(("%s_%d" % (tag, si), body))
    outs = coq_eval_many(items)
    merged = {name: [] for name, _ in evals}
    for k, out in enumerate(outs):
        part = idx[k * shard:(k + 1) * shard]
        defs = extract_defs(out)
        for name, _ in evals:
            v = defs.get(name)
            if v is None or (isinstance(v, tuple) and v and v[0] == "UNPARSED"):
                raise CheckError("cannot read %s from coqc output: %r" % (name, v))
            for item in v:
                if isinstance(item, tuple):
                    merged[name].append((part[item[0]],) + tuple(item[1:]))
                else:
                    merged[name].append((part[item],))
    return merged
