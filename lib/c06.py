"""C06: analog axis to CC / pitch-bend transfer function."""
from common import *
import devgen, agen
from agen import bits
from devprop import DevProp

KIND = {"cc_uni": "KCCuni", "cc_bidi": "KCCbidi", "pb": "KPB"}
DZS_QUICK = [0.0, 0.05, 0.1, 0.13, 0.25, 0.5, 0.91]
DZS_FULL = [k / 100.0 for k in range(0, 100)]
RANGES8 = [(0, 255), (-128, 127), (-127, 127)]
RANGES_BIG = [(-32768, 32767), (0, 65535), (0, 1023), (-1, 1), (0, 4095)]


def a(code, val, sub=""):
    return {"t": "a", "sub": sub, "code": code, "val": val}


def sweep_values(rng, mn, mx, dz):
    if mx - mn <= 300:
        up = list(range(mn, mx + 1))
        vals = up + up[::-1] + [rng.randint(mn, mx) for _ in range(40)]
    else:
        edges = {mn, mn + 1, -1, 0, 1, mx - 1, mx, (mn + mx) // 2, (mn + mx) // 2 + 1}
        for sgn in (1, -1):
            for base in (mx, abs(mn) if mn < 0 else mx):
                e = int(sgn * dz * base)
                edges |= {e - 1, e, e + 1}
        half = (mn + mx) / 2.0
        for frac in (dz, -dz):
            e = int(half + frac * (mx - mn) / 2.0)
            edges |= {e - 1, e, e + 1}
        pts = sorted(v for v in edges if mn <= v <= mx) + sorted(rng.randint(mn, mx) for _ in range(120))
        pts = sorted(set(pts))
        vals = pts + pts[::-1] + [rng.choice(pts) for _ in range(30)]
    return vals


class C06(DevProp):
    pid = "C06"
    imports = "Model.AnalogF Model.AnalogSpec Run.AnalogRun"
    case_type = "c06case"
    fail_term = "c06_failures k"
    mis_term = "c06_mismatch k"
    monitor_name = ("C06 monitor (every transmitted value within one step of the exact rational value; end stops and rest position exact; right "
                    "controller/side; monotone in the raw position over the whole sweep)")
    correspondence_name = "C06 view (bytes of every axis event, model vs implementation, bit-exact float layer)"
    rule = ("one device per configuration: range (8-bit signed/unsigned: EVERY raw value up and down; 16-bit, 10/12-bit and hat: edges, deadzone "
            "edges +-1, sampled) x deadzone value x deadzone source (specific, per-handler default, global default) x flip x deadzone_at_center "
            "(min = 0 only) x {unidirectional CC, bidirectional CC, pitch bend}; the up/down sweep plus random jumps exercises (previous, new) pairs of "
            "the duplicate suppression; plus a mapping-switch stream: 2-3 mappings with different deadzone / flip / kind for the same axis, partial "
            "sweeps separated by mapping_up / mapping_down and the up+down chord (reset), each event judged with the configuration of the mapping "
            "State() reported; a shared-code stream: the same ABS code on 2-3 sub-handlers with their own controllers, the handlers reporting equal positions "
            "one after the other (each handler judged on its own); non-trivial = distinct configurations with at least 10 transmitted axis events")

    @staticmethod
    def emit_g(g):
        return "(Build_c06cfg %s%%Z %s%%Z %s %s %s %s %d %d)" % (cZ(g["mn"]), cZ(g["mx"]), cbool(g["dzc"]), cbool(g["flip"]), KIND[g["kind"]],
                                                                agen.fbits(g["dzbits"]), g["cc"], g["ccneg"])

    def emit_multi(self, case, res):
        gs = clist(["(%d, %s)" % (i, self.emit_g(g)) for i, g in enumerate(case["gs"])])
        return "(Build_c06mcase %s %d %s)" % (gs, case["cfg"]["mapping"], agen.emit_acase(case, res))

    def emit_handlers(self, case, res):
        sid = devgen.sub_ids(case["cfg"])
        gs = clist(["(%d, %s)" % (sid[sub], self.emit_g(g)) for sub, g in case["hs"]])
        return "(Build_c06hcase %s %s)" % (gs, agen.emit_acase(case, res))

    def emit(self, case, res):
        g = case["g"]
        gl = "(Build_c06cfg %s%%Z %s%%Z %s %s %s %s %d %d)" % (cZ(g["mn"]), cZ(g["mx"]), cbool(g["dzc"]), cbool(g["flip"]), KIND[g["kind"]],
                                                            agen.fbits(g["dzbits"]), g["cc"], g["ccneg"])
        return "(Build_c06case %s %s)" % (gl, agen.emit_acase(case, res))

    def evaluate(self, cases, results, tag):
        import math
        import devrun
        merged = {"FAIL": [], "MIS": [], "NT": []}
        for variant in ("single", "mappings", "handlers"):
            idx = [i for i, c in enumerate(cases) if ("mappings" if "gs" in c else "handlers" if "hs" in c else "single") == variant]
            if not idx:
                continue
            multi = variant != "single"
            pre = {"single": "c06", "mappings": "c06m", "handlers": "c06h"}[variant]
            evals = [("FAIL", "enum_fail (fun k => %s_failures k) 0 cases" % pre),
                     ("MIS", "enum_some (fun k => %s_mismatch k) 0 cases" % pre),
                     ("NT", "enum_true (fun k => Nat.leb 10 (%s_transmitted k)) 0 cases" % pre)]
            n = max(2, min(12, math.ceil(len(idx) / 8)))
            m = devrun.eval_shards([cases[i] for i in idx], [results[i] for i in idx], evals, imports=self.imports, shard=n,
                                   emit={"single": self.emit, "mappings": self.emit_multi, "handlers": self.emit_handlers}[variant],
                                   case_type=pre + "case", tag=tag + pre[3:])
            for name in merged:
                merged[name] += [(idx[it[0]],) + tuple(it[1:]) for it in m[name]]
        for name in merged:
            merged[name].sort()
        return merged

    def make_case(self, rng, mn, mx, dz, src, flip, dzc, kind):
        sub = "" if src != "global" else "stick"
        an = agen.analog(agen.ABS_X, "cc" if kind != "pb" else "pitch_bend", sub=sub, cc=20, ccneg=21, off=rng.choice([0, 3]),
                         offneg=rng.choice([0, 5]), flip=flip, bidi=(kind == "cc_bidi"), dzc=dzc)
        other = bits(0.37)
        if src == "specific":
            dzl, dd = [{"sub": sub, "code": agen.ABS_X, "bits": str(bits(dz))}], [{"sub": "", "bits": str(other)}]
        elif src == "handler":
            dzl, dd = [{"sub": sub, "code": agen.ABS_Y, "bits": str(other)}], [{"sub": sub, "bits": str(bits(dz))}]
        else:
            dzl, dd = [], [{"sub": "", "bits": str(bits(dz))}]
        cfg = agen.base_cfg([an], dz=dzl, defdz=dd, channel=rng.choice([1, 16]))
        ev = [a(agen.ABS_X, v, sub) for v in sweep_values(rng, mn, mx, dz)]
        return {"cfg": cfg, "abs": [{"code": agen.ABS_X, "min": mn, "max": mx}], "events": ev,
                "g": {"mn": mn, "mx": mx, "dzc": dzc, "flip": flip, "kind": kind, "dzbits": bits(dz), "cc": 20, "ccneg": 21},
                "tag": "%s[%d,%d]" % (kind, mn, mx)}

    def make_multi_case(self, rng, mn, mx, all_bidi=False):
        """2-3 mappings with different deadzone / flip / kind for the same axis; mapping_up / mapping_down between partial sweeps,
        including the up+down chord (reset to the first mapping) pressed from every mapping."""
        n_maps = rng.choice([2, 3])
        dzs = rng.sample([0.0, 0.05, 0.1, 0.2, 0.33, 0.5], n_maps)
        maps, gs = [], []
        for i in range(n_maps):
            kind = "cc_bidi" if all_bidi else rng.choice(["cc_uni", "cc_bidi", "pb"])
            flip = rng.random() < 0.3
            dzc = mn == 0 and rng.random() < 0.3
            an = agen.analog(agen.ABS_X, "cc" if kind != "pb" else "pitch_bend", cc=20 + 2 * i, ccneg=21 + 2 * i, off=rng.choice([0, 3]),
                             offneg=rng.choice([0, 5]), flip=flip, bidi=(kind == "cc_bidi"), dzc=dzc)
            maps.append({"name": "M%d" % i, "midi": [], "analog": [an], "dz": [{"sub": "", "code": agen.ABS_X, "bits": str(bits(dzs[i]))}],
                         "defdz": [{"sub": "", "bits": str(bits(0.37))}], "subs": []})
            gs.append({"mn": mn, "mx": mx, "dzc": dzc, "flip": flip, "kind": kind, "dzbits": bits(dzs[i]), "cc": 20 + 2 * i, "ccneg": 21 + 2 * i})
        UP, DOWN = 59, 60
        cfg = agen.base_cfg([], actions=[{"code": UP, "action": "mapping_up"}, {"code": DOWN, "action": "mapping_down"}],
                            channel=rng.choice([1, 16]), mapping=rng.randrange(n_maps))
        cfg["mappings"] = maps

        def k(code, val):
            return {"t": "k", "sub": "", "code": code, "val": val}

        def part():
            pts = {mn, mx, 0, (mn + mx) // 2} | {rng.randint(mn, mx) for _ in range(14)}
            for d in dzs:
                for base in (mx, abs(mn) if mn < 0 else mx):
                    pts |= {int(d * base * f) for f in (0.5, 1.5, -0.5, -1.5)}
            pts = [v for v in pts if mn <= v <= mx]
            rng.shuffle(pts)
            return [a(agen.ABS_X, v) for v in pts]

        ev = part()
        for _ in range(rng.randint(3, 6)):
            r = rng.random()
            if r < 0.3:
                ev += [k(UP, 1), k(UP, 0)]
            elif r < 0.5:
                ev += [k(DOWN, 1), k(DOWN, 0)]
            else:
                first, second = (UP, DOWN) if rng.random() < 0.6 else (DOWN, UP)
                ev += [k(first, 1)] + (part() if rng.random() < 0.6 else []) + [k(second, 1)]
                ev += [k(first, 0), k(second, 0)] if rng.random() < 0.5 else [k(second, 0), k(first, 0)]
            ev += part()
        return {"cfg": cfg, "abs": [{"code": agen.ABS_X, "min": mn, "max": mx}], "events": ev, "gs": gs, "g": {"per_mapping": gs},
                "tag": "mapping-switch[%d,%d]" % (mn, mx)}

    def make_handlers_case(self, rng, mn, mx):
        """the same ABS code on 2-3 sub-handlers of one device, each with its own controllers / kind / flip / deadzone; events alternate
        between the handlers and deliberately make handler B report what handler A reported last (rest, end stops, equal positions)"""
        subs = ["", "Touchpad", "aux"][: rng.choice([2, 3])]
        analogs, hs, dzl = [], [], []
        for i, sub in enumerate(subs):
            kind = rng.choice(["cc_uni", "cc_uni", "cc_bidi", "pb"])
            flip = rng.random() < 0.3
            dzc = mn == 0 and rng.random() < 0.3
            dz = rng.choice([0.0, 0.05, 0.2])
            analogs.append(agen.analog(agen.ABS_X, "cc" if kind != "pb" else "pitch_bend", sub=sub, cc=20 + 2 * i, ccneg=21 + 2 * i,
                                       off=rng.choice([0, 3]), offneg=rng.choice([0, 5]), flip=flip, bidi=(kind == "cc_bidi"), dzc=dzc))
            dzl.append({"sub": sub, "code": agen.ABS_X, "bits": str(bits(dz))})
            hs.append((sub, {"mn": mn, "mx": mx, "dzc": dzc, "flip": flip, "kind": kind, "dzbits": bits(dz), "cc": 20 + 2 * i, "ccneg": 21 + 2 * i}))
        cfg = agen.base_cfg(analogs, dz=dzl, defdz=[{"sub": "", "bits": str(bits(0.37))}], channel=rng.choice([1, 16]))
        mid = 0 if mn < 0 else (mn + mx) // 2
        special = [mn, mx, mid, 0 if mn <= 0 <= mx else mn, mid + 1, mid - 1]
        ev = []
        for _ in range(60):
            x = rng.choice(special) if rng.random() < 0.6 else rng.randint(mn, mx)
            y = rng.choice(special) if rng.random() < 0.6 else rng.randint(mn, mx)
            sa, sb = rng.sample(subs, 2)
            ev += [a(agen.ABS_X, x, sb), a(agen.ABS_X, y, sa), a(agen.ABS_X, y, sb)]     # B moves away, A goes to y, B follows to the same y
        return {"cfg": cfg, "abs": [{"code": agen.ABS_X, "min": mn, "max": mx}], "events": [e for e in ev if mn <= e["val"] <= mx],
                "hs": hs, "g": {"per_handler": [g for _, g in hs]}, "tag": "shared-code-handlers[%d,%d]" % (mn, mx)}

    def gen(self, rng, tier):
        cases = [self.k5_corpus()]
        for i in range(10 if tier == "quick" else 100):
            mn, mx = (RANGES8 + [(-32768, 32767), (0, 1023)])[i % 5]
            cases.append(self.make_handlers_case(rng, mn, mx))
        for i in range(16 if tier == "quick" else 150):
            mn, mx = (RANGES8 + [(-32768, 32767), (0, 1023)])[i % 5]
            cases.append(self.make_multi_case(rng, mn, mx))
        # every mapping binds the axis to a bidirectional pair with controllers of its own: crossings under one mapping, a switch, crossings
        # under the other, back (what one mapping remembers about "which side" must not leak into the other)
        for i in range(4 if tier == "quick" else 30):
            mn, mx = [(-128, 127), (-32768, 32767), (0, 255), (-127, 127)][i % 4]
            cases.append(self.make_multi_case(rng, mn, mx, all_bidi=True))
        combos = []
        for (mn, mx) in RANGES8 + RANGES_BIG:
            for flip in (False, True):
                for dzc in ((False, True) if mn == 0 else (False,)):
                    for kind in ("cc_uni", "cc_bidi", "pb"):
                        combos.append((mn, mx, flip, dzc, kind))
        if tier == "quick":
            # every combination once with a rotating deadzone and source; the 8-bit ranges get the full sweep
            for i, (mn, mx, flip, dzc, kind) in enumerate(combos):
                dz = DZS_QUICK[i % len(DZS_QUICK)]
                src = ("specific", "handler", "global")[i % 3]
                cases.append(self.make_case(rng, mn, mx, dz, src, flip, dzc, kind))
        else:
            for (mn, mx, flip, dzc, kind) in combos:
                for j, dz in enumerate(DZS_FULL if mx - mn <= 300 else DZS_FULL[::5]):
                    cases.append(self.make_case(rng, mn, mx, dz, ("specific", "handler", "global")[j % 3], flip, dzc, kind))
        return cases

    def shrink(self, binary, case, budget=12):
        return DevProp.shrink(self, binary, case, budget=budget)

    def k5_signature(self, binary, case, steps):
        """K5: pitch bend + deadzone_at_center, every failing position has its exact re-centred value |2*raw/max - 1| within 5*2^-53 of
        the deadzone edge (the float code computes v*2-1 from the rounded quotient and may land on the other side of the edge), and what
        was transmitted there is one step off the centre (8191 / 8193)."""
        from fractions import Fraction
        import struct
        g = case.get("g") or {}
        if not steps or g.get("kind") != "pb" or not g.get("dzc") or g.get("mn") != 0:
            return None
        dz = Fraction(struct.unpack("<d", struct.pack("<Q", int(g["dzbits"])))[0])
        _, res = self.fails(binary, {k: v for k, v in case.items() if k != "tag"})
        if not res or len(res.get("steps", [])) != len(case["events"]):
            return None
        for i in steps:
            if i >= len(case["events"]):
                continue          # the monotonicity verdict over the whole sweep: judged by the per-step failures
            e = case["events"][i]
            if e["t"] != "a":
                return None
            w = abs(Fraction(2 * e["val"], g["mx"]) - 1)
            if abs(w - dz) > Fraction(5, 2 ** 53):
                return None
            # the message in force at that position: this step's, or (suppressed duplicate) the last one sent before it
            m = None
            for j in range(i, -1, -1):
                if res["steps"][j]["midi"]:
                    m = res["steps"][j]["midi"][0]
                    break
            if not m or (m[0] & 0xF0) != 0xE0 or (m[2] * 128 + m[1]) not in (8191, 8193):
                return None
        return "K5-pitchbend-centre-at-deadzone-edge"

    def report_case(self, run_, binary, case, what, steps=None, shrink=True, no_input=False):
        # steps index the axis events; keep the configuration in the replay
        if not no_input and "gs" not in case and "hs" not in case:
            sig = self.k5_signature(binary, case, steps)
            if sig:
                small = {k: v for k, v in case.items() if k != "tag"}
                run_.violation(what + " [configuration: %s]" % json.dumps(case.get("g")),
                               {"kind": "device-history", "case": small, "failing_steps": steps, "monitor": self.monitor_name}, signature=sig)
                return
        DevProp.report_case(self, run_, binary, case, what + " [configuration: %s]" % json.dumps(case.get("g")), steps=None, shrink=False, no_input=no_input)

    def k5_corpus(self):
        """the witness of known finding K5 (Example C06_pb_centre_needed): runs first in every tier"""
        mn, mx, dzbits = 0, 12, 4595172819793696086
        an = agen.analog(agen.ABS_X, "pitch_bend", cc=20, ccneg=21, flip=True, dzc=True)
        cfg = agen.base_cfg([an], dz=[{"sub": "", "code": agen.ABS_X, "bits": str(dzbits)}], defdz=[{"sub": "", "bits": str(bits(0.37))}])
        up = list(range(mn, mx + 1))
        return {"cfg": cfg, "abs": [{"code": agen.ABS_X, "min": mn, "max": mx}], "events": [a(agen.ABS_X, v) for v in up + up[::-1]],
                "g": {"mn": mn, "mx": mx, "dzc": True, "flip": True, "kind": "pb", "dzbits": dzbits, "cc": 20, "ccneg": 21},
                "tag": "K5-corpus"}


def run(run_):
    C06().run(run_)


def replay(run_, data):
    C06().replay(run_, data)
