"""C06: analog axis to CC / pitch-bend transfer function."""
from common import *
import devgen, agen
from agen import bits
from devprop import DevProp

KIND = {"cc_uni": "KCCuni", "cc_bidi": "KCCbidi", "pb": "KPB"}
DZS_QUICK = [0.0, 0.05, 0.1, 0.13, 0.25, 0.5, 0.91]
DZS_FULL = [k / 100.0 for k in range(0, 100)]
RANGES8 = [(0, 255), (-128, 127), (-127, 127)]
RANGES_BIG = [(-32768, 32767), (0, 65535), (0, 1023), (-1, 1), (0, 4095)]


def a(code, val, sub=""):
    return {"t": "a", "sub": sub, "code": code, "val": val}


def sweep_values(rng, mn, mx, dz):
    if mx - mn <= 300:
        up = list(range(mn, mx + 1))
        vals = up + up[::-1] + [rng.randint(mn, mx) for _ in range(40)]
    else:
        edges = {mn, mn + 1, -1, 0, 1, mx - 1, mx, (mn + mx) // 2, (mn + mx) // 2 + 1}
        for sgn in (1, -1):
            for base in (mx, abs(mn) if mn < 0 else mx):
                e = int(sgn * dz * base)
                edges |= {e - 1, e, e + 1}
        half = (mn + mx) / 2.0
        for frac in (dz, -dz):
            e = int(half + frac * (mx - mn) / 2.0)
            edges |= {e - 1, e, e + 1}
        pts = sorted(v for v in edges if mn <= v <= mx) + sorted(rng.randint(mn, mx) for _ in range(120))
        pts = sorted(set(pts))
        vals = pts + pts[::-1] + [rng.choice(pts) for _ in range(30)]
    return vals


class C06(DevProp):
    pid = "C06"
    imports = "Model.AnalogF Model.AnalogSpec Run.AnalogRun"
    case_type = "c06case"
    fail_term = "c06_failures k"
    mis_term = "c06_mismatch k"
    monitor_name = ("C06 monitor (every transmitted value within one step of the exact rational value; end stops and rest position exact; right "
                    "controller/side; monotone in the raw position over the whole sweep)")
    correspondence_name = "C06 view (bytes of every axis event, model vs implementation, bit-exact float layer)"
    rule = ("one device per configuration: range (8-bit signed/unsigned: EVERY raw value up and down; 16-bit, 10/12-bit and hat: edges, deadzone "
            "edges +-1, sampled) x deadzone value x deadzone source (specific, per-handler default, global default) x flip x deadzone_at_center "
            "(min = 0 only) x {unidirectional CC, bidirectional CC, pitch bend}; the up/down sweep plus random jumps exercises (previous, new) pairs of "
            "the duplicate suppression; non-trivial = distinct configurations with at least 10 transmitted axis events")

    def emit(self, case, res):
        g = case["g"]
        gl = "(Build_c06cfg %s%%Z %s%%Z %s %s %s %s %d %d)" % (cZ(g["mn"]), cZ(g["mx"]), cbool(g["dzc"]), cbool(g["flip"]), KIND[g["kind"]],
                                                            agen.fbits(g["dzbits"]), g["cc"], g["ccneg"])
        return "(Build_c06case %s %s)" % (gl, agen.emit_acase(case, res))

    def evaluate(self, cases, results, tag):
        import math
        evals = [("FAIL", "enum_fail (fun k => %s) 0 cases" % self.fail_term),
                 ("MIS", "enum_some (fun k => %s) 0 cases" % self.mis_term),
                 ("NT", "enum_true (fun k => Nat.leb 10 (c06_transmitted k)) 0 cases")]
        import devrun
        n = max(2, min(12, math.ceil(len(cases) / 8)))
        return devrun.eval_shards(cases, results, evals, imports=self.imports, shard=n, emit=self.emit, case_type=self.case_type, tag=tag)

    def make_case(self, rng, mn, mx, dz, src, flip, dzc, kind):
        sub = "" if src != "global" else "stick"
        an = agen.analog(agen.ABS_X, "cc" if kind != "pb" else "pitch_bend", sub=sub, cc=20, ccneg=21, off=rng.choice([0, 3]),
                         offneg=rng.choice([0, 5]), flip=flip, bidi=(kind == "cc_bidi"), dzc=dzc)
        other = bits(0.37)
        if src == "specific":
            dzl, dd = [{"sub": sub, "code": agen.ABS_X, "bits": str(bits(dz))}], [{"sub": "", "bits": str(other)}]
        elif src == "handler":
            dzl, dd = [{"sub": sub, "code": agen.ABS_Y, "bits": str(other)}], [{"sub": sub, "bits": str(bits(dz))}]
        else:
            dzl, dd = [], [{"sub": "", "bits": str(bits(dz))}]
        cfg = agen.base_cfg([an], dz=dzl, defdz=dd, channel=rng.choice([1, 16]))
        ev = [a(agen.ABS_X, v, sub) for v in sweep_values(rng, mn, mx, dz)]
        return {"cfg": cfg, "abs": [{"code": agen.ABS_X, "min": mn, "max": mx}], "events": ev,
                "g": {"mn": mn, "mx": mx, "dzc": dzc, "flip": flip, "kind": kind, "dzbits": bits(dz), "cc": 20, "ccneg": 21},
                "tag": "%s[%d,%d]" % (kind, mn, mx)}

    def gen(self, rng, tier):
        cases = []
        combos = []
        for (mn, mx) in RANGES8 + RANGES_BIG:
            for flip in (False, True):
                for dzc in ((False, True) if mn == 0 else (False,)):
                    for kind in ("cc_uni", "cc_bidi", "pb"):
                        combos.append((mn, mx, flip, dzc, kind))
        if tier == "quick":
            # every combination once with a rotating deadzone and source; the 8-bit ranges get the full sweep
            for i, (mn, mx, flip, dzc, kind) in enumerate(combos):
                dz = DZS_QUICK[i % len(DZS_QUICK)]
                src = ("specific", "handler", "global")[i % 3]
                cases.append(self.make_case(rng, mn, mx, dz, src, flip, dzc, kind))
        else:
            for (mn, mx, flip, dzc, kind) in combos:
                for j, dz in enumerate(DZS_FULL if mx - mn <= 300 else DZS_FULL[::5]):
                    cases.append(self.make_case(rng, mn, mx, dz, ("specific", "handler", "global")[j % 3], flip, dzc, kind))
        return cases

    def shrink(self, binary, case, budget=12):
        return DevProp.shrink(self, binary, case, budget=budget)

    def report_case(self, run_, binary, case, what, steps=None, shrink=True, no_input=False):
        # steps index the axis events; keep the configuration in the replay
        DevProp.report_case(self, run_, binary, case, what + " [configuration: %s]" % json.dumps(case.get("g")), steps=None, shrink=False, no_input=no_input)


def run(run_):
    C06().run(run_)


def replay(run_, data):
    C06().replay(run_, data)
