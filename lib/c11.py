"""C11: note names <-> numbers."""
import random
from common import *

ALPHABET = "abcdefghijklmnopqrstuvwxyzABCDEFGHIJKLMNOPQRSTUVWXYZ0123456789#- "


def run(run_):
    tier, seed = run_.tier, run_.seed
    run_.proof_obligations()
    binary, err = go_build("config")
    if binary is None:
        run_.violation("harness for package config does not build against /repo: " + err,
                       {"correspondence": "C11 harness build", "error": err}, no_input=True)
        return
    maxlen = 3 if tier == "quick" else 4
    inp = {"alphabet": ALPHABET, "maxlen": maxlen, "len4_count": 300000 if tier == "quick" else 0,
           "long_count": 50000 if tier == "quick" else 400000, "seed": seed, "code_points": True}
    out, err = run_harness(binary, "c11", inp, timeout=1200)
    if out is None:
        run_.violation("C11 harness failed: " + err, {"correspondence": "C11 harness run", "error": err}, no_input=True)
        return
    acc = out["accepted"]
    body = "From Coq Require Import List NArith ZArith.\nFrom HIDI Require Import Model.Notes Run.C11Run.\nImport ListNotations.\nOpen Scope N_scope.\n"
    body += "Definition acc : list (list N * N) := %s.\n" % clist(["(%s, %s)" % (cbytes(a["s"]), cN(a["n"])) for a in acc])
    body += "Definition pitch : list (list N) := %s.\n" % clist([cbytes(p) for p in out["pitch"]])
    body += "Definition oct : list Z := %s%%Z.\n" % clist([cZ(o) for o in out["octave"]])
    body += "Definition WRONG := Eval vm_compute in c11_wrongly_accepted acc.\nPrint WRONG.\n"
    body += "Definition MISSING := Eval vm_compute in c11_missing %d acc.\nPrint MISSING.\n" % maxlen
    body += "Definition NAMES := Eval vm_compute in c11_names_wrong 0 pitch oct.\nPrint NAMES.\n"
    res = extract_defs(coq_eval("c11_cases", body))
    for k in ("WRONG", "MISSING", "NAMES"):
        if k not in res or isinstance(res[k], tuple):
            raise CheckError("cannot read %s from coqc output: %r" % (k, res.get(k)))
    def s_of(bs):
        return bytes(bs).decode("latin-1")
    for (s, n) in res["WRONG"]:
        run_.violation("StringToNote(%r) = %d, but %r is not that note name (specification: %s)" % (s_of(s), n, s_of(s), "rejected or another value"),
                       {"call": "config.StringToNote", "input_bytes": s, "input": s_of(s), "implementation": n,
                        "monitor": "C11_spec/C11_table: accepted strings are exactly the 280-entry table"})
    for (s, n) in res["MISSING"]:
        run_.violation("StringToNote(%r) is rejected (or has another value) but it is the name of note %d" % (s_of(s), n),
                       {"call": "config.StringToNote", "input_bytes": s, "input": s_of(s), "expected": n})
    for n in res["NAMES"]:
        run_.violation("NoteToPitch/NoteToOctave(%d) = %r/%r differs from the model's name" % (n, out["pitch"][n] if n < len(out["pitch"]) else None, out["octave"][n] if n < len(out["octave"]) else None),
                       {"call": "config.NoteToPitch/NoteToOctave", "input": n})
    for s in (out.get("unstable") or [])[:3]:
        run_.violation("StringToNote(%r) gives a different answer when evaluated again after the other strings of the sweep: the answer may depend on the "
                       "string only" % s_of(s), {"call": "config.StringToNote (twice, other strings in between)", "input_bytes": s, "input": s_of(s)})
    cold = [n for n in range(128) if n < len(out.get("octave_cold") or []) and n < len(out["octave"]) and
            (out["octave_cold"][n] != out["octave"][n] or (out.get("pitch_cold") or out["pitch"])[n] != out["pitch"][n])]
    for n in cold[:3]:
        run_.violation("NoteToOctave/NoteToPitch(%d) = %r/%r when asked first in a fresh process (octaves before pitches, before any other call of the "
                       "package), but %r/%r after the sweep: the name of a number may depend on the number only (%d numbers differ)" % (
                           n, out["octave_cold"][n], s_of(out["pitch_cold"][n]), out["octave"][n], s_of(out["pitch"][n]), len(cold)),
                       {"call": "config.NoteToOctave / NoteToPitch as the first calls of a fresh process", "input": n,
                        "implementation_first": [out["octave_cold"][n], out["pitch_cold"][n]], "implementation_later": [out["octave"][n], out["pitch"][n]]})
    for c in (out.get("concurrent") or [])[:3]:
        fmt = lambda v: "rejected" if v == -1 else ("a panic" if v == -2 else str(v))
        run_.violation("StringToNote(%r) = %s while 15 other goroutines convert other strings, but %s when called alone: the answer may depend on the "
                       "string only (%d differing answers in %d concurrent calls)" % (s_of(c["s"]), fmt(c["got"]), fmt(c["want"]), len(out["concurrent"]),
                                                                                      out.get("concurrent_calls", 0)),
                       {"call": "config.StringToNote from 16 goroutines at once (schedule-dependent: the replay repeats the whole concurrent pass)",
                        "input_bytes": c["s"], "input": s_of(c["s"]), "implementation_concurrent": c["got"], "implementation_alone": c["want"]})
    for p in out["panics"]:
        run_.violation("StringToNote panicked on %s" % p, {"call": "config.StringToNote", "input": p})
    run_.coverage.update({
        "evaluations": out["tried"],
        "distinct_nontrivial": len({tuple(a["s"]) for a in acc}),
        "rule": "every string of length <= %d over the %d-symbol alphabet [a-zA-Z0-9#- ] (exhaustive), every byte string of length <= 2 over all 256 byte "
                "values and every 3-byte string with one arbitrary byte and two alphabet symbols (exhaustive), every Unicode scalar value in each position of a name (8 shapes x 1.1 M, exhaustive), plus sampled longer/arbitrary-byte strings; "
                "non-trivial = distinct strings the implementation accepted (each compared with the proved 280-entry table), "
                "all others must be rejected; all 128 numbers through NoteToPitch/NoteToOctave" % (maxlen, len(ALPHABET)),
        "samples": [{"input": s_of(a["s"]), "value": a["n"]} for a in acc[:6]] + [{"input": "H1", "expected": "rejected"}],
        "exhaustive": True,
        "exhaustive_domain": "strings of length <= %d over alphabet %r; numbers 0..127" % (maxlen, ALPHABET),
        "accepted_by_implementation": len(acc),
        "concurrent_calls_compared_with_sequential_answers": out.get("concurrent_calls", 0),
        "correspondence_obligations": 3,
    })
    run_.assumptions += ["Go regexp / strconv.Atoi / strings.ToUpper behave as modelled on inputs outside the swept space (validated on the swept space)"]
