"""C03: collision modes."""
import itertools
from common import *
import devgen
from devprop import DevProp


def k(code, val, sub=""):
    return {"t": "k", "sub": sub, "code": code, "val": val}


def episodes(n):
    """all interleavings of n keys each pressed once then released once"""
    res = []

    def rec(seq, pressed, released):
        if len(seq) == 2 * n:
            res.append(list(seq))
            return
        for i in range(n):
            if i not in pressed:
                rec(seq + [(i, 1)], pressed | {i}, released)
            elif i not in released:
                rec(seq + [(i, 0)], pressed, released | {i})
    rec([], frozenset(), frozenset())
    return res


class C03(DevProp):
    pid = "C03"
    fail_term = "c03_failures k"
    mis_term = "notes_mismatch k"
    nontrivial_term = "c03_has_collision k"
    soak = True
    monitor_name = "C03 monitor (messages of every press/release equal the collision rule applied to the number of holders counted from the history)"
    correspondence_name = "C03 view (messages of every step that is not a panic press)"
    rule = ("every press/release interleaving of 2, 3 (and 4: sampled in quick, exhaustive in thorough) keys resolving to one (channel, pitch) - "
            "directly, through channel offsets, or through a transposition between presses - in each of the 4 modes, mixed with a key on another "
            "pitch; random longer histories biased to shared pitches; non-trivial = distinct cases in which some press found the pitch already held")

    def perturb(self, case, res):
        # falsify: duplicate the first Note On
        for st in res["steps"]:
            for m in st["midi"]:
                if m[0] & 0xF0 == 0x90 and len(st["midi"]) < 100:
                    st["midi"].append(list(m))
                    return res
        return None

    def gen(self, rng, tier):
        cases = []
        codes = [30, 31, 32, 33]
        SHIFT = [0, 1, -1, 2]
        CHOFF = [0, 15, 9, 4]
        TARGET = 1      # the channel index on which the keys of "channel-distinct" meet: base = (TARGET - offset) mod 16 = 1, 2, 8, 13
        for cmode in devgen.CMODES:
            for variant in ("direct", "zero", "offset", "transpose", "transpose-distinct", "channel-distinct", "stale-release"):
                midi = []
                for i, c in enumerate(codes):
                    if variant in ("direct", "stale-release"):
                        midi.append({"sub": "", "code": c, "note": 60, "off": 0})
                    elif variant == "zero":   # note 0 on channel index 0: the pair whose encoding is a zero value
                        midi.append({"sub": "", "code": c, "note": 0, "off": 0})
                    elif variant == "offset":
                        midi.append({"sub": "", "code": c, "note": 60, "off": 16 * 0 + (3 if i % 2 else 3)})
                    elif variant == "transpose":
                        midi.append({"sub": "", "code": c, "note": 60 - 12 * (i % 2), "off": 0})
                    elif variant == "channel-distinct":   # same note, distinct channel offsets: the keys meet on one channel only after
                        # the base channel was moved between the presses, some through the 15 -> 0 wrap of base + offset and some without
                        midi.append({"sub": "", "code": c, "note": 60, "off": CHOFF[i]})
                    else:   # no two keys share a note statically: collisions exist only through transposition between presses
                        midi.append({"sub": "", "code": c, "note": 60 - 12 * SHIFT[i], "off": 0})
                midi.append({"sub": "", "code": 40, "note": 61, "off": 0})
                maps = [{"name": "M0", "midi": midi, "analog": [], "dz": [], "defdz": [], "subs": []}]
                if variant == "stale-release":
                    # a second mapping that lacks the first two keys: after a switch with everything held their releases go through the
                    # "key unmapped after a mapping change" path, the others through the ordinary one; same rule: one Note Off, at the last release
                    maps.append({"name": "M1", "midi": [kk for kk in midi if kk["code"] not in codes[:2]], "analog": [], "dz": [], "defdz": [], "subs": []})
                cfg = {"mappings": maps,
                       "actions": [{"code": 59, "action": "octave_up"}, {"code": 60, "action": "octave_down"},
                                   {"code": 61, "action": "channel_up"}, {"code": 62, "action": "channel_down"}, {"code": 65, "action": "mapping_up"},
                                   {"code": 66, "action": "mapping_down"}],
                       "exitseq": [], "cmode": cmode, "octave": 0, "semitone": 0, "channel": 1, "mapping": 0, "velocity": 64}
                for n in (2, 3, 4):
                    eps = episodes(n)
                    if n == 4 and tier == "quick":
                        eps = rng.sample(eps, 60)
                    for ep in eps:
                        ev = []
                        octave = 0
                        base = 0
                        pressed = 0
                        for (i, v) in ep:
                            if variant == "stale-release" and v == 1:
                                pressed += 1
                            if variant == "channel-distinct" and v == 1:
                                want = (TARGET - CHOFF[i]) % 16
                                while base < want:
                                    ev += [k(61, 1), k(61, 0)]
                                    base += 1
                                while base > want:
                                    ev += [k(62, 1), k(62, 0)]
                                    base -= 1
                            if variant.startswith("transpose") and v == 1:
                                want = i % 2 if variant == "transpose" else SHIFT[i]   # key i sounds 60 at octave `want`
                                while octave < want:
                                    ev += [k(59, 1), k(59, 0)]
                                    octave += 1
                                while octave > want:
                                    ev += [k(60, 1), k(60, 0)]
                                    octave -= 1
                            ev.append(k(codes[i], v))
                            if variant == "stale-release" and v == 1 and pressed == 2:
                                ev += [k(65, 1), k(65, 0)]          # switch with two holders down (further presses happen in M1 if still mapped)
                            if len(ev) % 5 == 0:
                                ev += [k(40, 1), k(40, 0)]
                        cases.append({"cfg": cfg, "abs": [], "events": ev, "tag": "episode-%d-%s" % (n, variant)})
        for cmode in devgen.CMODES:
            for n_up in (6, 11):
                midi = [{"sub": "", "code": c, "note": 60, "off": 0} for c in codes[:3]]
                cfg = {"mappings": [{"name": "M0", "midi": midi, "analog": [], "dz": [], "defdz": [], "subs": []}],
                       "actions": [{"code": 59, "action": "octave_up"}, {"code": 60, "action": "octave_down"}],
                       "exitseq": [], "cmode": cmode, "octave": 0, "semitone": 0, "channel": 1, "mapping": 0, "velocity": 64}
                A, B, C = codes[:3]
                up = [k(59, 1), k(59, 0)] * n_up
                down = [k(60, 1), k(60, 0)] * n_up
                for tail in ([k(B, 0), k(C, 1), k(C, 0)], [k(C, 1), k(B, 0), k(C, 0)], [k(B, 0)]):
                    ev = [k(A, 1), k(B, 1), k(A, 0)] + up + [k(A, 1), k(A, 0)] + down + tail + [k(C, 1), k(C, 0), k(A, 1), k(A, 0)]
                    cases.append({"cfg": cfg, "abs": [], "events": ev, "tag": "out-of-range-repress"})
        for i in range(200 if tier == "quick" else 6000):
            cases.append(self.soak_case(rng))
        return cases

    def soak_case(self, rng):
        """one case of the 'random' stream (also the stream of the extracted-model soak)"""
        cfg = devgen.gen_config(rng, with_exit=False, share=True)
        h = devgen.gen_history(rng, cfg, rng.randint(20, 70), p_action=0.2, max_down=6)
        return {"cfg": cfg, "abs": [], "events": h + devgen.release_all(h), "tag": "random"}


def run(run_):
    C03().run(run_)


def replay(run_, data):
    C03().replay(run_, data)
