"""C17: LED feedback shows the device's actual state.

The real LED loop (handleOpenrgb) of real Devices runs against a fake OpenRGB server inside the harness binary (mode "led",
mount namespace providing /sys/class/hidraw); the frame computed after every step is compared, as colour classes, with
Led.frame of the Coq model, and the property's own wording (Led.spec_colour / spec_action_colour, clearing rules, final red
frame) is evaluated on the observed frames inside coqc."""
import copy, random
from common import *
import devgen, devrun

KEY_TO_LED = {
    1: 'Key: Escape', 2: 'Key: 1', 3: 'Key: 2', 4: 'Key: 3', 5: 'Key: 4', 6: 'Key: 5', 7: 'Key: 6', 8: 'Key: 7',
    9: 'Key: 8', 10: 'Key: 9', 11: 'Key: 0', 12: 'Key: -', 13: 'Key: =', 14: 'Key: Backspace', 15: 'Key: Tab',
    16: 'Key: Q', 17: 'Key: W', 18: 'Key: E', 19: 'Key: R', 20: 'Key: T', 21: 'Key: Y', 22: 'Key: U', 23: 'Key: I',
    24: 'Key: O', 25: 'Key: P', 26: 'Key: [', 27: 'Key: ]', 28: 'Key: Enter', 29: 'Key: Left Control', 30: 'Key: A',
    31: 'Key: S', 32: 'Key: D', 33: 'Key: F', 34: 'Key: G', 35: 'Key: H', 36: 'Key: J', 37: 'Key: K', 38: 'Key: L',
    39: 'Key: ;', 40: "Key: '", 41: 'Key: `', 42: 'Key: Left Shift', 43: 'Key: \\ (ANSI)', 44: 'Key: Z', 45: 'Key: X',
    46: 'Key: C', 47: 'Key: V', 48: 'Key: B', 49: 'Key: N', 50: 'Key: M', 51: 'Key: ,', 52: 'Key: .', 53: 'Key: /',
    54: 'Key: Right Shift', 55: 'Key: Number Pad *', 56: 'Key: Left Alt', 57: 'Key: Space', 58: 'Key: Caps Lock',
    59: 'Key: F1', 60: 'Key: F2', 61: 'Key: F3', 62: 'Key: F4', 63: 'Key: F5', 64: 'Key: F6', 65: 'Key: F7',
    66: 'Key: F8', 67: 'Key: F9', 68: 'Key: F10', 69: 'Key: Num Lock', 70: 'Key: Scroll Lock',
    71: 'Key: Number Pad 7', 72: 'Key: Number Pad 8', 73: 'Key: Number Pad 9', 74: 'Key: Number Pad -',
    75: 'Key: Number Pad 4', 76: 'Key: Number Pad 5', 77: 'Key: Number Pad 6', 78: 'Key: Number Pad +',
    79: 'Key: Number Pad 1', 80: 'Key: Number Pad 2', 81: 'Key: Number Pad 3', 82: 'Key: Number Pad 0',
    83: 'Key: Number Pad .', 87: 'Key: F11', 88: 'Key: F12', 96: 'Key: Number Pad Enter', 97: 'Key: Right Control',
    98: 'Key: Number Pad /', 99: 'Key: Print Screen', 100: 'Key: Right Alt', 102: 'Key: Home', 103: 'Key: Up Arrow',
    104: 'Key: Page Up', 105: 'Key: Left Arrow', 106: 'Key: Right Arrow', 107: 'Key: End', 108: 'Key: Down Arrow',
    109: 'Key: Page Down', 110: 'Key: Insert', 111: 'Key: Delete', 113: 'Key: Media Mute', 119: 'Key: Pause/Break',
    125: 'Key: Left Windows', 126: 'Key: Right Windows', 127: 'Key: Menu', 163: 'Key: Media Next',
    164: 'Key: Media Play/Pause', 165: 'Key: Media Previous',
}
LED_TO_KEY = {v: k for k, v in KEY_TO_LED.items()}
UNKNOWN_LEDS = ["Key: Fn", "Logo", "Underglow 1", "Underglow 2", "Key: \\ (ISO)", "Key: #", "RGB Strip 1", "key: q", "Key:  W", ""]

STATE_ACTIONS = ["panic", "octave_up", "octave_down", "semitone_up", "semitone_down", "mapping_up", "mapping_down",
                 "channel_up", "channel_down", "multinote"]

MOUNT_NS = ["unshare", "-m", "sh", "-c",
            'mount -t tmpfs tmpfs /sys/class/hidraw && mkdir -p /sys/class/hidraw/hidraw0/device/input/input7/event3 && exec "$0" "$@"']

# ---------------------------------------------------------------------------------------------- colour classes
CHAN_RGB = [(255, 127, 0), (191, 255, 0), (0, 255, 0), (0, 255, 191), (0, 127, 255), (63, 0, 255), (255, 0, 255), (255, 0, 63)]
FIXED = [("White1", (27, 27, 27)), ("White2", (100, 100, 100)), ("White3", (255, 255, 255)), ("Red", (255, 0, 0)), ("Off", (0, 0, 0))]
FIXED += [("(Chan %d)" % i, c) for i, c in enumerate(CHAN_RGB)]
FIXED += [("(ChanDim %d)" % i, (c[0] // 3, c[1] // 3, c[2] // 3)) for i, c in enumerate(CHAN_RGB)]
CFG_CLASSES = ["ColWhite", "ColBlack", "ColC", "Unavailable", None, "Active", "ActiveExternal"]   # order of cfg["colors"]
MIN_DIST = 60     # between any two classes of a case
MAX_DEV = 20      # accepted deviation of a received triple from its class (stamp nibble 0-15, HSV round trip 1-2)


def dist(a, b):
    return max(abs(a[0] - b[0]), abs(a[1] - b[1]), abs(a[2] - b[2]))


def rgb(v):
    return ((v >> 16) & 255, (v >> 8) & 255, v & 255)


def gen_colours(rng):
    """Seven configured colours (white black c unavailable other active active_external), far from each other and from the
    fixed ones; the unavailable colour keeps the low nibble of blue free for the harness' generation stamp."""
    chosen = [c for _, c in FIXED]
    out = []
    for i in range(7):
        while True:
            c = (rng.randrange(256), rng.randrange(256), rng.randrange(256))
            if i == 3:
                c = (c[0], c[1], c[2] & 0xf0)
            if all(dist(c, d) >= MIN_DIST + 16 for d in chosen):
                break
        chosen.append(c)
        out.append(c[0] << 16 | c[1] << 8 | c[2])
    return out


def classify(cfg, v):
    """RGB value -> Coq colour class (None: no class within MAX_DEV)."""
    c = rgb(v)
    best, bd = None, 999
    for name, ref in FIXED:
        d = dist(c, ref)
        if d < bd:
            best, bd = name, d
    for i, name in enumerate(CFG_CLASSES):
        if name is None:
            continue
        d = dist(c, rgb(cfg["colors"][i]))
        if d < bd:
            best, bd = name, d
    return best if bd <= MAX_DEV else None


# ---------------------------------------------------------------------------------------------- generator
def k(code, val, sub=""):
    return {"t": "k", "sub": sub, "code": code, "val": val}


def tap(code):
    return [k(code, 1), k(code, 0)]


def m(*bs):
    return {"t": "m", "bytes": list(bs)}


def gen_layout(rng, cfg, need_action_leds=True):
    note_codes = sorted({kk["code"] for mp in cfg["mappings"] for kk in mp["midi"] if kk["sub"] == ""})
    act_codes = [a["code"] for a in cfg["actions"] if a["action"] in STATE_ACTIONS]
    names = [KEY_TO_LED[c] for c in act_codes] if need_action_leds else [KEY_TO_LED[c] for c in act_codes if rng.random() < 0.6]
    names += [KEY_TO_LED[c] for c in note_codes if rng.random() < 0.85]
    others = [n for c, n in KEY_TO_LED.items() if c not in note_codes and c not in act_codes]
    names += rng.sample(others, rng.randint(0, 8))
    names += rng.sample(UNKNOWN_LEDS, rng.randint(0, 3))
    names = list(dict.fromkeys(names))      # one LED per key name
    rng.shuffle(names)
    return names


def gen_cfg(rng, actions=None, n_maps=None):
    acts = list(STATE_ACTIONS) + [a for a in ("cc_learning", "mapping", "channel") if rng.random() < 0.3]
    cfg = devgen.gen_config(rng, n_maps=n_maps, n_keys=rng.randint(4, 10), actions=acts if actions is None else actions,
                            with_exit=rng.random() < 0.25, defaults=False,
                            double_bound=False)   # a key that is both an action key and a note key has two colours to show: outside C17's statement
    cfg["octave"] = rng.choice([0, 0, 0, 1, -1, 2, -3, 4])
    cfg["semitone"] = rng.choice([0, 0, 0, 1, -1, 5, -7])
    cfg["channel"] = rng.choice([1, 1, 1, 2, 9, 10, 16])
    cfg["mapping"] = rng.randrange(len(cfg["mappings"]))
    if rng.random() < 0.3:
        rng.choice(cfg["mappings"])["name"] = "Control"
    cfg["colors"] = gen_colours(rng)
    return cfg


def sim_offset(cfg, events):
    """Approximate (octave, semitone, channel, mapping) after the events: used only to aim MIDI-input notes at keys."""
    acts = {a["code"]: a["action"] for a in cfg["actions"]}
    o, s, ch, mp = cfg["octave"], cfg["semitone"], cfg["channel"] - 1, cfg["mapping"]
    for e in events:
        if e["t"] == "k" and e["val"] == 1:
            a = acts.get(e["code"])
            o += (a == "octave_up") - (a == "octave_down")
            s += (a == "semitone_up") - (a == "semitone_down")
            ch = min(15, max(0, ch + (a == "channel_up") - (a == "channel_down")))
            mp = min(len(cfg["mappings"]) - 1, max(0, mp + (a == "mapping_up") - (a == "mapping_down")))
    return o, s, ch, mp


def gen_history(rng, cfg, n):
    acts = {a["action"]: a["code"] for a in cfg["actions"]}
    act_codes = set(acts.values())
    note_codes = sorted({kk["code"] for mp in cfg["mappings"] for kk in mp["midi"]})
    subs = {}
    for mp in cfg["mappings"]:
        for kk in mp["midi"]:
            subs.setdefault(kk["code"], []).append(kk["sub"])
    ev, down, ext_on = [], {}, []
    exitset = set(cfg["exitseq"])
    while len(ev) < n:
        r = rng.random()
        o, s, ch, mp = sim_offset(cfg, ev)
        if r < 0.30:       # MIDI input
            keys = [kk for kk in cfg["mappings"][mp]["midi"] if kk["sub"] == ""]
            if keys and rng.random() < 0.8:
                note = rng.choice(keys)["note"] + 12 * o + s
            else:
                note = rng.randint(0, 127)
            note = min(127, max(0, note))
            c2 = ch if rng.random() < 0.45 else rng.choice([0, 1, 7, 8, 15, rng.randrange(16)])
            q = rng.random()
            if ext_on and q < 0.40:
                n2, c3 = rng.choice(ext_on)
                kind = rng.random()
                if kind < 0.45:
                    ev.append(m(0x80 | c3, n2, rng.choice([0, 64])))
                elif kind < 0.9:
                    ev.append(m(0x90 | c3, n2, 0))
                else:
                    ev.append(m(0x80 | c3, n2))          # two-byte Note Off
                ext_on.remove((n2, c3))
            elif q < 0.88:
                ev.append(m(0x90 | c2, note, rng.choice([1, 64, 127])))
                if (note, c2) not in ext_on:
                    ext_on.append((note, c2))
            elif q < 0.94:
                # a release of a note that is NOT sounding (a duplicate Note Off, a sender that releases every note on stop, a note
                # pressed before HIDI started): it clears nothing, and everything that is sounding stays highlighted
                if (note, c2) in ext_on:
                    note = (note + 1) % 128
                if (note, c2) not in ext_on:
                    ev.append(rng.choice([m(0x80 | c2, note, 0), m(0x90 | c2, note, 0), m(0x80 | c2, note, 64)]))
            else:
                ev.append(rng.choice([m(0xB0 | c2, 123, 0), m(0xF8), m(0xA0 | c2, note, 50), m(0xE0 | c2, 0, 64), m(0xC0 | c2, 5),
                                      m(0xFE), m()]))
            continue
        if r < 0.36 and "panic" in acts and acts["panic"] not in down:
            if not (exitset and exitset <= (set(down) | {acts["panic"]})) or rng.random() < 0.5:
                ev += tap(acts["panic"])
                if not (exitset and exitset <= (set(down) | {acts["panic"]})):
                    ext_on = []
                continue
        release = down and (rng.random() < 0.4 or len(down) >= 5)
        if release:
            code = rng.choice(sorted(down))
            ev.append(k(code, 0, down.pop(code)))
            continue
        if rng.random() < 0.35:
            cand = [c for c in act_codes if c not in down and c != acts.get("panic")]
            if not cand:
                continue
            code = rng.choice(cand)
            # keep the transposition inside the theorem's range (|offset| <= 128); K4 has its own corpus stream
            a = {v: kk for kk, v in acts.items()}[code]
            no, ns = o + (a == "octave_up") - (a == "octave_down"), s + (a == "semitone_up") - (a == "semitone_down")
            if abs(12 * no + ns) > 120:
                continue
            sub = ""
        else:
            cand = [c for c in note_codes + devgen.OTHER_CODES if c not in down]
            if not cand:
                continue
            code = rng.choice(cand)
            sub = rng.choice(subs.get(code, [""]))
        if exitset and exitset <= (set(down) | {code}) and rng.random() < 0.7:
            continue
        down[code] = sub
        ev.append(k(code, 1, sub))
    return ev


def corpus(rng):
    cases = []
    cols = gen_colours(random.Random(1))
    keys = [{"sub": "", "code": 16 + i, "note": n, "off": 0} for i, n in enumerate([60, 61, 62, 64, 72, 124, 3])]
    def cfg_with(actions, **kw):
        c = {"mappings": [{"name": "M0", "midi": copy.deepcopy(keys), "analog": [], "dz": [], "defdz": [], "subs": []},
                          {"name": "Control", "midi": copy.deepcopy(keys[:3]), "analog": [], "dz": [], "defdz": [], "subs": []}],
             "actions": [{"code": 59 + i, "action": a} for i, a in enumerate(actions)], "exitseq": [], "cmode": "off",
             "octave": 0, "semitone": 0, "channel": 1, "mapping": 0, "velocity": 64, "colors": cols}
        c.update(kw)
        return c
    full = cfg_with(STATE_ACTIONS)
    allnames = [KEY_TO_LED[16 + i] for i in range(7)] + [KEY_TO_LED[59 + i] for i in range(10)] + ["Logo"]
    # D18: velocity-0 Note On clears the highlight (current channel and another channel), Note Off clears, panic clears
    ev = [m(0x90, 60, 100), m(0x93, 62, 100), m(0x90, 60, 0), m(0x93, 62, 0), m(0x90, 61, 1), m(0x80, 61, 0),
          m(0x95, 64, 90), m(0x90, 64, 90)] + tap(59) + [m(0x90, 72, 5), m(0x90, 72, 0)]
    cases.append({"cfg": full, "abs": [], "events": ev, "leds": allnames, "tag": "corpus-D18"})
    # stray releases: a Note Off / velocity-0 Note On for a pitch that is not sounding (also twice), then ordinary releases of all
    # sounding notes but one: the one left stays highlighted
    ev = [m(0x90, 60, 100), m(0x90, 62, 100), m(0x80, 64, 0), m(0x80, 62, 0), m(0x90, 61, 0), m(0x93, 64, 80), m(0x93, 72, 80), m(0x83, 61, 0),
          m(0x83, 61, 0), m(0x93, 62, 0), m(0x83, 72, 0), m(0x90, 60, 0), m(0x93, 64, 0), m(0x80, 60, 0), m(0x90, 61, 70), m(0x80, 61, 0), m(0x80, 61, 0),
          m(0x90, 62, 70)]
    cases.append({"cfg": full, "abs": [], "events": ev, "leds": allnames, "tag": "corpus-stray-release"})
    # LED names the implementation's table does not know (the ISO keys "Key: #" and "Key: \\ (ISO)", logo, strips, misspellings) next to the LEDs
    # of the keys that send the neighbouring codes (KEY_BACKSLASH): an unknown LED stays 'unavailable' whatever the keys do, and it never
    # takes a known LED's place - with the unknown names after and before the known ones
    bk = [{"sub": "", "code": 43, "note": 57, "off": 0}, {"sub": "", "code": 86, "note": 59, "off": 0}, {"sub": "", "code": 16, "note": 60, "off": 0}]
    cfgb = cfg_with(STATE_ACTIONS)
    cfgb["mappings"] = [{"name": "M0", "midi": bk, "analog": [], "dz": [], "defdz": [], "subs": []}]
    known = [KEY_TO_LED[43], KEY_TO_LED[16]] + [KEY_TO_LED[59 + i] for i in range(10)]
    evb = [k(43, 1), m(0x90, 57, 90), k(43, 0), m(0x93, 57, 90), m(0x90, 57, 0), k(86, 1), k(86, 0), m(0x83, 57, 0), k(16, 1), k(43, 1), k(16, 0), k(43, 0)]
    cases.append({"cfg": cfgb, "abs": [], "events": evb, "leds": known + UNKNOWN_LEDS[:-1], "tag": "corpus-unknown-led-names"})
    cases.append({"cfg": cfgb, "abs": [], "events": evb, "leds": UNKNOWN_LEDS[:-1] + known, "tag": "corpus-unknown-led-names"})
    cases.append({"cfg": cfgb, "abs": [], "events": evb, "leds": ["Key: #", KEY_TO_LED[43], "Key: \\ (ISO)"] + known[1:], "tag": "corpus-unknown-led-names"})
    # held keys, transposition, mapping walk into "Control", channel walk to both ends
    ev = [k(16, 1), k(60, 1), k(60, 0), k(17, 1), k(16, 0)] + tap(61) * 2 + tap(62) * 3 + [k(18, 1)] + tap(64) + [k(18, 0), k(17, 0)] \
        + tap(65) + tap(67) * 16 + tap(66) * 16 + tap(68) + [k(59, 1), k(59, 0)]
    cases.append({"cfg": full, "abs": [], "events": ev, "leds": list(reversed(allnames)), "tag": "corpus-walk"})
    # K3: no multinote key (as in the factory keyboard configuration): LED 0 (here the panic key's) is overwritten with white1
    nomulti = cfg_with(STATE_ACTIONS[:-1])
    names = [KEY_TO_LED[59 + i] for i in range(9)] + [KEY_TO_LED[16], KEY_TO_LED[17]]
    cases.append({"cfg": nomulti, "abs": [], "events": tap(60) + [m(0x90, 61, 64)] + tap(61), "leds": names, "tag": "corpus-K3"})
    # K3: an action key without LED (semitone_up, F4): LED 0 belongs to a note key that is out of range after octave_up
    names = [KEY_TO_LED[21]] + [KEY_TO_LED[16 + i] for i in range(4)] + [KEY_TO_LED[59 + i] for i in (0, 1, 2, 4, 5, 6, 7, 8, 9)]
    cases.append({"cfg": full, "abs": [], "events": tap(60) + tap(65) + tap(66) + [k(16, 1), k(16, 0)], "leds": names, "tag": "corpus-K3"})
    # K4: |offset| >= 129: a key lights up for a pitch it cannot sound
    hi = cfg_with(STATE_ACTIONS, octave=11)
    cases.append({"cfg": hi, "abs": [], "events": [m(0x90, 0, 64), m(0x92, 0, 64), m(0x90, 0, 0)], "leds": allnames, "tag": "corpus-K4"})
    lo = cfg_with(STATE_ACTIONS, octave=-11)
    cases.append({"cfg": lo, "abs": [], "events": [m(0x90, 127, 64), m(0x80, 127, 0)], "leds": allnames, "tag": "corpus-K4"})
    return cases


def gen(rng, tier):
    cases = corpus(rng)
    n_cfg, per_cfg, steps = (50, 3, (18, 34)) if tier == "quick" else (400, 5, (20, 60))
    for ci in range(n_cfg):
        cfg = gen_cfg(rng)
        for _ in range(per_cfg):
            cases.append({"cfg": cfg, "abs": [], "events": gen_history(rng, cfg, rng.randint(*steps)),
                          "leds": gen_layout(rng, cfg), "tag": "random"})
    # what else the OpenRGB server lists: in 4 cases of 10 other controllers come BEFORE the keyboard (mainboard, DRAM, GPU, mouse, a keyboard
    # that is not a hidraw device) - the frames must still reach the keyboard's controller index
    OTHERS = [{"type": 0, "name": "Fake Mainboard", "location": "I2C: /dev/i2c-0, address 0x27", "leds": 5},
              {"type": 1, "name": "Fake DRAM", "location": "I2C: /dev/i2c-1, address 0x58", "leds": 8},
              {"type": 2, "name": "Fake GPU", "location": "PCI: 0000:01:00.0", "leds": 1},
              {"type": 6, "name": "Fake Mouse", "location": "HID: /dev/hidraw3", "leds": 2},
              {"type": 5, "name": "Fake Bluetooth Keyboard", "location": "BT: aa:bb:cc:dd:ee:ff", "leds": 30},
              {"type": 4, "name": "Fake LED Strip", "location": "COM3", "leds": 0}]
    for i, c in enumerate(cases):
        if i % 5 in (1, 3):
            c["others"] = rng.sample(OTHERS, rng.randint(1, 3))
    return cases


# ---------------------------------------------------------------------------------------------- implementation + Coq
def run_impl(binary, cases, parallel=12):
    inp = {"cases": [{"cfg": c["cfg"], "abs": c["abs"], "events": c["events"], "leds": c["leds"], "others": c.get("others", [])} for c in cases],
           "parallel": parallel}
    out, err = run_harness(binary, "led", inp, timeout=900, prefix=MOUNT_NS)
    if out is None:
        return None, None, err
    if not out.get("hidraw_ok"):
        return None, None, "the mount namespace does not provide /sys/class/hidraw/hidraw0/device/input/input7/event3: %s" % out.get("hidraw_err")
    return out["results"], {int(kk): v for kk, v in out["key_to_led"].items()}, None


def usable(res):
    return not (res.get("panic") or res.get("hang") or res.get("err") or res.get("first") is None or res.get("final") is None
                or any(s.get("frame") is None for s in res["steps"]))


def emit_frame(cfg, fr, bad):
    out = []
    for v in fr:
        cl = classify(cfg, v)
        if cl is None:
            bad.append(v)
            cl = "Off"
        out.append(cl)
    return clist(out)


def ctl_id(cfg):
    for i, mp in enumerate(cfg["mappings"]):
        if mp["name"] == "Control":
            return i
    return 999


def emit_lcase(case, res):
    cfg = case["cfg"]
    sid = devgen.sub_ids(cfg)
    names = devgen.map_name_ids(cfg)
    evs = []
    for e in case["events"]:
        if e["t"] == "m":
            evs.append("(LMidi %s)" % cbytes(e["bytes"]))
        else:
            evs.append("(LDev %s)" % devgen.emit_key_event(cfg, e, sid))
    bad = []
    obs = clist(["(Build_lobs %s %s)" % (devgen.emit_ostep(cfg, st, names), emit_frame(cfg, st["frame"], bad)) for st in res["steps"]])
    layout = clist([copt(LED_TO_KEY.get(n), cN) for n in case["leds"]])
    txt = "(Build_lcase %s %d %s %s %s %s %s %s)" % (
        devgen.emit_config(cfg), ctl_id(cfg), layout, clist(evs), emit_frame(cfg, res["first"], bad), obs,
        emit_frame(cfg, res["final"], bad), devgen.emit_msgs(res["cleanup"]))
    res["_unclassified"] = bad
    return txt


def evaluate(cases, results, tag):
    evals = [("FAIL", "enum_fail led_failures 0 cases"), ("MIS", "enum_some led_mismatch 0 cases"),
             ("ORIG", "enum_some led_mismatch_orig 0 cases")]
    idx = [i for i in range(len(cases)) if usable(results[i])]
    sub_cases = [cases[i] for i in idx]
    sub_res = [results[i] for i in idx]
    n = max(10, min(40, -(-len(sub_cases) // 8)))
    mres = devrun.eval_shards(sub_cases, sub_res, evals, imports="Model.Led Run.LedRun", shard=n, emit=emit_lcase,
                              case_type="lcase", tag=tag)
    return {name: [(idx[it[0]],) + tuple(it[1:]) for it in items] for name, items in mres.items()}


def offsets_at(case, res):
    """|offset| per frame index (0 = first frame, i+1 = event i) from the implementation's State()."""
    cfg = case["cfg"]
    out = [12 * cfg["octave"] + cfg["semitone"]]
    for st in res["steps"]:
        out.append(12 * st["state"]["octave"] + st["state"]["semitone"])
    return out


def signature(case, res, fails, orig_matches):
    """Known-finding id for a failing case, or None.  fails: [(frame index, [LED indices])]."""
    if not fails:
        return None
    cfg = case["cfg"]
    offs = offsets_at(case, res)
    # K4: every failing frame is taken at |offset| >= 129 (outside C17_key_colour_partial's hypothesis)
    if all(fi < len(offs) and abs(offs[fi]) >= 129 for fi, _ in fails):
        return "K4-highlight-alias-mod256"
    if not orig_matches:
        return None
    have = {a["action"]: a["code"] for a in cfg["actions"]}
    leds = {LED_TO_KEY.get(n) for n in case["leds"]}
    k3 = any(a not in have or have[a] not in leds for a in STATE_ACTIONS)
    if k3 and all(l == [0] for _, l in fails):
        return "K3-led0-overwrite"
    first = min(fi for fi, _ in fails)
    vel0 = any(e["t"] == "m" and len(e["bytes"]) == 3 and (e["bytes"][0] & 0xf0) == 0x90 and e["bytes"][2] == 0
               for e in case["events"][:first])
    if vel0 and not k3:
        return "D18-velocity0-note-on"
    return None


def fails_case(binary, case):
    res, _, err = run_impl(binary, [case], parallel=1)
    if res is None or not usable(res[0]):
        return True, None, None, False
    mres = evaluate([case], res, "c17s")
    f = mres["FAIL"][0][1] if mres["FAIL"] else []
    return bool(f), res[0], f, not mres["ORIG"]


def shrink(binary, case, budget=10):
    cur = dict(case)
    used, n = 0, 2
    while len(cur["events"]) >= 2 and used < budget:
        evs = cur["events"]
        size = max(1, len(evs) // n)
        reduced = False
        for start in range(0, len(evs), size):
            cand = dict(cur, events=evs[:start] + evs[start + size:])
            used += 1
            if fails_case(binary, cand)[0]:
                cur, n, reduced = cand, max(n - 1, 2), True
                break
            if used >= budget:
                break
        if not reduced:
            if size == 1:
                break
            n = min(len(evs), n * 2)
    return cur


def describe(case, res, fails):
    fi, leds = fails[0]
    what = "first frame" if fi == 0 else ("final frame after disconnect" if fi > len(case["events"]) else "frame after event %d (%s)" % (fi - 1, json.dumps(case["events"][fi - 1])))
    if fi > len(case["events"]):
        fr = res.get("final")
    else:
        fr = res["first"] if fi == 0 else res["steps"][fi - 1]["frame"]
    shown = ["LED %d '%s' shows #%06x (%s)" % (l, case["leds"][l], fr[l], classify(case["cfg"], fr[l])) for l in leds[:4] if fr and l < len(fr)]
    return "%s: %s" % (what, "; ".join(shown) if shown else "not all LEDs red / wrong length")


def run(run_, cases=None):
    rng = random.Random(run_.seed)
    run_.proof_obligations()
    corr = "C17 view (per step: frame received from the real LED loop as colour classes = Led.frame of the model state; MIDI bytes and State() = Device.step; final frame all red)"
    mon = "C17 monitor (Led.spec_colour / spec_action_colour / clearing rules / final red, evaluated on the observed frames)"
    binary, err = go_build("device")
    if binary is None:
        run_.violation("device harness does not build against /repo: " + err, {"theorem_or_correspondence": corr + " (harness build)", "error": err}, no_input=True)
        return
    replaying = cases is not None
    if cases is None:
        cases = gen(rng, run_.tier)
    results, table, err = run_impl(binary, cases)
    if results is None:
        run_.violation("LED harness failed: " + err, {"theorem_or_correspondence": corr + " (harness run)", "error": err}, no_input=True)
        return
    if table != KEY_TO_LED:
        diff = sorted(set(table.items()) ^ set(KEY_TO_LED.items()))[:6]
        run_.violation("KeyToLedName of the implementation differs from the table the model's layouts are built from: %s" % diff,
                       {"theorem_or_correspondence": corr + " (LED name table)", "difference": diff}, no_input=True)
        return
    mis = [i for i, r in enumerate(results) if r.get("misaddressed")]
    for i in mis[:2]:
        run_.violation("the LED frames are addressed to the wrong OpenRGB controller: %d UpdateLEDs packet(s) went to a controller that is not the keyboard "
                       "(the server lists %d other controller(s) before it: %s); server: %s (case %d, %s)" % (
                           results[i]["misaddressed"], len(cases[i].get("others", [])), [o["name"] for o in cases[i].get("others", [])],
                           (results[i].get("server_errors") or [""])[0], i, cases[i].get("tag")),
                       {"kind": "led-history", "case": {kk: v for kk, v in cases[i].items() if kk != "tag"}, "implementation_observation":
                        {kk: v for kk, v in results[i].items() if kk in ("misaddressed", "server_errors", "frames", "conns")}, "monitor": mon})
    broken = [i for i, r in enumerate(results) if not usable(r) and i not in mis]
    for i in broken[:3]:
        r = results[i]
        why = ("panicked: %s" % r["panic"]) if r.get("panic") else ("hung" if r.get("hang") else (r.get("err") or "LED refresh stopped: no frame was received after a step"))
        run_.violation("the device %s (case %d, %s)" % (why, i, cases[i].get("tag")),
                       {"kind": "led-history", "case": {kk: v for kk, v in cases[i].items() if kk != "tag"}, "implementation_observation": r, "monitor": mon})
    mres = evaluate(cases, results, "c17")
    unclassified = [(i, results[i]["_unclassified"]) for i in range(len(cases)) if results[i].get("_unclassified")]
    failing = {it[0]: it[1] for it in mres["FAIL"]}
    orig_mis = {it[0] for it in mres["ORIG"]}
    for i, bad in unclassified[:2]:
        run_.violation("a frame contains colours that belong to no colour class: %s (case %d)" % (["#%06x" % v for v in bad[:5]], i),
                       {"kind": "led-history", "case": {kk: v for kk, v in cases[i].items() if kk != "tag"}, "monitor": mon, "colours": bad[:20]})
    known_ids = {k_["id"] for k_ in load_known() if k_.get("property") == "C17" and k_.get("status") == "known"}
    reported, seen_sigs = 0, set()
    for i in sorted(failing):
        case = {kk: v for kk, v in cases[i].items() if kk != "tag"}
        res, fails = results[i], failing[i]
        sig = signature(case, res, fails, i not in orig_mis)
        if sig not in known_ids and (reported >= 4 or (reported >= 2 and sig in seen_sigs)):
            continue
        seen_sigs.add(sig)
        if sig not in known_ids and not replaying:
            # a failing frame stays failing when the history is cut right after it; then delta-debug a little
            first = min(fi for fi, _ in fails)
            if 0 < first <= len(case["events"]):
                cand = dict(case, events=case["events"][:first])
                f, r2, fl2, om = fails_case(binary, cand)
                if f and r2 is not None:
                    case, res, fails = cand, r2, fl2
                    small = shrink(binary, case)
                    f, r3, fl3, om3 = fails_case(binary, small)
                    if f and r3 is not None and fl3:
                        case, res, fails, om = small, r3, fl3, om3
                    sig = signature(case, res, fails, om)
        before = len(run_.violations)
        run_.violation("%s fails on the implementation (case %d, %s): %s" % (mon, i, cases[i].get("tag"), describe(case, res, fails)),
                       {"kind": "led-history", "case": case, "implementation_observation": res, "failing_frames": fails, "monitor": mon},
                       signature=sig)
        if len(run_.violations) > before:
            reported += 1
    mism = [it for it in mres["MIS"] if it[0] not in failing]
    if mism and not run_.violations:
        i, step = mism[0][0], mism[0][1]
        run_.violation("correspondence %s no longer checks: the model's frame / output differs from the implementation's at frame %s of case %d "
                       "(%d diverging cases), and no case in this run fails the property monitor" % (corr, step, i, len(mism)),
                       {"kind": "led-history", "case": {kk: v for kk, v in cases[i].items() if kk != "tag"},
                        "implementation_observation": results[i], "failing_frames": [[step, []]], "theorem_or_correspondence": corr},
                       no_input=True)
    # ---- coverage
    def classes(i):
        s = set()
        for st in results[i]["steps"]:
            for li, v in enumerate(st["frame"] or []):
                s.add((classify(cases[i]["cfg"], v), LED_TO_KEY.get(cases[i]["leds"][li]) if li < len(cases[i]["leds"]) else None))
        return s
    ok = [i for i in range(len(cases)) if usable(results[i])]
    note_codes = lambda c: {kk["code"] for mp in c["cfg"]["mappings"] for kk in mp["midi"] if kk["sub"] == ""}
    nt, hist = set(), {}
    for i in ok:
        cl = classes(i)
        nc = note_codes(cases[i])
        kinds = {c for c, key in cl if key in nc}
        for c in {c for c, _ in cl}:
            hist[c] = hist.get(c, 0) + 1
        if "Active" in kinds and ("ActiveExternal" in kinds or any(c and c.startswith("(Chan ") for c in kinds)):
            nt.add(json.dumps([cases[i]["cfg"], cases[i]["events"], cases[i]["leds"]], sort_keys=True))
    tags, kinds = {}, {"key": 0, "midi_note_on": 0, "midi_note_on_velocity0": 0, "midi_note_off": 0, "midi_other": 0}
    for c in cases:
        tags[c.get("tag", "random")] = tags.get(c.get("tag", "random"), 0) + 1
        for e in c["events"]:
            if e["t"] == "k":
                kinds["key"] += 1
            else:
                b = e["bytes"]
                st = b[0] & 0xf0 if b else 0
                kinds["midi_note_on_velocity0" if st == 0x90 and len(b) > 2 and b[2] == 0 else "midi_note_on" if st == 0x90 else
                      "midi_note_off" if st == 0x80 else "midi_other"] += 1
    lens = [len(c["events"]) for c in cases]
    waits = [s["wait_ms"] for i in ok for s in results[i]["steps"]]
    si = ok[0] if ok else 0
    for i in ok:
        if cases[i].get("tag") == "random":
            si = i
            break
    run_.coverage.update({
        "evaluations": len(cases),
        "distinct_nontrivial": len(nt),
        "rule": ("random configurations (4-10 note keys on sub-handler \"\" among the 108 keys with LED names, every state action on its own key, "
                 "optionally a mapping named Control, an exit sequence, extra sub-handler keys), random layouts (subset and order of LED names, "
                 "unknown names, keys without LED), histories of key presses/releases, state-action walks, panic, and MIDI-input Note On / Note Off / "
                 "velocity-0 Note On / other messages on any channel aimed at the pitches of mapped keys; |offset| <= 120 in the random stream; corpus "
                 "streams for D18, K3, K4; non-trivial = distinct cases in which some note-key LED showed the keyboard highlight and some note-key LED "
                 "showed a MIDI-input highlight (current-channel or channel colour)"),
        "samples": [{"config": cases[si]["cfg"], "leds": cases[si]["leds"], "events": cases[si]["events"][:30],
                     "frames_as_classes": [[classify(cases[si]["cfg"], v) for v in st["frame"]] for st in results[si]["steps"][:30]] if ok else []}],
        "generator_distribution": {"streams": tags, "history_length_min": min(lens), "history_length_max": max(lens),
                                   "history_length_mean": round(sum(lens) / len(lens), 1), "event_kinds": kinds,
                                   "frames_compared": sum(len(results[i]["steps"]) + 2 for i in ok),
                                   "layout_sizes": sorted({len(c["leds"]) for c in cases}),
                                   "cases_per_colour_class_seen": hist,
                                   "frame_wait_ms_max": round(max(waits), 1) if waits else None},
        "monitor_failures": len(failing), "view_mismatches": len(mres["MIS"]), "crashes_or_stalls": len(broken),
        "implementation_matches_original_model": len(ok) - len(orig_mis),
        "correspondence_obligations": 2,
    })
    run_.assumptions += [
        "colours are compared as classes: a received RGB triple is mapped to the nearest class (configured colours >= %d apart per channel-max norm, accepted deviation %d); floats are never compared; channelColors repeats with period 8 (channel c and c+8 share a hue), so channel classes are hues" % (MIN_DIST, MAX_DEV),
        "frame selection is deterministic: the harness stamps a 4-bit generation into Colors.Unavailable (under eventProcessMutex) after each completely processed step and takes the first frame carrying it (an extra unknown-name LED carries the stamp)",
        "the LED strip helper is not exercised (controller name not in ledStrips); the controller reports as many colours as LEDs; no two keys carry the same action (actionToEvcode is built from a Go map iteration)",
        "openrgb-go wire format and go-colorful are trusted as exercised; the fake server speaks protocol version 0",
        "C17_key_colour_partial assumes |offset| <= 128, base notes and tracked notes < 128 (K4 outside); theorems are about the model with the proposed fixes (velocity-0, action-LED guard)",
    ]


def replay(run_, data):
    case = data["replay"].get("case")
    if not case or "leds" not in case:
        return run(run_)
    run(run_, cases=[dict(case, tag="replay")])
