//go:build verif

package main

import (
	"encoding/hex"
	"encoding/json"
	"fmt"
	"io/fs"
	"os"
	"path/filepath"
	"runtime"
	"sort"
	"sync/atomic"
	"testing"
	"time"

	"github.com/gethiox/HIDI/internal/pkg/logger"
)

// C18: start-up upkeep. For every case: a fresh directory is created under Root, the "before" tree is
// materialised in it, the process chdirs into it and the real updateHIDIConfiguration() is called Runs times;
// the complete tree is dumped after every call. The embedded template is dumped in fs.WalkDir order.
// The test binary of cmd/hidi must be run WITHOUT flags (init() calls flag.Parse()), so TestVerif is the
// dispatcher and is selected through $VERIF_MODE only.
//
// Implementation-driven crash exploration (lib/c18.py:inject_stage) uses the same mode in three invocations:
//   setup    Runs = 0                       the trees are materialised, updateHIDIConfiguration is not called;
//   one      Existing, Mark, Runs = 1       nothing is materialised: chdir into the existing case directory and one
//                                           call between the marker mkdirs - the invocation that strace kills at a
//                                           chosen system call (no output file is written then);
//   recover  Existing, Pre, Runs = 2        the tree the killed run left is dumped (Pre), then two complete calls.

type c18Node struct {
	P string `json:"p"`           // slash-separated path relative to the case directory
	D bool   `json:"d,omitempty"` // directory
	H string `json:"h"`           // file content, hex
}

type c18Case struct {
	ID   int       `json:"id"`
	Tree []c18Node `json:"tree"` // parents before children
	Runs int       `json:"runs"`
}

type c18In struct {
	Root string `json:"root"`
	Mark bool   `json:"mark"` // bracket every upkeep call with marker mkdirs (for the strace tier)
	// Existing: the case directories already exist (an earlier invocation made them): nothing is created or written
	// before the calls. Pre: dump the tree as found, before the first call.
	Existing bool      `json:"existing"`
	Pre      bool      `json:"pre"`
	Cases    []c18Case `json:"cases"`
}

type c18Run struct {
	Err   string    `json:"err"`   // "" = nil error
	Panic string    `json:"panic"` // "" = no panic
	Tree  []c18Node `json:"tree"`
	// LogBlocked: the call queued more log messages than the logger's channel holds (128) and blocked - in main() nothing reads that
	// channel before the upkeep has finished, so there it would block forever; here it was released after 4 s
	LogBlocked bool `json:"log_blocked"`
}

type c18Res struct {
	ID       int       `json:"id"`
	SetupErr string    `json:"setup_err"`
	Pre      []c18Node `json:"pre,omitempty"`
	Runs     []c18Run  `json:"runs"`
}

type c18Out struct {
	Template []c18Node `json:"template"`
	ConfDir  string    `json:"confdir"`
	Results  []c18Res  `json:"results"`
}

func c18Dump(root string) ([]c18Node, error) {
	var out []c18Node
	err := filepath.Walk(root, func(p string, info os.FileInfo, err error) error {
		if err != nil {
			return err
		}
		rel, err := filepath.Rel(root, p)
		if err != nil {
			return err
		}
		if rel == "." {
			return nil
		}
		rel = filepath.ToSlash(rel)
		if info.IsDir() {
			out = append(out, c18Node{P: rel, D: true})
			return nil
		}
		if !info.Mode().IsRegular() {
			return fmt.Errorf("unexpected file type at %s: %v", rel, info.Mode())
		}
		data, err := os.ReadFile(p)
		if err != nil {
			return err
		}
		out = append(out, c18Node{P: rel, H: hex.EncodeToString(data)})
		return nil
	})
	sort.SliceStable(out, func(i, j int) bool { return out[i].P < out[j].P })
	return out, err
}

func c18Template() ([]c18Node, error) {
	var out []c18Node
	err := fs.WalkDir(templateConfig, configDir, func(p string, d fs.DirEntry, err error) error {
		if err != nil {
			return err
		}
		if d.IsDir() {
			out = append(out, c18Node{P: p, D: true})
			return nil
		}
		data, err := fs.ReadFile(templateConfig, p)
		if err != nil {
			return err
		}
		out = append(out, c18Node{P: p, H: hex.EncodeToString(data)})
		return nil
	})
	return out, err
}

func c18Call() (res c18Run) {
	for drained := false; !drained; { // as in main(): the channel is empty when the upkeep starts, and nobody reads it while it runs
		select {
		case <-logger.Messages:
		default:
			drained = true
		}
	}
	finished := make(chan struct{})
	var blocked atomic.Bool
	go func() {
		select {
		case <-finished:
			return
		case <-time.After(4 * time.Second):
		}
		if len(logger.Messages) < cap(logger.Messages) {
			return // slow, but not blocked on the log channel
		}
		blocked.Store(true)
		for {
			select {
			case <-logger.Messages:
			case <-finished:
				return
			}
		}
	}()
	defer func() {
		close(finished)
		res.LogBlocked = blocked.Load()
	}()
	defer func() {
		if r := recover(); r != nil {
			res.Panic = fmt.Sprint(r)
		}
	}()
	if err := updateHIDIConfiguration(); err != nil {
		res.Err = err.Error()
	}
	return
}

func verifC18(t *testing.T) {
	// keep every syscall of the code under test on one OS thread (readable strace order; strace's injection
	// counters are per thread): locked before the first file is opened
	runtime.LockOSThread()
	defer runtime.UnlockOSThread()
	var in c18In
	c18ReadJSON(t, &in)

	out := c18Out{ConfDir: configDir, Results: []c18Res{}}
	tmpl, err := c18Template()
	if err != nil {
		t.Fatalf("verif: cannot dump the embedded template: %v", err)
	}
	out.Template = tmpl
	home, _ := os.Getwd()
	for _, c := range in.Cases {
		res := c18Res{ID: c.ID, Runs: []c18Run{}}
		dir := filepath.Join(in.Root, fmt.Sprintf("case-%d", c.ID))
		func() {
			if !in.Existing {
				if err := os.MkdirAll(dir, 0o777); err != nil {
					res.SetupErr = err.Error()
					return
				}
			}
			for _, n := range c.Tree {
				if in.Existing {
					break
				}
				p := filepath.Join(dir, filepath.FromSlash(n.P))
				if n.D {
					if err := os.Mkdir(p, 0o777); err != nil {
						res.SetupErr = err.Error()
						return
					}
					continue
				}
				data, err := hex.DecodeString(n.H)
				if err != nil {
					res.SetupErr = err.Error()
					return
				}
				if err := os.WriteFile(p, data, 0o666); err != nil {
					res.SetupErr = err.Error()
					return
				}
			}
			if err := os.Chdir(dir); err != nil {
				res.SetupErr = err.Error()
				return
			}
			defer os.Chdir(home)
			if in.Pre {
				tree, err := c18Dump(dir)
				if err != nil {
					res.SetupErr = "dump: " + err.Error()
					return
				}
				res.Pre = tree
				if res.Pre == nil {
					res.Pre = []c18Node{}
				}
			}
			for r := 0; r < c.Runs; r++ {
				if in.Mark {
					m := filepath.Join(in.Root, fmt.Sprintf("mark-%d-%d-begin", c.ID, r))
					os.Mkdir(m, 0o777)
				}
				run := c18Call()
				if in.Mark {
					m := filepath.Join(in.Root, fmt.Sprintf("mark-%d-%d-end", c.ID, r))
					os.Mkdir(m, 0o777)
				}
				tree, err := c18Dump(dir)
				if err != nil {
					res.SetupErr = "dump: " + err.Error()
					return
				}
				run.Tree = tree
				res.Runs = append(res.Runs, run)
			}
		}()
		out.Results = append(out.Results, res)
	}
	c18WriteJSON(t, &out)
}

func c18ReadJSON(t *testing.T, v interface{}) {
	data, err := os.ReadFile(os.Getenv("VERIF_IN"))
	if err != nil {
		t.Fatalf("verif: cannot read input: %v", err)
	}
	if err := json.Unmarshal(data, v); err != nil {
		t.Fatalf("verif: bad input: %v", err)
	}
}

func c18WriteJSON(t *testing.T, v interface{}) {
	data, err := json.Marshal(v)
	if err != nil {
		t.Fatalf("verif: cannot encode output: %v", err)
	}
	if err := os.WriteFile(os.Getenv("VERIF_OUT"), data, 0o644); err != nil {
		t.Fatalf("verif: cannot write output: %v", err)
	}
}
