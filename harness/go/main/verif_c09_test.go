//go:build verif

package main

import (
	"encoding/base64"
	"encoding/json"
	"fmt"
	"os"
	"path/filepath"
	"testing"
	"time"

	"github.com/gethiox/HIDI/internal/pkg/logger"
	"github.com/pelletier/go-toml/v2"
)

// C09 (hidi.toml): the real LoadHIDIConfig on generated file contents. Every input (base64) is written to a file,
// LoadHIDIConfig(path) is called in a goroutine under recover() and a watchdog -> class ok | error | panic | hang
// and the three durations; separately the bare decoder (toml.Unmarshal into HIDIConfigRaw, as LoadHIDIConfig calls it)
// is run under recover() -> the ORACLE outcome given to the Coq model [guard dec hidi_convert].
// The test binary of cmd/hidi is run WITHOUT flags (init() calls flag.Parse()).

func init() { verifModes["c09hidi"] = verifC09Hidi }

type c09hIn struct {
	Inputs     []string `json:"inputs"` // base64
	WatchdogMs int      `json:"watchdog_ms"`
	Dir        string   `json:"dir"`
}

type c09hRes struct {
	Class    string   `json:"class"`
	Err      string   `json:"err,omitempty"`
	Dur      [3]int64 `json:"dur"` // EVThrottling, DiscoveryRate, StabilizationPeriod (ns)
	DecClass string   `json:"dec_class"`
	DecErr   string   `json:"dec_err,omitempty"`
	Raw      [3]int64 `json:"raw"` // pool_rate, discovery_rate, stabilization_period as decoded
}

type c09hOut struct {
	Results []c09hRes `json:"results"`
	Missing c09hRes   `json:"missing"` // LoadHIDIConfig on a path that does not exist
}

type c09hCall struct {
	class string
	msg   string
	v     [3]int64
}

func c09hWatch(wd time.Duration, f func() c09hCall) c09hCall {
	done := make(chan c09hCall, 1)
	go func() {
		defer func() {
			if r := recover(); r != nil {
				done <- c09hCall{class: "panic", msg: fmt.Sprint(r)}
			}
		}()
		done <- f()
	}()
	select {
	case r := <-done:
		return r
	case <-time.After(wd):
		return c09hCall{class: "hang", msg: "no result after " + wd.String()}
	}
}

func c09hCut(s string) string {
	if len(s) > 300 {
		return s[:300]
	}
	return s
}

func verifC09Hidi(t *testing.T) {
	var in c09hIn
	data, err := os.ReadFile(os.Getenv("VERIF_IN"))
	if err != nil {
		t.Fatalf("verif: cannot read input: %v", err)
	}
	if err := json.Unmarshal(data, &in); err != nil {
		t.Fatalf("verif: bad input: %v", err)
	}
	// As in main(): nothing reads the logger's channel (capacity 128) while LoadHIDIConfig runs - processLogs starts later.  The channel
	// is emptied BETWEEN the calls only, so a call that queues more messages than the channel holds blocks and is reported as a hang.
	drainLogs := func() {
		for {
			select {
			case <-logger.Messages:
			default:
				return
			}
		}
	}
	wd := time.Duration(in.WatchdogMs) * time.Millisecond
	if wd <= 0 {
		wd = 5 * time.Second
	}
	if err := os.MkdirAll(in.Dir, 0o777); err != nil {
		t.Fatalf("verif: %v", err)
	}
	path := filepath.Join(in.Dir, "hidi.toml")
	load := func(p string) c09hCall {
		return c09hWatch(wd, func() c09hCall {
			c, err := LoadHIDIConfig(p)
			if err != nil {
				return c09hCall{class: "error", msg: err.Error()}
			}
			return c09hCall{class: "ok", v: [3]int64{int64(c.HIDI.EVThrottling), int64(c.HIDI.DiscoveryRate), int64(c.HIDI.StabilizationPeriod)}}
		})
	}
	out := c09hOut{Results: make([]c09hRes, 0, len(in.Inputs))}
	var progress *os.File
	if p := os.Getenv("VERIF_OUT"); p != "" {
		progress, _ = os.Create(p + ".progress")
	}
	for i, b64 := range in.Inputs {
		if progress != nil {
			progress.WriteAt([]byte(fmt.Sprintf("%010d", i)), 0)
		}
		content, err := base64.StdEncoding.DecodeString(b64)
		if err != nil {
			t.Fatalf("verif: bad base64 at %d", i)
		}
		if err := os.WriteFile(path, content, 0o644); err != nil {
			t.Fatalf("verif: %v", err)
		}
		drainLogs()
		impl := load(path)
		drainLogs()
		orac := c09hWatch(wd, func() c09hCall {
			var raw HIDIConfigRaw
			if err := toml.Unmarshal(append([]byte{}, content...), &raw); err != nil {
				return c09hCall{class: "error", msg: err.Error()}
			}
			return c09hCall{class: "ok", v: [3]int64{int64(raw.HIDI.PoolRate), int64(raw.HIDI.DiscoveryRate), int64(raw.HIDI.StabilizationPeriod)}}
		})
		out.Results = append(out.Results, c09hRes{Class: impl.class, Err: c09hCut(impl.msg), Dur: impl.v,
			DecClass: orac.class, DecErr: c09hCut(orac.msg), Raw: orac.v})
	}
	os.Remove(path)
	drainLogs()
	m := load(filepath.Join(in.Dir, "does-not-exist.toml"))
	drainLogs()
	out.Missing = c09hRes{Class: m.class, Err: c09hCut(m.msg), Dur: m.v}
	if progress != nil {
		progress.Close()
		os.Remove(progress.Name())
	}
	res, err := json.Marshal(&out)
	if err != nil {
		t.Fatalf("verif: cannot encode output: %v", err)
	}
	if err := os.WriteFile(os.Getenv("VERIF_OUT"), res, 0o644); err != nil {
		t.Fatalf("verif: cannot write output: %v", err)
	}
}
