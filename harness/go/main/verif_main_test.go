//go:build verif

package main

import (
	"os"
	"testing"
)

// Dispatcher of the verification modes of package main (cmd/hidi). The binary is run without flags
// (init() of the package calls flag.Parse()), so every test of the package runs; TestVerif does the work
// selected by $VERIF_MODE and skips otherwise.
var verifModes = map[string]func(*testing.T){
	"c18": verifC18,
}

func TestVerif(t *testing.T) {
	if fn, ok := verifModes[os.Getenv("VERIF_MODE")]; ok {
		fn(t)
		return
	}
	t.Skip("no VERIF_MODE")
}
