//go:build verif

package utils

// C15 (fan-out half, long sessions): one real DynamicFanOut instance carries a long stream (payload = stream index) to
//   * resident consumers, attached before the first item and detached after the last one, that must receive the whole
//     stream.  Resident 0 is the *lead*: between scripted points the producer is held `window` items ahead of it at most
//     (0 = lockstep), at a scripted point it stops reading until the producer is blocked in a send (the input channel, the
//     item held by run and every output buffer on the way are full - detected by the absence of progress), then drains or
//     "slides" (reads one item, waits until the producer is blocked again, ...), so that the buffers are full at every
//     absolute stream index of a range.  Other residents read freely and may stall at scripted points as well;
//   * cyclers: goroutines that attach, read a few items (or none), detach - reading on or having stopped reading - and
//     start over, thousands of times, so that output ids are reused over and over while traffic flows.
// Every attach/detach cycle and every resident yields one consumer record (stream positions around the SpawnOutput and
// DespawnOutput calls, what was received); all of them are judged by the Coq monitor Run/TransportRun.v:fanout_accepts.

import (
	"fmt"
	"math/rand"
	"os"
	"runtime"
	"sync"
	"sync/atomic"
	"testing"
	"time"
)

type c15FLOp struct {
	At     int64  `json:"at"`
	Mode   string `json:"mode"` // full | slide | depth | window
	Steps  int    `json:"steps"`
	K      int64  `json:"k"`
	Window int64  `json:"window"` // lead only: >= 0: the window in force after this op
}

type c15FLResident struct {
	Jitter int       `json:"jitter"`
	SlowUs int       `json:"slow_us"`
	Ops    []c15FLOp `json:"ops"`
}

type c15FLScenario struct {
	Name       string          `json:"name"`
	Seed       int64           `json:"seed"`
	ICap       int             `json:"icap"`
	Items      int64           `json:"items"`       // minimal stream length
	Cycles     int64           `json:"cycles"`      // minimal number of attach/detach cycles (all cyclers together)
	Cyclers    int             `json:"cyclers"`     // concurrent cycling goroutines
	MaxWant    int             `json:"max_want"`    // a cycle reads 0..MaxWant items before it detaches
	StoppedPct int             `json:"stopped_pct"` // share of cycles that have stopped reading when DespawnOutput is called
	PatienceUs int             `json:"patience_us"` // a cycle waits that long for an item at most
	Window     int64           `json:"window"`
	Jitter     int             `json:"jitter"`
	QuietUs    int             `json:"quiet_us"`
	BoundMs    int             `json:"bound_ms"`    // for one SpawnOutput / DespawnOutput call
	DeadlineMs int             `json:"deadline_ms"` // for the whole session
	Residents  []c15FLResident `json:"residents"`
	// time-aged sessions (behaviour that depends on uptime: periodic timers): when DurationMs > 0 the stream does not end after
	// Items items but after that much wall-clock time, with one item every PeriodMinMs..PeriodMaxMs and nothing during Quiets
	DurationMs  int      `json:"duration_ms"`
	PeriodMinMs int      `json:"period_min_ms"`
	PeriodMaxMs int      `json:"period_max_ms"`
	Quiets      [][2]int `json:"quiets"` // [start ms, length ms]
}

type c15FLIn struct {
	GoMaxProcs int             `json:"gomaxprocs"`
	Scenarios  []c15FLScenario `json:"scenarios"`
}

type c15FLStall struct {
	Resident int   `json:"resident"`
	At       int64 `json:"at"`
	Depth    int64 `json:"depth"`
	Blocked  bool  `json:"blocked"`
}

// one consumer record, the fields of c15ConsumerOut the monitor needs
type c15FLRec struct {
	Kind      string  `json:"kind"` // resident | drain | stopped
	ID        int64   `json:"id"`
	OK        bool    `json:"ok"` // both calls returned without error or panic and the channel was closed afterwards
	Why       string  `json:"why"`
	SCDone    int64   `json:"sc_done"`
	SRStarted int64   `json:"sr_started"`
	DCDone    int64   `json:"dc_done"`
	DRStarted int64   `json:"dr_started"`
	Drained   bool    `json:"drained"`
	Received  []int64 `json:"received"`
}

type c15FLScenarioOut struct {
	Name      string       `json:"name"`
	Pushed    int64        `json:"pushed"`
	Cycles    int64        `json:"cycles"`
	MaxID     int64        `json:"max_id"`
	Abandoned bool         `json:"abandoned"`
	Why       string       `json:"why"`
	Ms        float64      `json:"ms"`
	Stalls    []c15FLStall `json:"stalls"`
	Records   []c15FLRec   `json:"records"` // residents first, then the cycles in order of completion
}

type c15FLOut struct {
	GoMaxProcs int                `json:"gomaxprocs"`
	Scenarios  []c15FLScenarioOut `json:"scenarios"`
}

const c15FLFree = int64(1) << 40

type c15FLSession struct {
	sc    c15FLScenario
	f     *DynamicFanOut[int64]
	in    chan int64
	bound time.Duration
	quiet time.Duration

	started, done atomic.Int64
	leadRecv      atomic.Int64
	window        atomic.Int64
	cycles        atomic.Int64
	finished      atomic.Bool
	finishedCh    chan struct{}

	abort     chan struct{}
	abortOnce sync.Once
	mu        sync.Mutex // guards why, stalls, recs
	why       string
	stalls    []c15FLStall
	recs      []c15FLRec
}

func (s *c15FLSession) abandon(why string) {
	s.abortOnce.Do(func() {
		if why != "" && os.Getenv("VERIF_C15_STACKS") != "" { // diagnosis: where everybody is
			buf := make([]byte, 1<<20)
			fmt.Fprintf(os.Stderr, "abandon: %s\n%s\n", why, buf[:runtime.Stack(buf, true)])
		}
		s.mu.Lock()
		s.why = why
		s.mu.Unlock()
		close(s.abort)
	})
}

func (s *c15FLSession) aborted() bool {
	select {
	case <-s.abort:
		return true
	default:
		return false
	}
}

type c15FLSpawn struct {
	id  int64
	ch  <-chan int64
	err error
	p   string
	pos int64 // pushes started when the call returned
}

// SpawnOutput, bounded (it may be starved by a blocked broadcast); ok = false: the session has been abandoned
func (s *c15FLSession) spawn(who string) (sr c15FLSpawn, ok bool) {
	spc := make(chan c15FLSpawn, 1)
	go func() {
		var r c15FLSpawn
		defer func() {
			if p := recover(); p != nil {
				r.p = fmt.Sprint(p)
			}
			r.pos = s.started.Load()
			spc <- r
		}()
		r.id, r.ch, r.err = s.f.SpawnOutput()
	}()
	tm := time.NewTimer(s.bound)
	defer tm.Stop()
	select {
	case sr = <-spc:
		return sr, true
	case <-tm.C:
		s.abandon(fmt.Sprintf("SpawnOutput of %s did not return within %v", who, s.bound))
	case <-s.abort:
	}
	return sr, false
}

type c15FLDespawn struct {
	err, p string
	pos    int64
}

func (s *c15FLSession) despawnAsync(id int64) chan c15FLDespawn {
	dsc := make(chan c15FLDespawn, 1)
	go func() {
		var r c15FLDespawn
		defer func() {
			if x := recover(); x != nil {
				r.p = fmt.Sprint(x)
			}
			r.pos = s.started.Load()
			dsc <- r
		}()
		if err := s.f.DespawnOutput(id); err != nil {
			r.err = err.Error()
		}
	}()
	return dsc
}

func (s *c15FLSession) producer() {
	r := rand.New(rand.NewSource(s.sc.Seed))
	ipc := float64(s.sc.Items) / float64(maxI64(1, s.sc.Cycles))
	if ipc < 0.25 {
		ipc = 0.25
	}
	t0 := time.Now()
	aged := s.sc.DurationMs > 0
	end := t0.Add(time.Duration(s.sc.DurationMs) * time.Millisecond)
	for x := int64(0); ; x++ {
		if aged {
			d := s.sc.PeriodMinMs
			if s.sc.PeriodMaxMs > s.sc.PeriodMinMs {
				d += r.Intn(s.sc.PeriodMaxMs - s.sc.PeriodMinMs + 1)
			}
			time.Sleep(time.Duration(d) * time.Millisecond)
			now := int(time.Since(t0).Milliseconds())
			for _, q := range s.sc.Quiets {
				if now >= q[0] && now < q[0]+q[1] {
					time.Sleep(time.Duration(q[0]+q[1]-now) * time.Millisecond)
				}
			}
			if !time.Now().Before(end) || s.aborted() {
				break
			}
		} else if x >= s.sc.Items && s.cycles.Load() >= s.sc.Cycles {
			break
		}
		for spins := 0; ; spins++ {
			w := s.window.Load()
			gate := x-s.leadRecv.Load() <= w
			// the stream advances with the attach/detach cycles so that they spread over all of it; suspended while the
			// lead lets the producer run ahead (the buffers must fill up)
			pace := aged || w >= c15FLFree || s.cycles.Load() >= s.sc.Cycles || float64(x) <= float64(s.cycles.Load()+4)*ipc
			if gate && pace {
				break
			}
			if s.aborted() {
				return
			}
			if spins%64 == 63 {
				time.Sleep(5 * time.Microsecond)
			} else {
				runtime.Gosched()
			}
		}
		c15Jitter(r, s.sc.Jitter)
		s.started.Add(1)
		select {
		case s.in <- x:
		case <-s.abort:
			return
		}
		s.done.Add(1)
	}
	s.finished.Store(true)
	close(s.finishedCh)
}

func maxI64(a, b int64) int64 {
	if a > b {
		return a
	}
	return b
}

// waits until the producer is blocked (no progress for `quiet`; lead: and inside a send), has finished, or is k items ahead
func (s *c15FLSession) waitAhead(lead bool, mine int64, k int64) (blocked bool) {
	last, lastDone := s.started.Load(), s.done.Load()
	since := time.Now()
	for i := 0; ; i++ {
		if s.aborted() || s.finished.Load() {
			return false
		}
		st, dn := s.started.Load(), s.done.Load()
		if k > 0 && st-mine >= k {
			return false
		}
		if st != last || dn != lastDone {
			last, lastDone, since = st, dn, time.Now()
		} else if (st > dn || !lead) && time.Since(since) >= s.quiet {
			return true
		}
		if i%16 == 15 {
			time.Sleep(10 * time.Microsecond)
		} else {
			runtime.Gosched()
		}
	}
}

func (s *c15FLSession) resident(ri int, ready *sync.WaitGroup, wg *sync.WaitGroup) {
	defer wg.Done()
	rs := s.sc.Residents[ri]
	lead := ri == 0
	rec := c15FLRec{Kind: "resident", Received: []int64{}}
	readyDone := false
	defer func() {
		if !readyDone {
			ready.Done()
		}
		s.mu.Lock()
		s.recs = append(s.recs, rec)
		s.mu.Unlock()
	}()
	r := rand.New(rand.NewSource(s.sc.Seed*1000 + int64(ri) + 1))
	rec.SCDone = s.done.Load()
	sr, ok := s.spawn(fmt.Sprintf("resident %d", ri))
	if !ok {
		rec.Why = "SpawnOutput did not return"
		return
	}
	rec.SRStarted = sr.pos
	if sr.p != "" || sr.err != nil {
		rec.Why = "SpawnOutput: " + sr.p + fmt.Sprint(sr.err)
		return
	}
	rec.ID = sr.id
	ready.Done()
	readyDone = true

	ops := rs.Ops
	base := s.sc.Window
	n := int64(0)
	closed := false
	accept := func(v int64, ok bool) {
		if !ok {
			closed = true
			return
		}
		rec.Received = append(rec.Received, v)
		n++
		if lead {
			s.leadRecv.Add(1)
		}
	}
	stall := func(k int64) {
		at := n
		b := s.waitAhead(lead, n, k)
		s.mu.Lock()
		s.stalls = append(s.stalls, c15FLStall{Resident: ri, At: at, Depth: s.started.Load() - n, Blocked: b})
		s.mu.Unlock()
	}
	// a fresh timer every time: the module is go 1.18, where a stopped-after-firing timer may still deliver its stale tick later
	tm := time.NewTimer(time.Hour)
	defer func() { tm.Stop() }()
	reset := func(d time.Duration) {
		tm.Stop()
		tm = time.NewTimer(d)
	}
	// ---- phase 1: the stream is running
	for !closed && !s.aborted() && !s.finished.Load() {
		for len(ops) > 0 && ops[0].At <= n && !closed {
			op := ops[0]
			ops = ops[1:]
			if op.At < n {
				continue // overtaken by a slide
			}
			if lead {
				s.window.Store(c15FLFree)
			}
			switch op.Mode {
			case "full":
				stall(0)
			case "depth":
				stall(op.K)
			case "slide":
				stall(0)
				for i := 0; i < op.Steps && !closed; i++ {
					select {
					case v, ok := <-sr.ch:
						accept(v, ok)
					case <-s.finishedCh:
						i = op.Steps
					case <-s.abort:
						i = op.Steps
					}
					stall(0)
				}
			}
			if lead {
				if op.Window >= 0 {
					base = op.Window
				}
				s.window.Store(base)
			}
		}
		if closed {
			break
		}
		select {
		case v, ok := <-sr.ch:
			accept(v, ok)
		case <-s.finishedCh:
		case <-s.abort:
		}
		if rs.SlowUs > 0 {
			time.Sleep(time.Duration(r.Intn(rs.SlowUs)+1) * time.Microsecond)
		} else {
			c15Jitter(r, rs.Jitter)
		}
	}
	if lead {
		s.window.Store(c15FLFree)
	}
	// ---- phase 2: every push has completed; collect what is still under way (at most the slack), patiently
	for !closed && !s.aborted() && n < s.done.Load() {
		reset(500 * time.Millisecond)
		select {
		case v, ok := <-sr.ch:
			accept(v, ok)
			continue
		case <-tm.C:
		case <-s.abort:
		}
		break
	}
	if closed || s.aborted() {
		rec.Drained = closed
		rec.Why = "channel closed or session abandoned before DespawnOutput was called"
		return
	}
	// ---- phase 3: detach; a live device keeps reading while it is being removed
	rec.DCDone = s.done.Load()
	dsc := s.despawnAsync(sr.id)
	reset(s.bound)
	returned := false
	for !returned {
		var ch <-chan int64
		if !closed {
			ch = sr.ch
		}
		select {
		case v, ok := <-ch:
			accept(v, ok)
		case d := <-dsc:
			returned = true
			rec.DRStarted = d.pos
			if d.p != "" || d.err != "" {
				rec.Why = "DespawnOutput: " + d.p + d.err
				rec.Drained = closed
				return
			}
		case <-tm.C:
			rec.Why = "DespawnOutput did not return"
			rec.Drained = closed
			s.abandon(fmt.Sprintf("DespawnOutput(%d) of resident %d did not return within %v", sr.id, ri, s.bound))
			return
		}
	}
	reset(s.bound)
	for !closed {
		select {
		case v, ok := <-sr.ch:
			accept(v, ok)
		case <-tm.C:
			rec.Why = "channel not closed after DespawnOutput returned"
			s.abandon(fmt.Sprintf("channel of resident %d was not closed within %v after DespawnOutput(%d) returned", ri, s.bound, sr.id))
			return
		}
	}
	rec.Drained = true
	rec.OK = true
}

func (s *c15FLSession) cycler(ci int, wg *sync.WaitGroup) {
	defer wg.Done()
	r := rand.New(rand.NewSource(s.sc.Seed*7919 + int64(ci) + 11))
	patience := time.Duration(s.sc.PatienceUs) * time.Microsecond
	if patience <= 0 {
		patience = 200 * time.Microsecond
	}
	// a fresh timer every time: the module is go 1.18, where a stopped-after-firing timer may still deliver its stale tick later
	tm := time.NewTimer(time.Hour)
	defer func() { tm.Stop() }()
	reset := func(d time.Duration) {
		tm.Stop()
		tm = time.NewTimer(d)
	}
	ipc := float64(s.sc.Items) / float64(maxI64(1, s.sc.Cycles))
	for !s.finished.Load() && !s.aborted() {
		// the cycles spread over the whole stream: do not run ahead of it (the producer, for its part, does not run ahead of the cycles)
		for float64(s.cycles.Load())*ipc > float64(s.done.Load())+ipc*float64(s.sc.Cyclers+1) && !s.finished.Load() && !s.aborted() {
			if s.sc.DurationMs > 0 {
				time.Sleep(2 * time.Millisecond)
			} else {
				time.Sleep(20 * time.Microsecond)
			}
		}
		kind := "drain"
		if r.Intn(100) < s.sc.StoppedPct {
			kind = "stopped"
		}
		want := 0
		if s.sc.MaxWant > 0 {
			want = r.Intn(s.sc.MaxWant + 1)
		}
		rec := c15FLRec{Kind: kind, Received: []int64{}}
		func() {
			defer func() {
				s.mu.Lock()
				s.recs = append(s.recs, rec)
				s.mu.Unlock()
				s.cycles.Add(1)
			}()
			c15Jitter(r, s.sc.Jitter)
			rec.SCDone = s.done.Load()
			sr, ok := s.spawn(fmt.Sprintf("cycler %d", ci))
			if !ok {
				rec.Why = "SpawnOutput did not return"
				return
			}
			rec.SRStarted = sr.pos
			if sr.p != "" || sr.err != nil {
				rec.Why = "SpawnOutput: " + sr.p + fmt.Sprint(sr.err)
				return
			}
			rec.ID = sr.id
			closed := false
			for got := 0; got < want && !closed; {
				reset(patience)
				select {
				case v, ok := <-sr.ch:
					if !ok {
						closed = true
					} else {
						rec.Received = append(rec.Received, v)
						got++
					}
				case <-tm.C:
					got = want // nothing is coming (the stream is held back by a resident): detach now
				case <-s.abort:
					rec.Why = "session abandoned"
					return
				}
			}
			c15Jitter(r, s.sc.Jitter)
			rec.DCDone = s.done.Load()
			dsc := s.despawnAsync(sr.id)
			var d c15FLDespawn
			reset(s.bound)
			for returned := false; !returned; {
				var ch <-chan int64
				if kind == "drain" && !closed {
					ch = sr.ch // a live device keeps reading while it is being removed
				}
				select {
				case v, ok := <-ch:
					if !ok {
						closed = true
					} else {
						rec.Received = append(rec.Received, v)
					}
				case d = <-dsc:
					returned = true
				case <-tm.C:
					rec.Why = "DespawnOutput did not return"
					s.abandon(fmt.Sprintf("DespawnOutput(%d) of a cycle (%s, cycler %d, cycle %d) did not return within %v", sr.id, kind, ci, s.cycles.Load(), s.bound))
					return
				}
			}
			rec.DRStarted = d.pos
			if d.p != "" || d.err != "" {
				rec.Why = "DespawnOutput: " + d.p + d.err
				return
			}
			// collect what was buffered; the channel must be closed by now
			reset(s.bound)
			for !closed {
				select {
				case v, ok := <-sr.ch:
					if !ok {
						closed = true
					} else {
						rec.Received = append(rec.Received, v)
					}
				case <-tm.C:
					rec.Why = "channel not closed after DespawnOutput returned"
					s.abandon(fmt.Sprintf("channel of output %d (cycler %d) was not closed within %v after DespawnOutput returned", sr.id, ci, s.bound))
					return
				}
			}
			rec.Drained = true
			rec.OK = true
		}()
	}
}

func c15RunFanLong(sc c15FLScenario) (res c15FLScenarioOut) {
	t0 := time.Now()
	res.Name = sc.Name
	s := &c15FLSession{sc: sc, abort: make(chan struct{}), finishedCh: make(chan struct{})}
	s.bound = time.Duration(sc.BoundMs) * time.Millisecond
	if s.bound <= 0 {
		s.bound = 10 * time.Second
	}
	s.quiet = time.Duration(sc.QuietUs) * time.Microsecond
	if s.quiet <= 0 {
		s.quiet = 300 * time.Microsecond
	}
	dl := time.Duration(sc.DeadlineMs) * time.Millisecond
	if dl <= 0 {
		dl = 300 * time.Second
	}
	s.in = make(chan int64, sc.ICap)
	s.f = NewDynamicFanOut[int64](s.in)
	s.window.Store(sc.Window)

	var ready, wg sync.WaitGroup
	ready.Add(len(sc.Residents))
	wg.Add(len(sc.Residents))
	for ri := range sc.Residents {
		go s.resident(ri, &ready, &wg)
	}
	ready.Wait() // the residents are attached before the first item
	if !s.aborted() {
		go s.producer()
		wg.Add(sc.Cyclers)
		for ci := 0; ci < sc.Cyclers; ci++ {
			go s.cycler(ci, &wg)
		}
	}
	fin := make(chan struct{})
	go func() { wg.Wait(); close(fin) }()
	select {
	case <-fin:
	case <-time.After(dl):
		s.abandon(fmt.Sprintf("session deadline (%v): %d items pushed, %d attach/detach cycles, lead resident has received %d", dl, s.done.Load(), s.cycles.Load(), s.leadRecv.Load()))
		select {
		case <-fin:
		case <-time.After(2*s.bound + time.Second):
		}
	}
	s.abandon("") // stops whatever is left
	s.mu.Lock()
	res.Why = s.why
	res.Abandoned = s.why != ""
	res.Stalls = append([]c15FLStall{}, s.stalls...)
	recs := append([]c15FLRec{}, s.recs...)
	s.mu.Unlock()
	// residents first (they finish last)
	var a, b []c15FLRec
	for _, r := range recs {
		if r.Kind == "resident" {
			a = append(a, r)
		} else {
			b = append(b, r)
		}
		if r.ID > res.MaxID {
			res.MaxID = r.ID
		}
	}
	res.Records = append(a, b...)
	if res.Records == nil {
		res.Records = []c15FLRec{}
	}
	res.Pushed = s.done.Load()
	res.Cycles = s.cycles.Load()
	res.Ms = float64(time.Since(t0).Microseconds()) / 1000
	return res
}

func verifC15FanLong(t *testing.T) {
	var in c15FLIn
	mustReadJSON(t, &in)
	if in.GoMaxProcs > 0 {
		runtime.GOMAXPROCS(in.GoMaxProcs)
	}
	out := c15FLOut{GoMaxProcs: runtime.GOMAXPROCS(0)}
	for _, sc := range in.Scenarios {
		out.Scenarios = append(out.Scenarios, c15RunFanLong(sc))
	}
	mustWriteJSON(t, out)
}

// time-aged sessions: all scenarios of the input run concurrently (they mostly sleep)
func verifC15FanAged(t *testing.T) {
	var in c15FLIn
	mustReadJSON(t, &in)
	if in.GoMaxProcs > 0 {
		runtime.GOMAXPROCS(in.GoMaxProcs)
	}
	out := c15FLOut{GoMaxProcs: runtime.GOMAXPROCS(0), Scenarios: make([]c15FLScenarioOut, len(in.Scenarios))}
	var wg sync.WaitGroup
	for i := range in.Scenarios {
		wg.Add(1)
		go func(i int) {
			defer wg.Done()
			out.Scenarios[i] = c15RunFanLong(in.Scenarios[i])
		}(i)
	}
	wg.Wait()
	mustWriteJSON(t, out)
}

func init() {
	verifModes["c15fanlong"] = verifC15FanLong
	verifModes["c15fanaged"] = verifC15FanAged
}
