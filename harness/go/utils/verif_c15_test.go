//go:build verif

package utils

// C15 (fan-out half): stress-drives the real DynamicFanOut with tagged integer payloads (payload = stream index) and
// records, per consumer, what it received and the stream positions around its SpawnOutput / DespawnOutput calls.
// The recorded history is judged by the Coq monitor Run/TransportRun.v:fanout_accepts - nothing is judged here.

import (
	"encoding/json"
	"fmt"
	"math/rand"
	"os"
	"runtime"
	"sync"
	"sync/atomic"
	"testing"
	"time"
)

type c15Consumer struct {
	Kind      string `json:"kind"`       // fast | slow | stopped
	SpawnAt   int64  `json:"spawn_at"`   // spawn when that many items have been pushed (or the producer has finished)
	DespawnAt int64  `json:"despawn_at"` // fast/slow: despawn when that many items have been pushed (or the producer has finished)
	Limit     int    `json:"limit"`      // stopped: number of items read before it stops reading
	DelayUs   int    `json:"delay_us"`   // stopped: despawn that long after it stopped reading
	SlowUs    int    `json:"slow_us"`    // slow: maximal sleep between reads
	// DoubleDespawn: after DespawnOutput(id) has returned it is called once more with the same id (it must answer with its error and leave
	// no trace: the id is handed to the next consumer that attaches)
	DoubleDespawn bool `json:"double_despawn"`
}

type c15Scenario struct {
	Name       string        `json:"name"`
	Seed       int64         `json:"seed"`
	ICap       int           `json:"icap"`
	Items      int           `json:"items"`
	Jitter     int           `json:"jitter"` // 0 none, 1 gosched, 2 mixed sleeps
	Gate       int           `json:"gate"`   // the producer starts after that many SpawnOutput calls have returned
	BoundMs    int           `json:"bound_ms"`
	DeadlineMs int           `json:"deadline_ms"`
	Consumers  []c15Consumer `json:"consumers"`
}

type c15In struct {
	GoMaxProcs int           `json:"gomaxprocs"`
	Parallel   int           `json:"parallel"`
	Scenarios  []c15Scenario `json:"scenarios"`
}

type c15ConsumerOut struct {
	Kind            string  `json:"kind"`
	ID              int64   `json:"id"`
	SpawnCalled     bool    `json:"spawn_called"`
	SpawnReturned   bool    `json:"spawn_returned"`
	SpawnErr        string  `json:"spawn_err"`
	SCDone          int64   `json:"sc_done"`    // items whose push had completed when SpawnOutput was called
	SCMaxRecv       int64   `json:"sc_maxrecv"` // the highest item some consumer had already received when SpawnOutput was called (-1 = none)
	SRStarted       int64   `json:"sr_started"` // items whose push had been started when SpawnOutput returned
	DespawnCalled   bool    `json:"despawn_called"`
	DespawnReturned bool    `json:"despawn_returned"`
	DespawnErr      string  `json:"despawn_err"`
	DCDone          int64   `json:"dc_done"`
	DRStarted       int64   `json:"dr_started"`
	DespawnMs       float64 `json:"despawn_ms"`
	Received        []int64 `json:"received"`
	Drained         bool    `json:"drained"`     // read until the channel was closed
	ReaderDone      bool    `json:"reader_done"` // after DespawnOutput returned the reader saw the channel closed within the bound
	Panic           string  `json:"panic"`
}

type c15ScenarioOut struct {
	Name      string           `json:"name"`
	Pushed    int64            `json:"pushed"`
	Finished  bool             `json:"producer_finished"`
	Abandoned bool             `json:"abandoned"`
	Why       string           `json:"why"`
	Ms        float64          `json:"ms"`
	Consumers []c15ConsumerOut `json:"consumers"`
}

type c15Out struct {
	GoMaxProcs int              `json:"gomaxprocs"`
	Scenarios  []c15ScenarioOut `json:"scenarios"`
}

func c15Jitter(r *rand.Rand, mode int) {
	switch mode {
	case 0:
	case 1:
		if r.Intn(2) == 0 {
			runtime.Gosched()
		}
	default:
		switch r.Intn(6) {
		case 0, 1:
		case 2, 3:
			runtime.Gosched()
		case 4:
			time.Sleep(time.Duration(1+r.Intn(40)) * time.Microsecond)
		case 5:
			for i, n := 0, r.Intn(2000); i < n; i++ {
				_ = i * i
			}
		}
	}
}

func c15RunScenario(sc c15Scenario) (res c15ScenarioOut) {
	t0 := time.Now()
	res.Name = sc.Name
	bound := time.Duration(sc.BoundMs) * time.Millisecond
	if bound <= 0 {
		bound = 2 * time.Second
	}
	deadline := t0.Add(time.Duration(sc.DeadlineMs) * time.Millisecond)
	if sc.DeadlineMs <= 0 {
		deadline = t0.Add(10 * time.Second)
	}

	in := make(chan int64, sc.ICap)
	f := NewDynamicFanOut[int64](in)

	var started, done, spawned atomic.Int64
	// maxRecv: the highest item any consumer has taken out of its channel so far (-1 = none). An item that somebody has received has
	// been taken from the input stream, so a consumer whose SpawnOutput is CALLED afterwards is inserted behind it and must not get it.
	// idGate: in scenarios with a double despawn the pair "DespawnOutput(id); DespawnOutput(id) again" is atomic with respect to SpawnOutput calls
	// (otherwise the id may already belong to a consumer that attached in between, and the second call would legitimately remove THAT one)
	var idGate sync.Mutex
	gated := false
	for _, c := range sc.Consumers {
		if c.DoubleDespawn {
			gated = true
		}
	}
	var maxRecv atomic.Int64
	maxRecv.Store(-1)
	noteRecv := func(v int64) {
		for {
			old := maxRecv.Load()
			if v <= old || maxRecv.CompareAndSwap(old, v) {
				return
			}
		}
	}
	var finished atomic.Bool
	abort := make(chan struct{})
	var abortOnce sync.Once
	var whyMu sync.Mutex
	abandon := func(why string) {
		abortOnce.Do(func() {
			whyMu.Lock()
			res.Abandoned, res.Why = true, why
			whyMu.Unlock()
			close(abort)
		})
	}
	aborted := func() bool {
		select {
		case <-abort:
			return true
		default:
			return false
		}
	}

	// producer: the live input stream; payload = stream index
	go func() {
		r := rand.New(rand.NewSource(sc.Seed))
		for spawned.Load() < int64(sc.Gate) {
			if aborted() {
				return
			}
			time.Sleep(10 * time.Microsecond)
		}
		for x := int64(0); x < int64(sc.Items); x++ {
			c15Jitter(r, sc.Jitter)
			started.Add(1)
			select {
			case in <- x:
			case <-abort:
				return
			}
			done.Add(1)
		}
		finished.Store(true)
	}()

	// waits until `pos` items have been pushed or the producer has finished; false when the scenario is abandoned
	waitPos := func(r *rand.Rand, pos int64) bool {
		for done.Load() < pos && !finished.Load() {
			if aborted() {
				return false
			}
			if time.Now().After(deadline) {
				abandon(fmt.Sprintf("stream stalled at %d pushed items (waiting for %d)", done.Load(), pos))
				return false
			}
			if r.Intn(4) == 0 {
				time.Sleep(20 * time.Microsecond)
			} else {
				runtime.Gosched()
			}
		}
		return true
	}

	outs := make([]c15ConsumerOut, len(sc.Consumers))
	var wg sync.WaitGroup
	for ci := range sc.Consumers {
		wg.Add(1)
		go func(ci int) {
			defer wg.Done()
			c := sc.Consumers[ci]
			o := &outs[ci]
			o.Kind = c.Kind
			o.Received = []int64{}
			var mu sync.Mutex // guards recv / drained, which belong to the reader goroutine
			var recv []int64
			var drained bool
			defer func() { // snapshot: an abandoned reader may still be running
				mu.Lock()
				o.Received = append([]int64{}, recv...)
				o.Drained = drained
				mu.Unlock()
			}()
			r := rand.New(rand.NewSource(sc.Seed*1000 + int64(ci) + 1))
			defer func() {
				if p := recover(); p != nil {
					o.Panic = fmt.Sprint(p)
				}
			}()
			if !waitPos(r, c.SpawnAt) {
				return
			}
			c15Jitter(r, sc.Jitter)

			// ---- SpawnOutput (in a goroutine: it may be starved by a blocked broadcast)
			type spawnRes struct {
				id  int64
				ch  <-chan int64
				err error
				p   string
			}
			spc := make(chan spawnRes, 1)
			o.SpawnCalled = true
			o.SCMaxRecv = maxRecv.Load()
			o.SCDone = done.Load()
			go func() {
				var sr spawnRes
				defer func() {
					if p := recover(); p != nil {
						sr.p = fmt.Sprint(p)
					}
					spc <- sr
				}()
				if gated {
					idGate.Lock()
					defer idGate.Unlock()
				}
				sr.id, sr.ch, sr.err = f.SpawnOutput()
			}()
			var sr spawnRes
			select {
			case sr = <-spc:
				o.SRStarted = started.Load()
			case <-time.After(bound + time.Second):
				abandon(fmt.Sprintf("SpawnOutput of consumer %d did not return within %v", ci, bound+time.Second))
				return
			case <-abort:
				return
			}
			if sr.p != "" {
				o.Panic = "SpawnOutput: " + sr.p
				return
			}
			if sr.err != nil {
				o.SpawnErr = sr.err.Error()
				return
			}
			o.SpawnReturned = true
			o.ID = sr.id
			spawned.Add(1)
			ch := sr.ch

			// ---- reader
			stoppedReading := make(chan struct{})
			release := make(chan struct{})
			readerDone := make(chan struct{})
			go func() {
				defer close(readerDone)
				rr := rand.New(rand.NewSource(sc.Seed*1000 + int64(ci) + 500))
				n := 0
				if c.Kind == "stopped" {
					for n < c.Limit {
						select {
						case v, ok := <-ch:
							if !ok {
								mu.Lock()
								drained = true
								mu.Unlock()
								close(stoppedReading)
								return
							}
							noteRecv(v)
							mu.Lock()
							recv = append(recv, v)
							mu.Unlock()
							n++
						case <-time.After(30 * time.Millisecond): // nothing arrives any more: it stops reading here
							n = c.Limit
						case <-abort:
							close(stoppedReading)
							return
						}
					}
					close(stoppedReading)
					select { // has stopped reading; resumes (to collect what was buffered) only after DespawnOutput returned
					case <-release:
					case <-abort:
						return
					}
				}
				for {
					select {
					case v, ok := <-ch:
						if !ok {
							mu.Lock()
							drained = true
							mu.Unlock()
							return
						}
						noteRecv(v)
						mu.Lock()
						recv = append(recv, v)
						mu.Unlock()
						if c.Kind == "slow" && c.SlowUs > 0 {
							time.Sleep(time.Duration(rr.Intn(c.SlowUs)+1) * time.Microsecond)
						} else {
							c15Jitter(rr, sc.Jitter)
						}
					case <-abort:
						return
					}
				}
			}()

			// ---- when to despawn
			if c.Kind == "stopped" {
				select {
				case <-stoppedReading:
				case <-abort:
					return
				}
				time.Sleep(time.Duration(c.DelayUs) * time.Microsecond)
			} else if !waitPos(r, c.DespawnAt) {
				return
			}
			c15Jitter(r, sc.Jitter)

			// ---- DespawnOutput, bounded
			dsc := make(chan [2]string, 1)
			o.DespawnCalled = true
			o.DCDone = done.Load()
			td := time.Now()
			go func() {
				var e, p string
				defer func() {
					if x := recover(); x != nil {
						p = fmt.Sprint(x)
					}
					dsc <- [2]string{e, p}
				}()
				if c.DoubleDespawn {
					idGate.Lock()
					defer idGate.Unlock()
				}
				if err := f.DespawnOutput(sr.id); err != nil {
					e = err.Error()
				} else if c.DoubleDespawn {
					func() {
						defer func() { recover() }()
						f.DespawnOutput(sr.id) // the id is not registered any more: answers with its error, must leave no trace
					}()
				}
			}()
			select {
			case ep := <-dsc:
				o.DRStarted = started.Load()
				o.DespawnMs = float64(time.Since(td).Microseconds()) / 1000
				o.DespawnReturned = true
				o.DespawnErr = ep[0]

				if ep[1] != "" {
					o.Panic = "DespawnOutput: " + ep[1]
				}
			case <-time.After(bound):
				o.DespawnMs = float64(time.Since(td).Microseconds()) / 1000
				abandon(fmt.Sprintf("DespawnOutput(%d) of consumer %d (%s) did not return within %v", sr.id, ci, c.Kind, bound))
				return
			}
			close(release)
			select {
			case <-readerDone:
				o.ReaderDone = true
			case <-time.After(bound):
				abandon(fmt.Sprintf("channel of consumer %d was not closed within %v after DespawnOutput returned", ci, bound))
			case <-abort:
			}
		}(ci)
	}
	wg.Wait()

	// let the stream finish (nobody is attached any more, the fan-out just drops items) so that `pushed` is final
	if !aborted() {
		r := rand.New(rand.NewSource(sc.Seed + 7))
		waitPos(r, int64(sc.Items))
	}
	res.Finished = finished.Load()
	res.Pushed = done.Load()
	abandon("") // stop whatever is left (producer blocked on an abandoned instance)
	if res.Why == "" {
		res.Abandoned = false
	}
	res.Consumers = outs
	res.Ms = float64(time.Since(t0).Microseconds()) / 1000
	return res
}

func verifC15(t *testing.T) {
	var in c15In
	mustReadJSON(t, &in)
	if in.GoMaxProcs > 0 {
		runtime.GOMAXPROCS(in.GoMaxProcs)
	}
	par := in.Parallel
	if par <= 0 {
		par = 1
	}
	out := c15Out{GoMaxProcs: runtime.GOMAXPROCS(0), Scenarios: make([]c15ScenarioOut, len(in.Scenarios))}
	sem := make(chan struct{}, par)
	var wg sync.WaitGroup
	for i := range in.Scenarios {
		wg.Add(1)
		sem <- struct{}{}
		go func(i int) {
			defer wg.Done()
			defer func() { <-sem }()
			out.Scenarios[i] = c15RunScenario(in.Scenarios[i])
		}(i)
	}
	wg.Wait()
	mustWriteJSON(t, out)
}

func mustReadJSON(t *testing.T, v interface{}) {
	data, err := os.ReadFile(os.Getenv("VERIF_IN"))
	if err != nil {
		t.Fatalf("verif: cannot read input: %v", err)
	}
	if err := json.Unmarshal(data, v); err != nil {
		t.Fatalf("verif: bad input: %v", err)
	}
}

func mustWriteJSON(t *testing.T, v interface{}) {
	data, err := json.Marshal(v)
	if err != nil {
		t.Fatalf("verif: cannot encode output: %v", err)
	}
	if err := os.WriteFile(os.Getenv("VERIF_OUT"), data, 0o644); err != nil {
		t.Fatalf("verif: cannot write output: %v", err)
	}
}

var verifModes = map[string]func(*testing.T){"c15": verifC15}

func TestVerif(t *testing.T) {
	if fn, ok := verifModes[os.Getenv("VERIF_MODE")]; ok {
		fn(t)
		return
	}
	t.Skip("no VERIF_MODE")
}
