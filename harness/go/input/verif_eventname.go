//go:build verif

package input

// NewDeviceInfoForVerif builds a DeviceInfo that reports the given event-node name ("event3"): the field is
// unexported and handleOpenrgb matches the OpenRGB controller's hidraw device against Handler.DeviceInfo.Event().
// Overlay-only file (build tag verif); never part of a normal build.
func NewDeviceInfoForVerif(name, event string) DeviceInfo {
	return DeviceInfo{Name: name, eventName: event}
}
