//go:build verif

package input

import (
	"encoding/json"
	"fmt"
	"os"
	"strconv"
	"testing"

	"github.com/holoplot/go-evdev"
)

// C20: the real Normalize / HandlerType on synthetic handler lists.
// A handler is (id, phys bytes, capability type numbers).  The id goes into DeviceInfo.Name (decimal) and is
// read back from Device.Handlers[i].DeviceInfo.Name; eventName is empty or names a node that does not exist, so
// evdev.Open fails and the handlers are grouped without touching /dev/input. Event names and hardware ids come
// from small pools, so one process sees the same (node, hardware id) with different capabilities (re-plug).

type c20Handler struct {
	ID   int   `json:"id"`
	Phys []int `json:"phys"`
	Caps []int `json:"caps"`
	Ev   int   `json:"ev"` // 0 = empty event name; n > 0 = "event<9000+n>" (a node that does not exist: evdev.Open fails)
	HW   int   `json:"hw"` // 0 = hardware id derived from ID (unique); n > 0 = shared hardware id n (interfaces of one composite device)
	// fields of DeviceInfo the grouping and the types must not depend on: the bus of the hardware id (0 = USB 3; 5 = Bluetooth, 6 = virtual, 0x11 = i8042 ...),
	// the unique identification string, the sysfs path and the property list
	Bus   int    `json:"bus"`
	Uniq  string `json:"uniq"`
	Sysfs string `json:"sysfs"`
	Props []int  `json:"props"`
}

type c20Case struct {
	H []c20Handler `json:"h"`
}

type c20In struct {
	Cases  []c20Case `json:"cases"`
	Repeat int       `json:"repeat"` // Normalize is called this many times per case (map iteration order varies)
	Sweep  [][]int   `json:"sweep"`  // capability lists for HandlerType alone
}

type c20Dev struct {
	Phys  []int `json:"phys"`
	IDs   []int `json:"ids"`
	DType int   `json:"dtype"`
}

type c20Res struct {
	Runs  [][]c20Dev `json:"runs"`
	HTs   []int      `json:"hts"`
	Panic string     `json:"panic"`
}

type c20Consts struct {
	EV []int `json:"ev"`
	HT []int `json:"ht"`
	DT []int `json:"dt"`
}

type c20Out struct {
	Consts  c20Consts `json:"consts"`
	Results []c20Res  `json:"results"`
	Sweep   []int     `json:"sweep"` // HandlerType per sweep entry, -1 = panic
}

func c20Bytes(s string) []int {
	r := make([]int, len(s))
	for i := 0; i < len(s); i++ {
		r[i] = int(s[i])
	}
	return r
}

func c20Info(h c20Handler) DeviceInfo {
	b := make([]byte, len(h.Phys))
	for i, v := range h.Phys {
		b[i] = byte(v)
	}
	var caps []evdev.EvType
	if h.Caps != nil {
		caps = make([]evdev.EvType, len(h.Caps))
		for i, v := range h.Caps {
			caps[i] = evdev.EvType(v)
		}
	}
	di := DeviceInfo{
		ID:           InputID{Bus: 3, Vendor: uint16(h.ID), Product: uint16(h.ID >> 16), Version: 1},
		Name:         strconv.Itoa(h.ID),
		Phys:         string(b),
		CapableTypes: caps,
	}
	if h.HW > 0 {
		di.ID = InputID{Bus: 3, Vendor: 0x1234, Product: uint16(h.HW), Version: 0x111}
	}
	if h.Ev > 0 {
		di.eventName = "event" + strconv.Itoa(9000+h.Ev)
	}
	if h.Bus > 0 {
		di.ID.Bus = uint16(h.Bus)
	}
	di.Uniq, di.Sysfs = h.Uniq, h.Sysfs
	for _, p := range h.Props {
		di.Properties = append(di.Properties, evdev.EvProp(p))
	}
	return di
}

func c20One(c c20Case, repeat int) (res c20Res) {
	res = c20Res{Runs: [][]c20Dev{}, HTs: []int{}}
	defer func() {
		if r := recover(); r != nil {
			res.Panic = fmt.Sprint(r)
		}
	}()
	infos := make([]DeviceInfo, len(c.H))
	for i, h := range c.H {
		infos[i] = c20Info(h)
	}
	for i := range infos {
		res.HTs = append(res.HTs, int(infos[i].HandlerType()))
	}
	// the results of ALL calls are inspected only after the last call - and after one more call on a small other input (a hot-plug round):
	// what Normalize returned must not change when it is called again
	var kept [][]Device
	for k := 0; k < repeat; k++ {
		// a fresh copy per call: Normalize must not depend on, or disturb, the caller's slice
		in := make([]DeviceInfo, len(infos))
		copy(in, infos)
		kept = append(kept, Normalize(in))
	}
	if len(infos) > 0 {
		Normalize([]DeviceInfo{{Name: "hotplug", Phys: "verif-hotplug-location", CapableTypes: infos[0].CapableTypes}})
	}
	for _, devs := range kept {
		run := make([]c20Dev, 0, len(devs))
		for _, d := range devs {
			od := c20Dev{Phys: c20Bytes(d.Phys), IDs: []int{}, DType: int(d.DeviceType)}
			for _, h := range d.Handlers {
				id, err := strconv.Atoi(h.DeviceInfo.Name)
				if err != nil {
					id = -1
				}
				od.IDs = append(od.IDs, id)
			}
			run = append(run, od)
		}
		res.Runs = append(res.Runs, run)
	}
	return res
}

func c20HT(caps []int) (ht int) {
	defer func() {
		if r := recover(); r != nil {
			ht = -1
		}
	}()
	di := c20Info(c20Handler{ID: 0, Caps: caps})
	return int(di.HandlerType())
}

func verifC20(t *testing.T) {
	var in c20In
	mustReadJSON(t, &in)
	if in.Repeat < 1 {
		in.Repeat = 1
	}
	out := c20Out{
		Consts: c20Consts{
			EV: []int{int(evdev.EV_SYN), int(evdev.EV_KEY), int(evdev.EV_REL), int(evdev.EV_ABS), int(evdev.EV_MSC),
				int(evdev.EV_SW), int(evdev.EV_LED), int(evdev.EV_SND), int(evdev.EV_REP), int(evdev.EV_FF)},
			HT: []int{int(DI_TYPE_UNKNOWN), int(DI_TYPE_STD_KBD), int(DI_TYPE_NKRO_KBD), int(DI_TYPE_MULTIMEDIA),
				int(DI_TYPE_SYSTEM), int(DI_TYPE_MOUSE), int(DI_TYPE_JOYSTICK)},
			DT: []int{int(UnknownDevice), int(KeyboardDevice), int(MouseDevice), int(JoystickDevice)},
		},
		Results: make([]c20Res, 0, len(in.Cases)),
		Sweep:   make([]int, 0, len(in.Sweep)),
	}
	for _, c := range in.Cases {
		out.Results = append(out.Results, c20One(c, in.Repeat))
	}
	for _, caps := range in.Sweep {
		out.Sweep = append(out.Sweep, c20HT(caps))
	}
	mustWriteJSON(t, &out)
}

var verifModes = map[string]func(*testing.T){"c20": verifC20}

func mustReadJSON(t *testing.T, v interface{}) {
	data, err := os.ReadFile(os.Getenv("VERIF_IN"))
	if err != nil {
		t.Fatalf("verif: cannot read input: %v", err)
	}
	if err := json.Unmarshal(data, v); err != nil {
		t.Fatalf("verif: bad input: %v", err)
	}
}

func mustWriteJSON(t *testing.T, v interface{}) {
	data, err := json.Marshal(v)
	if err != nil {
		t.Fatalf("verif: cannot encode output: %v", err)
	}
	if err := os.WriteFile(os.Getenv("VERIF_OUT"), data, 0o644); err != nil {
		t.Fatalf("verif: cannot write output: %v", err)
	}
}

func TestVerif(t *testing.T) {
	if fn, ok := verifModes[os.Getenv("VERIF_MODE")]; ok {
		fn(t)
		return
	}
	t.Skip("no VERIF_MODE")
}
