//go:build verif

package device

import (
	"encoding/json"
	"fmt"
	"math"
	"os"
	"strconv"
	"syscall"
	"testing"
	"time"

	"github.com/gethiox/HIDI/internal/pkg/input"
	"github.com/gethiox/HIDI/internal/pkg/logger"
	"github.com/gethiox/HIDI/internal/pkg/midi"
	"github.com/gethiox/HIDI/internal/pkg/midi/device/config"
	"github.com/holoplot/go-evdev"
)

// ---- JSON case format shared with the python generators

type jKey struct {
	Sub  string `json:"sub"`
	Code int    `json:"code"`
	Note int    `json:"note"`
	Off  int    `json:"off"`
}
type jAnalog struct {
	Sub     string `json:"sub"`
	Code    int    `json:"code"`
	Type    string `json:"type"`
	CC      int    `json:"cc"`
	CCNeg   int    `json:"ccneg"`
	Note    int    `json:"note"`
	NoteNeg int    `json:"noteneg"`
	Off     int    `json:"off"`
	OffNeg  int    `json:"offneg"`
	Act     string `json:"act"`
	ActNeg  string `json:"actneg"`
	Flip    bool   `json:"flip"`
	Bidi    bool   `json:"bidi"`
	Dzc     bool   `json:"dzc"`
}
type jDz struct {
	Sub  string `json:"sub"`
	Code int    `json:"code"`
	Bits string `json:"bits"` // float64 bit pattern, decimal
}
type jMapping struct {
	Name   string    `json:"name"`
	Midi   []jKey    `json:"midi"`
	Analog []jAnalog `json:"analog"`
	Dz     []jDz     `json:"dz"`
	DefDz  []jDz     `json:"defdz"`
	Subs   []string  `json:"subs"` // sub-handlers that get (possibly empty) analog maps
}
type jAction struct {
	Code   int    `json:"code"`
	Action string `json:"action"`
}
type jCfg struct {
	Mappings []jMapping `json:"mappings"`
	Actions  []jAction  `json:"actions"`
	ExitSeq  []int      `json:"exitseq"`
	CMode    string     `json:"cmode"`
	Octave   int        `json:"octave"`
	Semitone int        `json:"semitone"`
	Channel  int        `json:"channel"`
	Mapping  int        `json:"mapping"`
	Velocity int        `json:"velocity"`
	Colors   []int      `json:"colors"` // white black c unavailable other active active_external (0xRRGGBB)
}
type jAbs struct {
	Code int   `json:"code"`
	Min  int32 `json:"min"`
	Max  int32 `json:"max"`
}
type jEvent struct {
	T     string `json:"t"` // "k" key, "a" abs, "m" midi-in, "o" an event of the evdev type Ty (EV_MSC, EV_REL, EV_LED ...: not interpreted by the device)
	Ty    int    `json:"ty"`
	Sub   string `json:"sub"`
	Code  int    `json:"code"`
	Val   int32  `json:"val"`
	Bytes []int  `json:"bytes"`
}
type jCase struct {
	Toml   string   `json:"toml"` // when set: the configuration is what the real ParseData makes of this text
	Cfg    jCfg     `json:"cfg"`
	Abs    []jAbs   `json:"abs"`
	Events []jEvent `json:"events"`
	Logs   bool     `json:"logs"` // run the device with logging enabled as in production (NewDevice noLogs = false); the log channel is drained
}
type jState struct {
	Octave   int    `json:"octave"`
	Semitone int    `json:"semitone"`
	Channel  int    `json:"channel"`
	Notes    int    `json:"notes"`
	Mapping  string `json:"mapping"`
}
type jStep struct {
	Midi  [][]int `json:"midi"`
	Sigs  int     `json:"sigs"`
	State jState  `json:"state"`
}
type jResult struct {
	Steps    []jStep `json:"steps"`
	Cleanup  [][]int `json:"cleanup"`
	Panic    string  `json:"panic"`
	PanicAt  int     `json:"panic_at"`
	Hang     bool    `json:"hang"`
	Rejected string  `json:"rejected"` // ParseData error for toml-sourced cases
}

func bitsToFloat(s string) float64 {
	u, err := strconv.ParseUint(s, 10, 64)
	if err != nil {
		panic(err)
	}
	return math.Float64frombits(u)
}

func color(v int) (c struct{ Red, Green, Blue byte }) {
	c.Red, c.Green, c.Blue = byte(v>>16), byte(v>>8), byte(v)
	return
}

func buildConfig(j jCfg) config.Config {
	cfg := config.Config{
		ActionMapping: map[evdev.EvCode]config.Action{},
		CollisionMode: config.CollisionMode(j.CMode),
		Defaults: config.Defaults{Octave: j.Octave, Semitone: j.Semitone, Channel: j.Channel,
			Mapping: j.Mapping, Velocity: j.Velocity},
	}
	for _, m := range j.Mappings {
		km := config.KeyMapping{
			Name:            m.Name,
			Midi:            map[string]map[evdev.EvCode]config.Key{},
			Analog:          map[string]map[evdev.EvCode]config.Analog{},
			Deadzones:       map[string]map[evdev.EvCode]float64{},
			DefaultDeadzone: map[string]float64{},
		}
		for _, k := range m.Midi {
			if km.Midi[k.Sub] == nil {
				km.Midi[k.Sub] = map[evdev.EvCode]config.Key{}
			}
			km.Midi[k.Sub][evdev.EvCode(k.Code)] = config.Key{Note: byte(k.Note), ChannelOffset: byte(k.Off)}
		}
		for _, s := range m.Subs {
			km.Analog[s] = map[evdev.EvCode]config.Analog{}
			km.Deadzones[s] = map[evdev.EvCode]float64{}
		}
		for _, a := range m.Analog {
			if km.Analog[a.Sub] == nil {
				km.Analog[a.Sub] = map[evdev.EvCode]config.Analog{}
			}
			km.Analog[a.Sub][evdev.EvCode(a.Code)] = config.Analog{
				MappingType: config.MappingType(a.Type), CC: byte(a.CC), CCNeg: byte(a.CCNeg),
				Note: byte(a.Note), NoteNeg: byte(a.NoteNeg), ChannelOffset: byte(a.Off), ChannelOffsetNeg: byte(a.OffNeg),
				Action: config.Action(a.Act), ActionNeg: config.Action(a.ActNeg),
				FlipAxis: a.Flip, Bidirectional: a.Bidi, DeadzoneAtCenter: a.Dzc,
			}
		}
		for _, d := range m.Dz {
			if km.Deadzones[d.Sub] == nil {
				km.Deadzones[d.Sub] = map[evdev.EvCode]float64{}
			}
			km.Deadzones[d.Sub][evdev.EvCode(d.Code)] = bitsToFloat(d.Bits)
		}
		for _, d := range m.DefDz {
			km.DefaultDeadzone[d.Sub] = bitsToFloat(d.Bits)
		}
		cfg.KeyMappings = append(cfg.KeyMappings, km)
	}
	for _, a := range j.Actions {
		cfg.ActionMapping[evdev.EvCode(a.Code)] = config.Action(a.Action)
	}
	for _, k := range j.ExitSeq {
		cfg.ExitSequence = append(cfg.ExitSequence, evdev.EvCode(k))
	}
	if len(j.Colors) == 7 {
		c := func(i int) (r struct{ Red, Green, Blue byte }) { return color(j.Colors[i]) }
		cfg.OpenRGB.Colors.White = c(0)
		cfg.OpenRGB.Colors.Black = c(1)
		cfg.OpenRGB.Colors.C = c(2)
		cfg.OpenRGB.Colors.Unavailable = c(3)
		cfg.OpenRGB.Colors.Other = c(4)
		cfg.OpenRGB.Colors.Active = c(5)
		cfg.OpenRGB.Colors.ActiveExternal = c(6)
	}
	return cfg
}

func buildInputDevice(abs []jAbs) input.Device {
	infos := map[evdev.EvCode]evdev.AbsInfo{}
	for _, a := range abs {
		infos[evdev.EvCode(a.Code)] = evdev.AbsInfo{Minimum: a.Min, Maximum: a.Max}
	}
	return input.Device{
		Name:       "verif",
		DeviceType: input.KeyboardDevice,
		AbsInfos:   map[string]map[evdev.EvCode]evdev.AbsInfo{"": infos},
	}
}

func mkEvent(e jEvent) *input.InputEvent {
	ty := evdev.EV_KEY
	if e.T == "a" {
		ty = evdev.EV_ABS
	}
	if e.T == "o" {
		ty = e.Ty
	}
	return &input.InputEvent{
		Source: input.Handler{Name: e.Sub, DeviceInfo: input.DeviceInfo{Name: "verif"}},
		Event:  evdev.InputEvent{Time: syscall.Timeval{}, Type: evdev.EvType(ty), Code: evdev.EvCode(e.Code), Value: e.Val},
	}
}

func synEvent() *input.InputEvent {
	return &input.InputEvent{
		Source: input.Handler{Name: "", DeviceInfo: input.DeviceInfo{Name: "verif"}},
		Event:  evdev.InputEvent{Type: evdev.EV_SYN},
	}
}

func drainMidi(ch chan midi.Event) [][]int {
	out := [][]int{}
	for {
		select {
		case e := <-ch:
			b := make([]int, len(e))
			for i, x := range e {
				b[i] = int(x)
			}
			out = append(out, b)
		default:
			return out
		}
	}
}

func drainSigs(ch chan os.Signal) int {
	n := 0
	for {
		select {
		case <-ch:
			n++
		default:
			return n
		}
	}
}

var logDrainStarted bool

func startLogDrain() {
	if logDrainStarted {
		return
	}
	logDrainStarted = true
	go func() {
		for range logger.Messages {
		}
	}()
}

// runCase drives one real Device through the events, one at a time.
func runCase(c jCase) jResult {
	startLogDrain()
	res := jResult{Steps: []jStep{}, Cleanup: [][]int{}, PanicAt: -1}
	cfg := buildConfig(c.Cfg)
	if c.Toml != "" {
		var perr error
		func() {
			defer func() {
				if r := recover(); r != nil {
					perr = fmt.Errorf("ParseData panicked: %v", r)
				}
			}()
			cfg, perr = config.ParseData([]byte(c.Toml))
		}()
		if perr != nil {
			res.Rejected = perr.Error()
			return res
		}
	}
	midiOut := make(chan midi.Event, 8192)
	midiIn := make(chan midi.Event)
	sigs := make(chan os.Signal, 64)
	in := make(chan *input.InputEvent)
	var d Device
	created := make(chan string, 1)
	func() {
		defer func() {
			if r := recover(); r != nil {
				created <- fmt.Sprint(r)
				return
			}
			created <- ""
		}()
		d = NewDevice(buildInputDevice(c.Abs), config.DeviceConfig{ConfigFile: "verif", ConfigType: "user", Config: cfg},
			midiOut, midiIn, !c.Logs, 0, sigs)
	}()
	if msg := <-created; msg != "" {
		res.Panic = "NewDevice: " + msg
		return res
	}
	done := make(chan string, 1)
	go func() {
		defer func() {
			if r := recover(); r != nil {
				done <- fmt.Sprint(r)
				return
			}
			done <- ""
		}()
		d.ProcessEvents(in)
	}()
	send := func(e *input.InputEvent) (ok bool) {
		select {
		case in <- e:
			return true
		case msg := <-done:
			res.Panic = msg
			return false
		case <-time.After(5 * time.Second):
			res.Hang = true
			return false
		}
	}
	snapshot := func() jState {
		st := d.State()
		return jState{int(st.Octave), int(st.Semitone), int(st.Channel), st.Notes, st.Mapping}
	}
	for i, e := range c.Events {
		if e.T == "m" {
			b := make(midi.Event, len(e.Bytes))
			for k, x := range e.Bytes {
				b[k] = byte(x)
			}
			select {
			case midiIn <- b:
			case <-time.After(2 * time.Second):
				res.Hang = true
			}
			// the MIDI-in goroutine has taken the event; a second hand-off of an ignored message
			// guarantees the first one has been processed completely
			select {
			case midiIn <- midi.Event{0xF8}:
			case <-time.After(2 * time.Second):
				res.Hang = true
			}
			res.Steps = append(res.Steps, jStep{Midi: drainMidi(midiOut), Sigs: drainSigs(sigs), State: snapshot()})
			continue
		}
		if !send(mkEvent(e)) || !send(synEvent()) {
			res.PanicAt = i
			res.Steps = append(res.Steps, jStep{Midi: drainMidi(midiOut), Sigs: drainSigs(sigs)})
			return res
		}
		res.Steps = append(res.Steps, jStep{Midi: drainMidi(midiOut), Sigs: drainSigs(sigs), State: snapshot()})
	}
	close(in)
	select {
	case msg := <-done:
		res.Panic = msg
		if msg != "" {
			res.PanicAt = len(c.Events)
		}
	case <-time.After(10 * time.Second):
		res.Hang = true
	}
	res.Cleanup = drainMidi(midiOut)
	return res
}

func verifDevice(t *testing.T) {
	var in struct {
		Cases []jCase `json:"cases"`
	}
	mustReadJSON(t, &in)
	out := struct {
		Results []jResult `json:"results"`
	}{Results: make([]jResult, len(in.Cases))}
	// cases are independent devices; run a few in parallel
	type job struct{ i int }
	jobs := make(chan int, len(in.Cases))
	for i := range in.Cases {
		jobs <- i
	}
	close(jobs)
	workers := 8
	donech := make(chan bool, workers)
	for w := 0; w < workers; w++ {
		go func() {
			for i := range jobs {
				out.Results[i] = runCase(in.Cases[i])
			}
			donech <- true
		}()
	}
	for w := 0; w < workers; w++ {
		<-donech
	}
	mustWriteJSON(t, &out)
}

func mustReadJSON(t *testing.T, v interface{}) {
	data, err := os.ReadFile(os.Getenv("VERIF_IN"))
	if err != nil {
		t.Fatalf("verif: cannot read input: %v", err)
	}
	if err := json.Unmarshal(data, v); err != nil {
		t.Fatalf("verif: bad input: %v", err)
	}
}

func mustWriteJSON(t *testing.T, v interface{}) {
	data, err := json.Marshal(v)
	if err != nil {
		t.Fatalf("verif: cannot encode output: %v", err)
	}
	if err := os.WriteFile(os.Getenv("VERIF_OUT"), data, 0o644); err != nil {
		t.Fatalf("verif: cannot write output: %v", err)
	}
}

var verifModes = map[string]func(*testing.T){"device": verifDevice}

func TestVerif(t *testing.T) {
	if fn, ok := verifModes[os.Getenv("VERIF_MODE")]; ok {
		fn(t)
		return
	}
	t.Skip("no VERIF_MODE")
}
