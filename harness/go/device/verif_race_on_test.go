//go:build verif && race

package device

const raceBuild = true
