//go:build verif

package device

// C16: whole lifecycles of 1-8 real Devices running concurrently: real LED loops against fake OpenRGB servers (or no
// server at all), MIDI input streaming from a separate goroutine, notes held, and the event stream closed at a given
// offset after the last event (the python side draws the offsets at random over more than one 10 ms LED cycle).
// Recorded per device: per-event MIDI output and State() (stepping with the EV_SYN sentinel: a receive on the unbuffered
// input channel happens before the completion of the corresponding send, so State() is ordered after the processing of
// the event also for the race detector), clean-up output, time from close to the return of ProcessEvents; per scenario:
// the goroutine dump 300 ms after the last return, filtered to goroutines running non-harness code of this package.
//
// Between the last event and close() the feeder goroutine deliberately synchronises with nothing (no mutex of the device,
// no access to the fake server): a synchronisation chain LED goroutine -> harness -> ProcessEvents would hide from the
// race detector exactly the unsynchronised accesses the property is about.  The binary is built with and without -race;
// race reports go to GORACE's log_path, whose size is sampled after every scenario so that a report is attributed to
// its scenario.

import (
	"fmt"
	"net"
	"os"
	"regexp"
	"runtime"
	"strings"
	"sync"
	"sync/atomic"
	"testing"
	"time"

	"github.com/gethiox/HIDI/internal/pkg/input"
	"github.com/gethiox/HIDI/internal/pkg/midi"
	"github.com/gethiox/HIDI/internal/pkg/midi/device/config"
)

type jLifeDevice struct {
	jCase
	Leds       []string `json:"leds"`
	CloseUs    int      `json:"close_us"`    // delay between the last event and close(in)
	EarlyMs    int      `json:"early_ms"`    // >= 0: do not wait for the LED connection; start feeding after this many ms
	NoServer   bool     `json:"no_server"`   // nothing listens on the OpenRGB port
	MidiStream bool     `json:"midi_stream"` // MIDI input keeps arriving until the device has returned
	// ServerDiesMs > 0: once the LED loop is refreshing, the OpenRGB server dies (listener and connection closed) and the device
	// stays connected for this many ms before its events are fed: whatever the LED loop does about the failing requests, key
	// events must still be processed and the device must still terminate promptly
	ServerDiesMs int `json:"server_dies_ms"`
	// SlowMs > 0: the OpenRGB server answers the controller queries (count, data) this many ms late; together with EarlyMs the event stream
	// ends while such a query is in flight
	SlowMs int `json:"slow_ms"`
	// StallMs > 0 (with PadLeds thousands of further LEDs, so that one frame is larger than the socket buffers): after the last event the
	// OpenRGB server stops reading for this many ms; CloseUs later the stream ends - while the LED loop sits inside a frame, blocked in its write
	StallMs int `json:"stall_ms"`
	PadLeds int `json:"pad_leds"`
}

type jLifeScenario struct {
	Devices []jLifeDevice `json:"devices"`
	// ShareCfg: every device of the scenario is built from ONE config.DeviceConfig value (the configuration of device 0), the way the
	// manager hands the entry FindConfig returned - e.g. the default gamepad configuration - to every device that resolves to it: the
	// copies share their maps, and no device's mutex protects them
	ShareCfg bool `json:"share_cfg"`
}

type jLifeDevResult struct {
	Steps     []jStep  `json:"steps"`
	Cleanup   [][]int  `json:"cleanup"`
	Returned  bool     `json:"returned"`
	ReturnMs  float64  `json:"return_ms"`
	Panic     string   `json:"panic"`
	PanicAt   int      `json:"panic_at"`
	Hang      bool     `json:"hang"`
	Connected bool     `json:"connected"`
	Frames    int      `json:"frames"`
	FinalRed  bool     `json:"final_red"`
	MidiSent  int      `json:"midi_in_sent"`
	Err       string   `json:"err"`
	SrvErrs   []string `json:"server_errors"`
}

type jLifeResult struct {
	Devices    []jLifeDevResult `json:"devices"`
	Leftover   []string         `json:"leftover"` // goroutines still running code of the device package 300 ms after the last return
	Goroutines int              `json:"goroutines"`
	RaceLogEnd int64            `json:"race_log_end"` // size of the race detector's log after this scenario
	WallMs     float64          `json:"wall_ms"`
	Skipped    bool             `json:"skipped"` // not run: two earlier scenarios of this process hung
}

func freePort() int {
	ln, err := net.Listen("tcp4", "127.0.0.1:0")
	if err != nil {
		return 1
	}
	p := ln.Addr().(*net.TCPAddr).Port
	ln.Close()
	return p
}

func runLifeDevice(c jLifeDevice, shared *config.DeviceConfig) (res jLifeDevResult) {
	res = jLifeDevResult{Steps: []jStep{}, Cleanup: [][]int{}, PanicAt: -1, SrvErrs: []string{}}
	var srv *fakeORGB
	port := 0
	if c.NoServer {
		port = freePort()
	} else {
		var err error
		names := append(append([]string{}, c.Leds...), verifStampLed)
		for i := 0; i < c.PadLeds; i++ {
			names = append(names, fmt.Sprintf("Pad %d", i))
		}
		srv, err = startFakeORGB(names, "Verif Keyboard")
		if err != nil {
			res.Err = "fake OpenRGB server: " + err.Error()
			return
		}
		defer srv.close()
		srv.delay = time.Duration(c.SlowMs) * time.Millisecond
		atomic.StoreInt64(&srv.stallFor, int64(time.Duration(c.StallMs)*time.Millisecond))
		port = srv.port
	}
	devCfg := config.DeviceConfig{ConfigFile: "verif", ConfigType: "user"}
	if shared != nil {
		devCfg = *shared
	} else {
		devCfg.Config = buildConfig(c.Cfg)
	}
	midiOut := make(chan midi.Event, 16384)
	midiIn := make(chan midi.Event)
	sigs := make(chan os.Signal, 64)
	in := make(chan *input.InputEvent)
	d := NewDevice(buildLedInputDevice(c.Abs), devCfg, midiOut, midiIn, true, port, sigs)
	done := make(chan string, 1)
	go func() {
		defer func() {
			if r := recover(); r != nil {
				done <- fmt.Sprint(r)
				return
			}
			done <- ""
		}()
		d.ProcessEvents(in)
	}()
	// MIDI input streaming until told to stop
	stopMidi := make(chan struct{})
	var midiWg sync.WaitGroup
	sent := 0
	if c.MidiStream {
		midiWg.Add(1)
		go func() {
			defer midiWg.Done()
			for i := 0; ; i++ {
				note := byte(36 + (i*7)%60)
				ch := byte((i / 3) % 16)
				var m midi.Event
				switch i % 4 {
				case 0, 1:
					m = midi.Event{0x90 | ch, note, 100}
				case 2:
					m = midi.Event{0x80 | ch, note, 0}
				default:
					m = midi.Event{0x90 | ch, note, 0}
				}
				select {
				case midiIn <- m:
					sent++
				case <-stopMidi:
					return
				}
				if i%4 == 3 { // a few thousand messages per second and device; bursts of four back to back
					time.Sleep(300 * time.Microsecond)
				}
			}
		}()
	}
	if c.EarlyMs >= 0 {
		time.Sleep(time.Duration(c.EarlyMs) * time.Millisecond)
	} else if srv != nil {
		res.Connected = srv.waitFrame(0, func(*orgbFrame) bool { return true }, 9*time.Second) != nil
		if !res.Connected {
			res.Err = "no LED frame within 9 s of starting ProcessEvents"
		}
		if res.Connected && c.ServerDiesMs > 0 {
			srv.kill()
			time.Sleep(time.Duration(c.ServerDiesMs) * time.Millisecond)
		}
	}
	send := func(e *input.InputEvent) bool {
		select {
		case in <- e:
			return true
		case msg := <-done:
			res.Panic, res.Returned = msg, true
			return false
		case <-time.After(5 * time.Second):
			res.Hang = true
			return false
		}
	}
	aborted := false
	for i, e := range c.Events {
		// pacing: an autorepeat event (value 2, ignored by the device) of key code 0 stands for "the stream is quiet for 25 ms here"
		// (two LED refresh cycles), so that the NEXT event is processed right after LED frames with no event in between
		if e.T == "k" && e.Val == 2 && e.Code == 0 {
			if e.Sub == "verif-pause-1s" { // ageing: a full second of silence (periodic timers of 1 / 5 / 10 s fire during such sessions)
				time.Sleep(time.Second)
			} else {
				time.Sleep(25 * time.Millisecond)
			}
		}
		if !send(mkEvent(e)) || !send(synEvent()) {
			res.PanicAt = i
			aborted = true
			break
		}
		st := d.State()
		res.Steps = append(res.Steps, jStep{Midi: drainMidi(midiOut), Sigs: drainSigs(sigs),
			State: jState{int(st.Octave), int(st.Semitone), int(st.Channel), st.Notes, st.Mapping}})
	}
	if !aborted {
		// no synchronisation with the device or the server from here to close() (the stall flag is an edge harness -> server only)
		if srv != nil && c.StallMs > 0 {
			atomic.StoreInt32(&srv.stall, 1)
		}
		if c.CloseUs > 0 {
			time.Sleep(time.Duration(c.CloseUs) * time.Microsecond)
		}
		close(in)
		tc := time.Now()
		select {
		case msg := <-done:
			res.Returned = true
			res.ReturnMs = float64(time.Since(tc).Microseconds()) / 1000
			res.Panic = msg
			if msg != "" {
				res.PanicAt = len(c.Events)
			}
		case <-time.After(8 * time.Second):
			res.Hang = true
		}
	}
	close(stopMidi)
	midiWg.Wait()
	res.MidiSent = sent
	res.Cleanup = drainMidi(midiOut)
	if srv != nil {
		if res.Returned && res.Connected {
			n, _, _, _ := srv.snapshot()
			from := n - 8
			if from < 0 {
				from = 0
			}
			res.FinalRed = srv.waitFrame(from, func(f *orgbFrame) bool {
				for _, c := range f.Colors {
					if c != 0xff0000 {
						return false
					}
				}
				return true
			}, time.Duration(500+4*c.StallMs)*time.Millisecond) != nil
		}
		res.Frames, _, _, res.SrvErrs = srv.snapshot()
		if res.Frames > 0 {
			res.Connected = true
		}
	}
	return
}

var goroutineHeader = regexp.MustCompile(`^goroutine \d+ \[`)
var deviceFile = regexp.MustCompile(`/internal/pkg/midi/device/([A-Za-z0-9_]+\.go):\d+`)

// leftoverGoroutines: goroutines with a frame in a non-harness source file of this package.
func leftoverGoroutines() (left []string, total int) {
	buf := make([]byte, 1<<22)
	n := runtime.Stack(buf, true)
	for _, g := range strings.Split(string(buf[:n]), "\n\n") {
		if !goroutineHeader.MatchString(g) {
			continue
		}
		total++
		for _, m := range deviceFile.FindAllStringSubmatch(g, -1) {
			if !strings.HasPrefix(m[1], "verif_") {
				if len(g) > 1500 {
					g = g[:1500]
				}
				left = append(left, g)
				break
			}
		}
	}
	return
}

func runLifeScenario(sc jLifeScenario, raceLog string) (res jLifeResult) {
	startLogDrain()
	t0 := time.Now()
	res.Devices = make([]jLifeDevResult, len(sc.Devices))
	var wg sync.WaitGroup
	var shared *config.DeviceConfig
	if sc.ShareCfg && len(sc.Devices) > 0 {
		shared = &config.DeviceConfig{ConfigFile: "verif", ConfigType: "user", Config: buildConfig(sc.Devices[0].Cfg)}
	}
	for i := range sc.Devices {
		wg.Add(1)
		go func(i int) {
			defer wg.Done()
			res.Devices[i] = runLifeDevice(sc.Devices[i], shared)
		}(i)
	}
	wg.Wait()
	time.Sleep(300 * time.Millisecond)
	res.Leftover, res.Goroutines = leftoverGoroutines()
	if res.Leftover == nil {
		res.Leftover = []string{}
	}
	if raceLog != "" {
		if st, err := os.Stat(fmt.Sprintf("%s.%d", raceLog, os.Getpid())); err == nil {
			res.RaceLogEnd = st.Size()
		}
	}
	res.WallMs = float64(time.Since(t0).Microseconds()) / 1000
	return
}

func verifLifecycle(t *testing.T) {
	var in struct {
		Scenarios []jLifeScenario `json:"scenarios"`
		RaceLog   string          `json:"race_log"` // GORACE log_path prefix (the detector appends .<pid>)
	}
	mustReadJSON(t, &in)
	out := struct {
		Results  []jLifeResult `json:"results"`
		Pid      int           `json:"pid"`
		HidrawOK bool          `json:"hidraw_ok"`
		Race     bool          `json:"race_build"`
	}{Results: []jLifeResult{}, Pid: os.Getpid(), Race: raceBuild}
	ev, err := resolveHidraw("/dev/hidraw0")
	out.HidrawOK = err == nil && ev == "event3"
	if out.HidrawOK {
		hangs := 0
		for _, sc := range in.Scenarios {
			if hangs >= 2 { // every hang costs 8 s; two are enough to report
				out.Results = append(out.Results, jLifeResult{Devices: []jLifeDevResult{}, Leftover: []string{}, Skipped: true})
				continue
			}
			r := runLifeScenario(sc, in.RaceLog)
			for _, d := range r.Devices {
				if d.Hang {
					hangs++
					break
				}
			}
			out.Results = append(out.Results, r)
		}
	}
	mustWriteJSON(t, &out)
}

func init() {
	verifModes["lifecycle"] = verifLifecycle
}
