//go:build verif

package device

// Mode "stream": the same cases as mode "device", run the way production runs a device - the output channel has the capacity of
// cmd/hidi/main.go (8), the events arrive back to back with no synchronisation in between, and the consumer behaves like the
// forwarding pipeline behind that channel (ProcessMidiEvents -> driver send channel -> port): it takes a message out of the channel,
// but the bytes are looked at only after `lag` further messages have been taken (1 in the forwarder + 16 in the driver's send
// channel), it is slower than the device (a few microseconds per message, a port hiccup of a millisecond now and then), and it keeps
// reading after ProcessEvents has returned until nothing has arrived for a while.
//
// The result is the flat stream of messages as that consumer finally sees them.  The python side compares it with the concatenation
// of the per-step outputs and the clean-up of the stepped run of the same case - the run whose observations the Coq monitors and
// views have checked.  Blocking sends of freshly allocated messages from one goroutine make the two equal for every pace of the
// consumer; a device that hands messages to helpers goroutines, drops them when the channel is full, or reuses their storage does not.

import (
	"fmt"
	"os"
	"testing"
	"time"

	"github.com/gethiox/HIDI/internal/pkg/input"
	"github.com/gethiox/HIDI/internal/pkg/midi"
	"github.com/gethiox/HIDI/internal/pkg/midi/device/config"
)

type jStreamResult struct {
	Stream   [][]int `json:"stream"`
	Sigs     int     `json:"sigs"`
	Panic    string  `json:"panic"`
	PanicAt  int     `json:"panic_at"`
	Hang     bool    `json:"hang"`
	Rejected string  `json:"rejected"`
	Late     int     `json:"late"` // messages that arrived after ProcessEvents had returned and the channel had been emptied once
}

const streamCap = 8  // cmd/hidi/main.go: midiEventsOut
const streamLag = 17 // forwarder + driver send channel

func spin(d time.Duration) {
	for t0 := time.Now(); time.Since(t0) < d; {
	}
}

func runStream(c jCase) jStreamResult {
	startLogDrain()
	res := jStreamResult{Stream: [][]int{}, PanicAt: -1}
	cfg := buildConfig(c.Cfg)
	if c.Toml != "" {
		var perr error
		func() {
			defer func() {
				if r := recover(); r != nil {
					perr = fmt.Errorf("ParseData panicked: %v", r)
				}
			}()
			cfg, perr = config.ParseData([]byte(c.Toml))
		}()
		if perr != nil {
			res.Rejected = perr.Error()
			return res
		}
	}
	midiOut := make(chan midi.Event, streamCap)
	midiIn := make(chan midi.Event)
	sigs := make(chan os.Signal, 4096)
	in := make(chan *input.InputEvent)
	var d Device
	created := make(chan string, 1)
	func() {
		defer func() {
			if r := recover(); r != nil {
				created <- fmt.Sprint(r)
				return
			}
			created <- ""
		}()
		d = NewDevice(buildInputDevice(c.Abs), config.DeviceConfig{ConfigFile: "verif", ConfigType: "user", Config: cfg},
			midiOut, midiIn, !c.Logs, 0, sigs)
	}()
	if msg := <-created; msg != "" {
		res.Panic = "NewDevice: " + msg
		return res
	}
	done := make(chan string, 1)
	go func() {
		defer func() {
			if r := recover(); r != nil {
				done <- fmt.Sprint(r)
				return
			}
			done <- ""
		}()
		d.ProcessEvents(in)
	}()
	// the consumer
	stop := make(chan struct{})
	returned := make(chan struct{})
	finished := make(chan struct{})
	go func() {
		defer close(finished)
		pending := []midi.Event{}
		look := func(e midi.Event) {
			b := make([]int, len(e))
			for i, x := range e {
				b[i] = int(x)
			}
			res.Stream = append(res.Stream, b)
		}
		n := 0
		emptiedAfterReturn := false
		for {
			var e midi.Event
			select {
			case e = <-midiOut:
			case <-stop:
				for _, p := range pending {
					look(p)
				}
				return
			}
			if emptiedAfterReturn {
				res.Late++
			}
			select {
			case <-returned:
				if len(midiOut) == 0 {
					emptiedAfterReturn = true
				}
			default:
			}
			pending = append(pending, e)
			if len(pending) > streamLag {
				look(pending[0])
				pending = pending[1:]
			}
			n++
			if n%97 == 0 {
				time.Sleep(time.Millisecond)
			} else {
				spin(4 * time.Microsecond)
			}
		}
	}()
	aborted := false
feed:
	for i, e := range c.Events {
		if e.T == "m" {
			continue
		}
		select {
		case in <- mkEvent(e):
		case msg := <-done:
			res.Panic, res.PanicAt = msg, i
			aborted = true
			break feed
		case <-time.After(8 * time.Second):
			res.Hang, res.PanicAt = true, i
			aborted = true
			break feed
		}
	}
	if !aborted {
		close(in)
		select {
		case msg := <-done:
			res.Panic = msg
			if msg != "" {
				res.PanicAt = len(c.Events)
			}
		case <-time.After(10 * time.Second):
			res.Hang = true
		}
	}
	close(returned)
	// quiescence: nothing in the channel and nothing arriving for 12 ms
	idle := 0
	for idle < 6 {
		time.Sleep(2 * time.Millisecond)
		if len(midiOut) == 0 {
			idle++
		} else {
			idle = 0
		}
	}
	close(stop)
	<-finished
	res.Sigs = drainSigs(sigs)
	return res
}

func verifStream(t *testing.T) {
	var in struct {
		Cases []jCase `json:"cases"`
	}
	mustReadJSON(t, &in)
	out := struct {
		Results []jStreamResult `json:"results"`
	}{Results: make([]jStreamResult, len(in.Cases))}
	jobs := make(chan int, len(in.Cases))
	for i := range in.Cases {
		jobs <- i
	}
	close(jobs)
	workers := 6
	donech := make(chan bool, workers)
	for w := 0; w < workers; w++ {
		go func() {
			for i := range jobs {
				out.Results[i] = runStream(in.Cases[i])
			}
			donech <- true
		}()
	}
	for w := 0; w < workers; w++ {
		<-donech
	}
	mustWriteJSON(t, &out)
}

func init() {
	verifModes["stream"] = verifStream
}
