//go:build verif

package device

// C17 (and the rig of C16): the REAL LED loop (handleOpenrgb) runs against a fake OpenRGB server living in this
// test binary.  The binary is started inside a mount namespace whose /sys/class/hidraw is a tmpfs holding
// hidraw0/device/input/input7/event3, so that the real resolveHidraw / findController succeed.
//
// Frame selection is deterministic (no sleeps): the harness appends one LED with an unknown name ("Verif Stamp") to
// every layout.  The loop paints every LED with Colors.Unavailable first, and nothing else can write an LED whose
// name is unknown, so that LED always shows Colors.Unavailable.  After a step is completely processed the harness
// takes eventProcessMutex (the mutex the loop holds while it computes and sends a frame), puts a 4-bit generation
// number into the low nibble of Colors.Unavailable.Blue, releases the mutex and takes the first frame carrying that
// generation: such a frame was computed after the stamp, hence after the step.

import (
	"encoding/binary"
	"fmt"
	"io"
	"net"
	"os"
	"sync"
	"sync/atomic"
	"testing"
	"time"

	"github.com/gethiox/HIDI/internal/pkg/input"
	"github.com/gethiox/HIDI/internal/pkg/midi"
	"github.com/gethiox/HIDI/internal/pkg/midi/device/config"
	"github.com/realbucksavage/openrgb-go"
)

const verifStampLed = "Verif Stamp"

// ---------------------------------------------------------------------------------------------- fake OpenRGB server

type orgbFrame struct {
	Seq    int
	At     time.Time
	Colors []int // 0xRRGGBB per LED
}

type fakeORGB struct {
	ln       net.Listener
	port     int
	ctrlName string
	names    []string
	// others: controllers the server lists BEFORE the keyboard (a mainboard, a mouse, a keyboard without hidraw location ...); the
	// keyboard's controller index is len(others); misaddressed counts UpdateLEDs packets sent to any other index
	others       []orgbOther
	misaddressed int
	// delay: the server answers controller queries (count, data) this late - a busy or slow OpenRGB daemon
	delay time.Duration
	// stall (set atomically by the harness, a harness -> server edge only) and stallFor: once stall is 1 the server stops reading
	// from its connection for stallFor (a daemon that is alive but busy): with frames larger than the socket buffers the LED loop
	// then sits inside a frame, blocked in its write
	stall    int32
	stallFor int64 // nanoseconds, accessed atomically

	mu     sync.Mutex
	cond   *sync.Cond
	nFrame int
	last   *orgbFrame
	recent []orgbFrame // the last frames (bounded)
	conns  int
	open   []net.Conn
	errs   []string
	stop   bool
}

// kill: the server dies - the listener and every established connection are closed (the client's next request fails)
func (s *fakeORGB) kill() {
	s.ln.Close()
	s.mu.Lock()
	s.stop = true
	for _, c := range s.open {
		c.Close()
	}
	s.open = nil
	s.mu.Unlock()
}

func orgbString(s string) []byte {
	b := make([]byte, 2, 3+len(s))
	binary.LittleEndian.PutUint16(b, uint16(len(s)+1))
	b = append(b, s...)
	return append(b, 0)
}

func u16(v int) []byte { b := make([]byte, 2); binary.LittleEndian.PutUint16(b, uint16(v)); return b }
func u32(v int) []byte { b := make([]byte, 4); binary.LittleEndian.PutUint32(b, uint32(v)); return b }

type orgbOther struct {
	Type     int    `json:"type"` // 0 motherboard, 1 DRAM, 2 GPU, 6 mouse, 5 keyboard ...
	Name     string `json:"name"`
	Location string `json:"location"`
	Leds     int    `json:"leds"`
}

// controller data block, protocol version 0 (what openrgb-go's readDevice parses)
func orgbControllerData(typ int, name, location string, leds []string) []byte {
	var p []byte
	p = append(p, u32(typ)...)
	p = append(p, orgbString(name)...)
	p = append(p, orgbString("verif fake controller")...)
	p = append(p, orgbString("1.0")...)
	p = append(p, orgbString("0000")...)
	p = append(p, orgbString(location)...)
	p = append(p, u16(0)...) // modes
	p = append(p, u32(0)...) // active mode
	p = append(p, u16(0)...) // zones
	p = append(p, u16(len(leds))...)
	for _, n := range leds {
		p = append(p, orgbString(n)...)
		p = append(p, 0, 0, 0, 0)
	}
	p = append(p, u16(len(leds))...)
	for range leds {
		p = append(p, 0, 0, 0, 0)
	}
	return append(u32(len(p)+4), p...)
}

func (s *fakeORGB) controllerData(dev int) []byte {
	if dev >= 0 && dev < len(s.others) {
		o := s.others[dev]
		leds := make([]string, o.Leds)
		for i := range leds {
			leds[i] = fmt.Sprintf("LED %d", i)
		}
		return orgbControllerData(o.Type, o.Name, o.Location, leds)
	}
	return orgbControllerData(5, s.ctrlName, "HID: /dev/hidraw0", s.names) // type: keyboard
}

func orgbPacket(dev, cmd int, body []byte) []byte {
	p := []byte("ORGB")
	p = append(p, u32(dev)...)
	p = append(p, u32(cmd)...)
	p = append(p, u32(len(body))...)
	return append(p, body...)
}

func startFakeORGB(names []string, ctrlName string) (*fakeORGB, error) {
	ln, err := net.Listen("tcp4", "127.0.0.1:0")
	if err != nil {
		return nil, err
	}
	s := &fakeORGB{ln: ln, port: ln.Addr().(*net.TCPAddr).Port, names: names, ctrlName: ctrlName}
	s.cond = sync.NewCond(&s.mu)
	go func() {
		for {
			c, err := ln.Accept()
			if err != nil {
				return
			}
			s.mu.Lock()
			s.conns++
			s.open = append(s.open, c)
			s.mu.Unlock()
			go s.serve(c)
		}
	}()
	// wake waiters periodically so that they can time out
	go func() {
		for {
			time.Sleep(20 * time.Millisecond)
			s.mu.Lock()
			st := s.stop
			s.cond.Broadcast()
			s.mu.Unlock()
			if st {
				return
			}
		}
	}()
	return s, nil
}

func (s *fakeORGB) fail(msg string) {
	s.mu.Lock()
	if len(s.errs) < 8 {
		s.errs = append(s.errs, msg)
	}
	s.mu.Unlock()
}

func (s *fakeORGB) serve(c net.Conn) {
	defer c.Close()
	hdr := make([]byte, 16)
	stallFor := time.Duration(atomic.LoadInt64(&s.stallFor))
	for {
		if stallFor > 0 && atomic.CompareAndSwapInt32(&s.stall, 1, 2) {
			time.Sleep(stallFor)
		}
		if _, err := io.ReadFull(c, hdr); err != nil {
			return
		}
		if string(hdr[:4]) != "ORGB" {
			s.fail(fmt.Sprintf("bad magic % x", hdr[:4]))
			return
		}
		dev := int(binary.LittleEndian.Uint32(hdr[4:]))
		cmd := int(binary.LittleEndian.Uint32(hdr[8:]))
		n := int(binary.LittleEndian.Uint32(hdr[12:]))
		if n > 1<<20 {
			s.fail("oversized packet")
			return
		}
		body := make([]byte, n)
		if _, err := io.ReadFull(c, body); err != nil {
			return
		}
		switch cmd {
		case 50: // set client name
		case 0: // controller count
			time.Sleep(s.delay)
			c.Write(orgbPacket(0, 0, u32(len(s.others)+1)))
		case 1: // controller data
			if dev < 0 || dev > len(s.others) {
				s.fail(fmt.Sprintf("controller data requested for device %d of %d", dev, len(s.others)+1))
			}
			time.Sleep(s.delay)
			c.Write(orgbPacket(dev, 1, s.controllerData(dev)))
		case 1050: // UpdateLEDs: u32 size | u16 count | count x (r g b pad); openrgb-go fills only the low bytes of size/count
			if dev != len(s.others) {
				s.fail(fmt.Sprintf("UpdateLEDs addressed to controller %d; the keyboard is controller %d", dev, len(s.others)))
				s.mu.Lock()
				s.misaddressed++
				s.mu.Unlock()
				continue
			}
			if n < 6 || (n-6)%4 != 0 {
				s.fail(fmt.Sprintf("UpdateLEDs with body length %d", n))
				continue
			}
			k := (n - 6) / 4
			cols := make([]int, k)
			for i := 0; i < k; i++ {
				o := 6 + 4*i
				cols[i] = int(body[o])<<16 | int(body[o+1])<<8 | int(body[o+2])
			}
			s.mu.Lock()
			s.nFrame++
			f := orgbFrame{Seq: s.nFrame, At: time.Now(), Colors: cols}
			s.last = &f
			s.recent = append(s.recent, f)
			if len(s.recent) > 256 || (k > 2000 && len(s.recent) > 16) {
				keep := 128
				if k > 2000 {
					keep = 8
				}
				s.recent = s.recent[len(s.recent)-keep:]
			}
			s.cond.Broadcast()
			s.mu.Unlock()
		default:
			s.fail(fmt.Sprintf("unexpected command %d", cmd))
		}
	}
}

// waitFrame returns the first frame with Seq > after satisfying pred, or nil on timeout.
func (s *fakeORGB) waitFrame(after int, pred func(*orgbFrame) bool, timeout time.Duration) *orgbFrame {
	deadline := time.Now().Add(timeout)
	s.mu.Lock()
	defer s.mu.Unlock()
	seen := after
	for {
		for i := range s.recent {
			f := &s.recent[i]
			if f.Seq > seen {
				seen = f.Seq
				if pred(f) {
					g := *f
					return &g
				}
			}
		}
		if time.Now().After(deadline) || s.stop {
			return nil // (a stopped server receives no further frames, and its periodic waker has ended)
		}
		s.cond.Wait()
	}
}

func (s *fakeORGB) snapshot() (n int, last *orgbFrame, conns int, errs []string) {
	s.mu.Lock()
	defer s.mu.Unlock()
	if s.last != nil {
		g := *s.last
		last = &g
	}
	return s.nFrame, last, s.conns, append([]string{}, s.errs...)
}

func (s *fakeORGB) close() {
	s.ln.Close()
	s.mu.Lock()
	s.stop = true
	s.mu.Unlock()
}

// ---------------------------------------------------------------------------------------------- the "led" mode

type jLedCase struct {
	jCase
	Leds []string `json:"leds"` // LED names reported by the controller, in order (the stamp LED is appended)
	Ctrl string   `json:"ctrl"` // controller name
	// Others: controllers listed by the server before the keyboard
	Others []orgbOther `json:"others"`
}

type jLedStep struct {
	jStep
	Frame  []int   `json:"frame"` // colours of the first frame computed after the step (without the stamp LED); nil = none arrived
	WaitMs float64 `json:"wait_ms"`
}

type jLedResult struct {
	Steps     []jLedStep `json:"steps"`
	First     []int      `json:"first"` // frame before any event
	Final     []int      `json:"final"` // last frame received after ProcessEvents returned
	FinalRed  bool       `json:"final_red"`
	Returned  bool       `json:"returned"`
	ReturnMs  float64    `json:"return_ms"`
	ConnectMs float64    `json:"connect_ms"`
	Frames    int        `json:"frames"`
	Conns     int        `json:"conns"`
	Cleanup   [][]int    `json:"cleanup"`
	Panic     string     `json:"panic"`
	PanicAt   int        `json:"panic_at"`
	Hang      bool       `json:"hang"`
	NoStamp   bool       `json:"no_stamp"` // frames were selected by settling, not by the stamp
	Err       string     `json:"err"`
	SrvErrs   []string   `json:"server_errors"`
	Misaddr   int        `json:"misaddressed"` // UpdateLEDs packets addressed to a controller that is not the keyboard
}

func buildLedInputDevice(abs []jAbs) input.Device {
	d := buildInputDevice(abs)
	d.Handlers = []input.Handler{{Name: "", DeviceInfo: input.NewDeviceInfoForVerif("verif", "event3")}}
	return d
}

type ledRig struct {
	d     *Device
	srv   *fakeORGB
	base  openrgb.Color
	gen   int
	nLeds int // without the stamp LED
	// noStamp: the loop does not show new stamps (it caches the static part of the frame): frames are selected by settling
	noStamp bool
}

func (r *ledRig) stampColor() int {
	b := (r.base.Blue &^ 0x0f) | byte(r.gen&0x0f)
	return int(r.base.Red)<<16 | int(r.base.Green)<<8 | int(b)
}

// freshFrame: a frame computed after this call.
// Primary method (exact): the stamp described at the top of the file.  It presupposes that the loop reads the configured
// colours anew for every frame.  A loop that caches the static part of the frame (legitimate: the configuration never changes
// in production) never shows a new stamp; then - after one short timeout - the rig stops stamping for the rest of this
// device's run and selects frames by settling instead: the first frame that arrived at least 12 ms (more than one refresh
// period) after the call and is identical to the next such frame.
func (r *ledRig) freshFrame(timeout time.Duration) ([]int, float64) {
	t0 := time.Now()
	if !r.noStamp {
		r.gen++
		want := r.stampColor()
		// frames received before the stamp is set are stale; later ones are told apart by the stamp (a stale frame still
		// in flight carries the previous generation)
		from, _, _, _ := r.srv.snapshot()
		r.d.eventProcessMutex.Lock()
		r.d.config.OpenRGB.Colors.Unavailable = openrgb.Color{Red: byte(want >> 16), Green: byte(want >> 8), Blue: byte(want)}
		r.d.eventProcessMutex.Unlock()
		st := 800 * time.Millisecond
		if timeout < st {
			st = timeout
		}
		f := r.srv.waitFrame(from, func(f *orgbFrame) bool {
			return len(f.Colors) == r.nLeds+1 && f.Colors[r.nLeds] == want
		}, st)
		if f != nil {
			return append([]int{}, f.Colors[:r.nLeds]...), float64(time.Since(t0).Microseconds()) / 1000
		}
		if n, _, _, _ := r.srv.snapshot(); n == from {
			return nil, float64(time.Since(t0).Microseconds()) / 1000 // no frames at all: not a stamping problem
		}
		r.noStamp = true
		r.d.eventProcessMutex.Lock()
		r.d.config.OpenRGB.Colors.Unavailable = r.base
		r.d.eventProcessMutex.Unlock()
	}
	from, _, _, _ := r.srv.snapshot()
	deadline := t0.Add(timeout)
	var prev *orgbFrame
	for {
		left := time.Until(deadline)
		if left <= 0 {
			return nil, float64(time.Since(t0).Microseconds()) / 1000
		}
		f := r.srv.waitFrame(from, func(f *orgbFrame) bool {
			return len(f.Colors) == r.nLeds+1 && f.At.Sub(t0) >= 12*time.Millisecond
		}, left)
		if f == nil {
			return nil, float64(time.Since(t0).Microseconds()) / 1000
		}
		from = f.Seq
		if prev != nil {
			same := true
			for i := 0; i < r.nLeds; i++ {
				if prev.Colors[i] != f.Colors[i] {
					same = false
					break
				}
			}
			if same {
				return append([]int{}, f.Colors[:r.nLeds]...), float64(time.Since(t0).Microseconds()) / 1000
			}
		}
		prev = f
	}
}

func runLedCase(c jLedCase) (res jLedResult) {
	startLogDrain()
	res = jLedResult{Steps: []jLedStep{}, Cleanup: [][]int{}, PanicAt: -1, SrvErrs: []string{}}
	names := append(append([]string{}, c.Leds...), verifStampLed)
	ctrl := c.Ctrl
	if ctrl == "" {
		ctrl = "Verif Keyboard"
	}
	srv, err := startFakeORGB(names, ctrl)
	if err != nil {
		res.Err = "fake OpenRGB server: " + err.Error()
		return
	}
	srv.others = c.Others
	defer srv.close()
	cfg := buildConfig(c.Cfg)
	midiOut := make(chan midi.Event, 8192)
	midiIn := make(chan midi.Event)
	sigs := make(chan os.Signal, 64)
	in := make(chan *input.InputEvent)
	d := NewDevice(buildLedInputDevice(c.Abs), config.DeviceConfig{ConfigFile: "verif", ConfigType: "user", Config: cfg},
		midiOut, midiIn, true, srv.port, sigs)
	done := make(chan string, 1)
	t0 := time.Now()
	go func() {
		defer func() {
			if r := recover(); r != nil {
				done <- fmt.Sprint(r)
				return
			}
			done <- ""
		}()
		d.ProcessEvents(in)
	}()
	rig := &ledRig{d: &d, srv: srv, base: cfg.OpenRGB.Colors.Unavailable, nLeds: len(c.Leds)}
	finish := func() {
		res.NoStamp = rig.noStamp
		close(in)
		tc := time.Now()
		select {
		case msg := <-done:
			res.Returned = true
			res.ReturnMs = float64(time.Since(tc).Microseconds()) / 1000
			res.Panic = msg
			if msg != "" {
				res.PanicAt = len(c.Events)
			}
		case <-time.After(10 * time.Second):
			res.Hang = true
		}
		res.Cleanup = drainMidi(midiOut)
	}
	if srv.waitFrame(0, func(*orgbFrame) bool { return true }, 9*time.Second) == nil {
		res.Err = "no LED frame within 9 s of starting ProcessEvents"
		finish()
		_, _, res.Conns, res.SrvErrs = srv.snapshot()
		return
	}
	res.ConnectMs = float64(time.Since(t0).Microseconds()) / 1000
	res.First, _ = rig.freshFrame(3 * time.Second)
	send := func(e *input.InputEvent) (ok bool) {
		select {
		case in <- e:
			return true
		case msg := <-done:
			res.Panic = msg
			res.Returned = true
			return false
		case <-time.After(5 * time.Second):
			res.Hang = true
			return false
		}
	}
	snapshot := func() jState {
		d.eventProcessMutex.Lock() // State() reads what the event loop writes; the LED loop is running here
		st := d.State()
		d.eventProcessMutex.Unlock()
		return jState{int(st.Octave), int(st.Semitone), int(st.Channel), st.Notes, st.Mapping}
	}
	for i, e := range c.Events {
		if e.T == "m" {
			b := make(midi.Event, len(e.Bytes))
			for k, x := range e.Bytes {
				b[k] = byte(x)
			}
			for _, m := range []midi.Event{b, {0xF8}} { // second hand-off: the first one has been processed completely
				select {
				case midiIn <- m:
				case <-time.After(2 * time.Second):
					res.Hang = true
				}
			}
			if res.Hang {
				res.PanicAt = i
				return
			}
		} else if !send(mkEvent(e)) || !send(synEvent()) {
			res.PanicAt = i
			return
		}
		st := jLedStep{jStep: jStep{Midi: drainMidi(midiOut), Sigs: drainSigs(sigs), State: snapshot()}}
		st.Frame, st.WaitMs = rig.freshFrame(3 * time.Second)
		res.Steps = append(res.Steps, st)
	}
	finish()
	// the final frame has been written before handleOpenrgb returned, i.e. before ProcessEvents returned
	n, _, _, _ := srv.snapshot()
	from := n - 8
	if from < 0 {
		from = 0
	}
	red := srv.waitFrame(from, func(f *orgbFrame) bool {
		for _, c := range f.Colors {
			if c != 0xff0000 {
				return false
			}
		}
		return true
	}, 3*time.Second)
	var last *orgbFrame
	res.Frames, last, res.Conns, res.SrvErrs = srv.snapshot()
	srv.mu.Lock()
	res.Misaddr = srv.misaddressed
	srv.mu.Unlock()
	res.FinalRed = red != nil && last != nil && red.Seq == last.Seq
	if last != nil && len(last.Colors) == rig.nLeds+1 {
		res.Final = append([]int{}, last.Colors[:rig.nLeds]...)
	} else if last != nil {
		res.Final = last.Colors
	}
	return
}

func verifLed(t *testing.T) {
	var in struct {
		Cases    []jLedCase `json:"cases"`
		Parallel int        `json:"parallel"`
	}
	mustReadJSON(t, &in)
	out := struct {
		Results   []jLedResult   `json:"results"`
		KeyToLed  map[int]string `json:"key_to_led"`
		HidrawOK  bool           `json:"hidraw_ok"`
		HidrawErr string         `json:"hidraw_err"`
	}{Results: make([]jLedResult, len(in.Cases)), KeyToLed: map[int]string{}}
	for k, v := range KeyToLedName {
		out.KeyToLed[int(k)] = v
	}
	ev, err := resolveHidraw("/dev/hidraw0")
	out.HidrawOK = err == nil && ev == "event3"
	if err != nil {
		out.HidrawErr = err.Error()
	} else if ev != "event3" {
		out.HidrawErr = "resolved to " + ev
	}
	if out.HidrawOK {
		workers := in.Parallel
		if workers <= 0 {
			workers = 8
		}
		jobs := make(chan int, len(in.Cases))
		for i := range in.Cases {
			jobs <- i
		}
		close(jobs)
		var wg sync.WaitGroup
		for w := 0; w < workers; w++ {
			wg.Add(1)
			go func() {
				defer wg.Done()
				for i := range jobs {
					out.Results[i] = runLedCase(in.Cases[i])
				}
			}()
		}
		wg.Wait()
	}
	mustWriteJSON(t, &out)
}

func init() {
	verifModes["led"] = verifLed
}
