//go:build verif

package config

import (
	"context"
	"encoding/json"
	"errors"
	"fmt"
	"os"
	"path/filepath"
	"runtime"
	"runtime/debug"
	"strings"
	"sync"
	"syscall"
	"testing"
	"time"

	"github.com/gethiox/HIDI/internal/pkg/input"
	"github.com/gethiox/HIDI/internal/pkg/logger"
)

// C12: materialises hidi-config trees in temporary directories, runs the real LoadDeviceConfigs and FindConfig on
// them (the directory constants are relative paths, so the harness chdirs; cases run sequentially) and records
// panics / errors / the four maps / FindConfig's answers / the "load failed" reports, plus the real ParseData
// verdict for every file it wrote (the model's parse oracle is the implementation's own parser).

type c12Op struct {
	Op      string `json:"op"`      // mkdir | write | symlink | chmod
	Path    string `json:"path"`    // relative to the case's temporary directory
	Content string `json:"content"` // write: file content; symlink: target
	Mode    uint32 `json:"mode"`    // chmod
}

type c12Query struct {
	ID   [4]uint16 `json:"id"`
	Type int       `json:"type"`
}

type c12Case struct {
	Ops []c12Op `json:"ops"`
	// Unpriv: run LoadDeviceConfigs on an OS thread whose filesystem uid/gid is 65534, so that mode-000
	// directories and files are really unreadable although the harness process is root.
	Unpriv  bool       `json:"unpriv"`
	Probe   []string   `json:"probe"` // paths whose readability is reported (under the same fsuid)
	Queries []c12Query `json:"queries"`
	// Warm: contents written at the same paths and loaded once (result ignored) BEFORE the tree of this case is built in the same
	// directory; the files of the case then get modification times OLDER than the warm ones (a backup restored with cp -p / rsync -t).
	// What LoadDeviceConfigs returns may depend on the tree as it is now only, not on what an earlier load saw.
	Warm []c12Op `json:"warm"`
}

type c12In struct {
	Cases []c12Case `json:"cases"`
	// ParseOnly: contents to run through ParseData only (used to find / validate the minimal accepted text)
	ParseOnly []string `json:"parse_only"`
}

type c12Verdict struct {
	Ok    bool      `json:"ok"`
	ID    [4]uint16 `json:"id"`
	Uniq  string    `json:"uniq"`
	Err   string    `json:"err"`
	Panic string    `json:"panic"`
}

type c12Entry struct {
	ID   [4]uint16 `json:"id"`
	File string    `json:"file"`
	Type string    `json:"type"`
	Uniq string    `json:"uniq"`
}

type c12Find struct {
	Class string `json:"class"` // nil | unsupported | other | panic
	Err   string `json:"err"`
	File  string `json:"file"`
	Type  string `json:"type"`
	Uniq  string `json:"uniq"`
}

type c12Res struct {
	Setup    string       `json:"setup"` // non-empty: the tree could not be materialised (harness problem)
	Panic    string       `json:"panic"`
	Stack    string       `json:"stack"`
	Timeout  bool         `json:"timeout"`
	Err      string       `json:"err"`
	UnprivOK bool         `json:"unpriv_ok"` // the fsuid switch took effect
	Probe    []bool       `json:"probe"`     // readable? (open + readdir / read one byte)
	Verdicts []c12Verdict `json:"verdicts"`  // one per write op, in op order
	FK       []c12Entry   `json:"fk"`
	FG       []c12Entry   `json:"fg"`
	UK       []c12Entry   `json:"uk"`
	UG       []c12Entry   `json:"ug"`
	Finds    []c12Find    `json:"finds"`
	Reports  []string     `json:"reports"` // log messages containing "load failed", in order
}

type c12Out struct {
	Results   []c12Res     `json:"results"`
	ParseOnly []c12Verdict `json:"parse_only"`
}

func c12ID(i input.InputID) [4]uint16 { return [4]uint16{i.Bus, i.Vendor, i.Product, i.Version} }

func c12Parse(data []byte) (v c12Verdict) {
	defer func() {
		if r := recover(); r != nil {
			v = c12Verdict{Panic: fmt.Sprint(r)}
		}
	}()
	cfg, err := ParseData(data)
	if err != nil {
		return c12Verdict{Err: err.Error()}
	}
	return c12Verdict{Ok: true, ID: c12ID(cfg.ID), Uniq: cfg.Uniq}
}

func c12Entries(m ConfigMap) []c12Entry {
	r := []c12Entry{}
	for id, dc := range m {
		r = append(r, c12Entry{ID: c12ID(id), File: dc.ConfigFile, Type: dc.ConfigType, Uniq: dc.Config.Uniq})
		if dc.Config.ID != id {
			r = append(r, c12Entry{ID: c12ID(id), File: dc.ConfigFile, Type: "KEY-DIFFERS-FROM-CONFIG-ID", Uniq: dc.Config.Uniq})
		}
	}
	return r
}

// log drain: every message goes through this goroutine; "load failed" ones are collected.
var (
	c12LogMu   sync.Mutex
	c12Logs    []string
	c12LogOnce sync.Once
	c12Sync    = make(chan struct{}, 16)
)

const c12Sentinel = "@@c12-sentinel@@"

func c12StartDrain() {
	c12LogOnce.Do(func() {
		go func() {
			for msg := range logger.Messages {
				s := string(msg)
				if s == c12Sentinel {
					c12Sync <- struct{}{}
					continue
				}
				if strings.Contains(s, "load failed") {
					var obj struct {
						Msg string `json:"msg"`
					}
					if json.Unmarshal(msg, &obj) == nil && obj.Msg != "" {
						s = obj.Msg
					}
					c12LogMu.Lock()
					c12Logs = append(c12Logs, s)
					c12LogMu.Unlock()
				}
			}
		}()
	})
}

func c12FlushLogs() []string {
	logger.Messages <- []byte(c12Sentinel)
	select {
	case <-c12Sync:
	case <-time.After(10 * time.Second):
	}
	c12LogMu.Lock()
	r := c12Logs
	c12Logs = nil
	c12LogMu.Unlock()
	if r == nil {
		r = []string{}
	}
	return r
}

func c12Readable(path string) bool {
	fi, err := os.Stat(path)
	if err != nil {
		return false
	}
	f, err := os.Open(path)
	if err != nil {
		return false
	}
	defer f.Close()
	if fi.IsDir() {
		_, err = f.Readdirnames(-1)
		return err == nil
	}
	return true
}

type c12Loaded struct {
	cfg      DeviceConfigs
	err      error
	panicked string
	stack    string
	unprivOK bool
	probe    []bool
}

func c12Load(c *c12Case) (res c12Loaded, timeout bool) {
	done := make(chan c12Loaded, 1)
	go func() {
		var r c12Loaded
		if c.Unpriv {
			// per-thread credentials: the raw setfsuid/setfsgid syscalls only affect the calling thread; the thread is
			// locked and never unlocked, so the Go runtime destroys it when this goroutine ends.
			runtime.LockOSThread()
			syscall.Setfsgid(65534)
			syscall.Setfsuid(65534)
			// setfsuid returns the previous value; calling it again with -1 changes nothing and reports the current one
			cur, _, _ := syscall.RawSyscall(syscall.SYS_SETFSUID, ^uintptr(0), 0, 0)
			r.unprivOK = int32(cur) == 65534
		}
		defer func() {
			if p := recover(); p != nil {
				r.panicked = fmt.Sprint(p)
				r.stack = string(debug.Stack())
			}
			done <- r
		}()
		for _, p := range c.Probe {
			r.probe = append(r.probe, c12Readable(p))
		}
		var wg sync.WaitGroup
		r.cfg, r.err = LoadDeviceConfigs(context.Background(), &wg)
	}()
	select {
	case r := <-done:
		return r, false
	case <-time.After(20 * time.Second):
		return c12Loaded{}, true
	}
}

func c12RunCase(c *c12Case, home string) (res c12Res) {
	res = c12Res{Verdicts: []c12Verdict{}, FK: []c12Entry{}, FG: []c12Entry{}, UK: []c12Entry{}, UG: []c12Entry{},
		Finds: []c12Find{}, Reports: []string{}, Probe: []bool{}}
	dir, err := os.MkdirTemp("", "verif-c12-")
	if err != nil {
		res.Setup = err.Error()
		return
	}
	defer func() {
		os.Chdir(home)
		// make everything removable again
		filepath.Walk(dir, func(p string, info os.FileInfo, err error) error {
			if info != nil && info.Mode()&os.ModeSymlink == 0 {
				os.Chmod(p, 0o755)
			}
			return nil
		})
		os.RemoveAll(dir)
	}()
	os.Chmod(dir, 0o755)
	if len(c.Warm) > 0 {
		for _, op := range c.Warm {
			p := filepath.Join(dir, op.Path)
			if op.Op == "mkdir" {
				os.MkdirAll(p, 0o755)
			} else if op.Op == "write" {
				os.MkdirAll(filepath.Dir(p), 0o755)
				os.WriteFile(p, []byte(op.Content), 0o644)
			}
		}
		if err = os.Chdir(dir); err == nil {
			var wg sync.WaitGroup
			func() {
				defer func() { recover() }()
				LoadDeviceConfigs(context.Background(), &wg)
			}()
			c12FlushLogs()
			os.Chdir(home)
		}
		entries, _ := os.ReadDir(dir)
		for _, e := range entries {
			os.RemoveAll(filepath.Join(dir, e.Name()))
		}
	}
	var chmods []c12Op
	for _, op := range c.Ops {
		p := filepath.Join(dir, op.Path)
		switch op.Op {
		case "mkdir":
			err = os.MkdirAll(p, 0o755)
		case "write":
			res.Verdicts = append(res.Verdicts, c12Parse([]byte(op.Content)))
			if err = os.MkdirAll(filepath.Dir(p), 0o755); err == nil {
				err = os.WriteFile(p, []byte(op.Content), 0o644)
			}
		case "symlink":
			if err = os.MkdirAll(filepath.Dir(p), 0o755); err == nil {
				err = os.Symlink(op.Content, p)
			}
		case "chmod":
			chmods = append(chmods, op) // applied last, so that the tree can be built first
		default:
			err = fmt.Errorf("unknown op %q", op.Op)
		}
		if err != nil {
			res.Setup = fmt.Sprintf("%s %s: %v", op.Op, op.Path, err)
			return
		}
	}
	if len(c.Warm) > 0 {
		old := time.Now().Add(-48 * time.Hour)
		filepath.Walk(dir, func(p string, info os.FileInfo, err error) error {
			if info != nil && info.Mode().IsRegular() {
				os.Chtimes(p, old, old)
			}
			return nil
		})
	}
	for i := len(chmods) - 1; i >= 0; i-- { // children before parents
		if err = os.Chmod(filepath.Join(dir, chmods[i].Path), os.FileMode(chmods[i].Mode)); err != nil {
			res.Setup = fmt.Sprintf("chmod %s: %v", chmods[i].Path, err)
			return
		}
	}
	if err = os.Chdir(dir); err != nil {
		res.Setup = err.Error()
		return
	}
	c12FlushLogs()
	loaded, timeout := c12Load(c)
	res.Reports = c12FlushLogs()
	res.Timeout = timeout
	if timeout {
		return
	}
	res.Panic, res.Stack, res.UnprivOK = loaded.panicked, loaded.stack, loaded.unprivOK
	if loaded.probe != nil {
		res.Probe = loaded.probe
	}
	if loaded.panicked != "" {
		return
	}
	if loaded.err != nil {
		res.Err = loaded.err.Error()
	}
	cfg := loaded.cfg
	res.FK, res.FG = c12Entries(cfg.Factory.Keyboards), c12Entries(cfg.Factory.Gamepads)
	res.UK, res.UG = c12Entries(cfg.User.Keyboards), c12Entries(cfg.User.Gamepads)
	for _, q := range c.Queries {
		res.Finds = append(res.Finds, c12FindOne(&cfg, q))
	}
	return
}

func c12FindOne(cfg *DeviceConfigs, q c12Query) (f c12Find) {
	defer func() {
		if p := recover(); p != nil {
			f = c12Find{Class: "panic", Err: fmt.Sprint(p)}
		}
	}()
	id := input.InputID{Bus: q.ID[0], Vendor: q.ID[1], Product: q.ID[2], Version: q.ID[3]}
	dc, err := cfg.FindConfig(id, input.DeviceType(q.Type))
	switch {
	case err == nil:
		return c12Find{Class: "nil", File: dc.ConfigFile, Type: dc.ConfigType, Uniq: dc.Config.Uniq}
	case errors.Is(err, UnsupportedDeviceType):
		return c12Find{Class: "unsupported", Err: err.Error(), File: dc.ConfigFile, Type: dc.ConfigType}
	default:
		return c12Find{Class: "other", Err: err.Error(), File: dc.ConfigFile, Type: dc.ConfigType}
	}
}

func verifC12(t *testing.T) {
	var in c12In
	mustReadJSON(t, &in)
	c12StartDrain()
	home, _ := os.Getwd()
	out := c12Out{Results: []c12Res{}, ParseOnly: []c12Verdict{}}
	for _, s := range in.ParseOnly {
		out.ParseOnly = append(out.ParseOnly, c12Parse([]byte(s)))
	}
	for i := range in.Cases {
		out.Results = append(out.Results, c12RunCase(&in.Cases[i], home))
	}
	os.Chdir(home)
	mustWriteJSON(t, &out)
}

func init() { verifModes["c12"] = verifC12 }
