//go:build verif

package config

import (
	"bytes"
	"encoding/base64"
	"encoding/json"
	"fmt"
	"math"
	"os"
	"sort"
	"sync"
	"testing"
	"time"

	"github.com/gethiox/HIDI/internal/pkg/logger"
	"github.com/holoplot/go-evdev"
	"github.com/pelletier/go-toml/v2"
)

// C10 / C09: the real ParseData on generated file contents.
//
// For every input (base64 of the bytes) two independent calls are made, each in its own goroutine under
// recover() and a watchdog:
//   * ParseData(data)                     -> class ok | error | panic | hang, the Config in a canonical form
//     (maps sorted by key, strings as byte arrays, float64 as IEEE bit patterns);
//   * the bare decoder, exactly as ParseData configures it (DisallowUnknownFields), into a TOMLDeviceConfig
//     -> the ORACLE outcome ok | error | panic | hang and the decoded structure (pointer fields null when nil).
// The oracle outcome is what the Coq model [guard dec convert] is given.
//
// mode c10tables dumps the evdev name tables and the Supported* tables of the linked packages.

func init() {
	verifModes["c10"] = verifParser
	verifModes["c09"] = verifParser
	verifModes["c10tables"] = verifParserTables
}

type prsParserIn struct {
	Inputs     []string `json:"inputs"`      // base64
	WantConfig bool     `json:"want_config"` // include the canonical Config of accepted inputs
	WantDec    bool     `json:"want_dec"`    // include the decoded TOMLDeviceConfig when the oracle decoder succeeds
	DecMaxLen  int      `json:"dec_max_len"` // ... only for inputs of at most this many bytes (0 = no limit)
	WatchdogMs int      `json:"watchdog_ms"`
}

// ---- canonical Config

type prsPKeyEnt struct {
	Code int `json:"code"`
	Note int `json:"note"`
	Off  int `json:"off"`
}

type prsPAnalogEnt struct {
	Code    int    `json:"code"`
	Type    string `json:"type"`
	CC      int    `json:"cc"`
	CCNeg   int    `json:"ccneg"`
	Note    int    `json:"note"`
	NoteNeg int    `json:"noteneg"`
	Off     int    `json:"off"`
	OffNeg  int    `json:"offneg"`
	Act     string `json:"act"`
	ActNeg  string `json:"actneg"`
	Flip    bool   `json:"flip"`
	Bidi    bool   `json:"bidi"`
	Dzc     bool   `json:"dzc"`
}

type prsPDzEnt struct {
	Code int    `json:"code"`
	Bits uint64 `json:"bits"`
}

type prsPSubKeys struct {
	Sub []int        `json:"sub"`
	Map []prsPKeyEnt `json:"map"`
}

type prsPSubAnalog struct {
	Sub []int           `json:"sub"`
	Map []prsPAnalogEnt `json:"map"`
}

type prsPSubDz struct {
	Sub []int       `json:"sub"`
	Map []prsPDzEnt `json:"map"`
}

type prsPSubDef struct {
	Sub  []int  `json:"sub"`
	Bits uint64 `json:"bits"`
}

type prsPMapping struct {
	Name   []int           `json:"name"`
	Midi   []prsPSubKeys   `json:"midi"`
	Analog []prsPSubAnalog `json:"analog"`
	Dz     []prsPSubDz     `json:"dz"`
	DefDz  []prsPSubDef    `json:"defdz"`
}

type prsPAction struct {
	Code int    `json:"code"`
	Act  string `json:"act"`
}

type prsPConfig struct {
	ID       [4]int        `json:"id"`
	Uniq     []int         `json:"uniq"`
	Mappings []prsPMapping `json:"mappings"`
	Actions  []prsPAction  `json:"actions"`
	Exit     []int         `json:"exit"`
	CMode    string        `json:"cmode"`
	Defaults [5]int        `json:"defaults"` // octave semitone channel mapping velocity
	Colors   [7][3]int     `json:"colors"`   // white black c unavailable other active active_external
}

func prsSortedSubs[V any](m map[string]V) []string {
	r := make([]string, 0, len(m))
	for k := range m {
		r = append(r, k)
	}
	sort.Strings(r)
	return r
}

func prsSortedCodes[V any](m map[evdev.EvCode]V) []int {
	r := make([]int, 0, len(m))
	for k := range m {
		r = append(r, int(k))
	}
	sort.Ints(r)
	return r
}

func prsCanonConfig(c Config) *prsPConfig {
	p := &prsPConfig{Uniq: bytesOf(c.Uniq), Mappings: []prsPMapping{}, Actions: []prsPAction{}, Exit: []int{}}
	p.ID = [4]int{int(c.ID.Bus), int(c.ID.Vendor), int(c.ID.Product), int(c.ID.Version)}
	for _, km := range c.KeyMappings {
		pm := prsPMapping{Name: bytesOf(km.Name), Midi: []prsPSubKeys{}, Analog: []prsPSubAnalog{}, Dz: []prsPSubDz{}, DefDz: []prsPSubDef{}}
		for _, s := range prsSortedSubs(km.Midi) {
			e := prsPSubKeys{Sub: bytesOf(s), Map: []prsPKeyEnt{}}
			for _, code := range prsSortedCodes(km.Midi[s]) {
				k := km.Midi[s][evdev.EvCode(code)]
				e.Map = append(e.Map, prsPKeyEnt{code, int(k.Note), int(k.ChannelOffset)})
			}
			pm.Midi = append(pm.Midi, e)
		}
		for _, s := range prsSortedSubs(km.Analog) {
			e := prsPSubAnalog{Sub: bytesOf(s), Map: []prsPAnalogEnt{}}
			for _, code := range prsSortedCodes(km.Analog[s]) {
				a := km.Analog[s][evdev.EvCode(code)]
				e.Map = append(e.Map, prsPAnalogEnt{Code: code, Type: string(a.MappingType), CC: int(a.CC), CCNeg: int(a.CCNeg),
					Note: int(a.Note), NoteNeg: int(a.NoteNeg), Off: int(a.ChannelOffset), OffNeg: int(a.ChannelOffsetNeg),
					Act: string(a.Action), ActNeg: string(a.ActionNeg), Flip: a.FlipAxis, Bidi: a.Bidirectional, Dzc: a.DeadzoneAtCenter})
			}
			pm.Analog = append(pm.Analog, e)
		}
		for _, s := range prsSortedSubs(km.Deadzones) {
			e := prsPSubDz{Sub: bytesOf(s), Map: []prsPDzEnt{}}
			for _, code := range prsSortedCodes(km.Deadzones[s]) {
				e.Map = append(e.Map, prsPDzEnt{code, math.Float64bits(km.Deadzones[s][evdev.EvCode(code)])})
			}
			pm.Dz = append(pm.Dz, e)
		}
		for _, s := range prsSortedSubs(km.DefaultDeadzone) {
			pm.DefDz = append(pm.DefDz, prsPSubDef{bytesOf(s), math.Float64bits(km.DefaultDeadzone[s])})
		}
		p.Mappings = append(p.Mappings, pm)
	}
	for _, code := range prsSortedCodes(c.ActionMapping) {
		p.Actions = append(p.Actions, prsPAction{code, string(c.ActionMapping[evdev.EvCode(code)])})
	}
	for _, e := range c.ExitSequence {
		p.Exit = append(p.Exit, int(e))
	}
	p.CMode = string(c.CollisionMode)
	p.Defaults = [5]int{c.Defaults.Octave, c.Defaults.Semitone, c.Defaults.Channel, c.Defaults.Mapping, c.Defaults.Velocity}
	cols := c.OpenRGB.Colors
	for i, col := range []struct{ Red, Green, Blue uint8 }{
		{cols.White.Red, cols.White.Green, cols.White.Blue}, {cols.Black.Red, cols.Black.Green, cols.Black.Blue},
		{cols.C.Red, cols.C.Green, cols.C.Blue}, {cols.Unavailable.Red, cols.Unavailable.Green, cols.Unavailable.Blue},
		{cols.Other.Red, cols.Other.Green, cols.Other.Blue}, {cols.Active.Red, cols.Active.Green, cols.Active.Blue},
		{cols.ActiveExternal.Red, cols.ActiveExternal.Green, cols.ActiveExternal.Blue}} {
		p.Colors[i] = [3]int{int(col.Red), int(col.Green), int(col.Blue)}
	}
	return p
}

// ---- the decoded structure (what convert receives)

type prsTAxis struct {
	Type    []int  `json:"type"`
	CC      *int   `json:"cc"`
	CCNeg   *int   `json:"ccneg"`
	Note    *int   `json:"note"`
	NoteNeg *int   `json:"noteneg"`
	Off     int    `json:"off"`
	OffNeg  int    `json:"offneg"`
	Act     *[]int `json:"act"`
	ActNeg  *[]int `json:"actneg"`
	Flip    bool   `json:"flip"`
	Dzc     bool   `json:"dzc"`
}

type prsTStrStr struct {
	K []int `json:"k"`
	V []int `json:"v"`
}

type prsTAxisEnt struct {
	K []int    `json:"k"`
	V prsTAxis `json:"v"`
}

type prsTDzEnt struct {
	K []int  `json:"k"`
	V uint64 `json:"v"`
}

type prsTKeySub struct {
	Sub []int        `json:"sub"`
	Map []prsTStrStr `json:"map"`
}

type prsTAnalogSub struct {
	Sub   []int         `json:"sub"`
	DefDz uint64        `json:"defdz"`
	Map   []prsTAxisEnt `json:"map"`
	Dz    []prsTDzEnt   `json:"dz"`
}

type prsTMapping struct {
	Name   []int           `json:"name"`
	Keys   []prsTKeySub    `json:"keys"`
	Analog []prsTAnalogSub `json:"analog"`
}

type prsTConfig struct {
	CMode    []int         `json:"cmode"`
	Exit     [][]int       `json:"exit"`
	Ident    [4]int        `json:"ident"`
	Uniq     []int         `json:"uniq"`
	Octave   int           `json:"octave"`
	Semitone int           `json:"semitone"`
	Channel  int           `json:"channel"`
	DefMap   []int         `json:"defmap"`
	Velocity int           `json:"velocity"`
	Actions  []prsTStrStr  `json:"actions"`
	RGB      [7]int        `json:"rgb"`
	Mappings []prsTMapping `json:"mappings"`
}

func prsSortedKeys[V any](m map[string]V) []string {
	r := make([]string, 0, len(m))
	for k := range m {
		r = append(r, k)
	}
	sort.Strings(r)
	return r
}

func prsOptBytes(s *string) *[]int {
	if s == nil {
		return nil
	}
	b := bytesOf(*s)
	return &b
}

func prsCanonDecoded(c *TOMLDeviceConfig) *prsTConfig {
	t := &prsTConfig{CMode: bytesOf(c.CollisionMode), Exit: [][]int{}, Uniq: bytesOf(c.Identifier.Uniq), Actions: []prsTStrStr{}, Mappings: []prsTMapping{}}
	for _, e := range c.ExitSequence {
		t.Exit = append(t.Exit, bytesOf(e))
	}
	t.Ident = [4]int{int(c.Identifier.Bus), int(c.Identifier.Vendor), int(c.Identifier.Product), int(c.Identifier.Version)}
	t.Octave, t.Semitone, t.Channel = c.Defaults.Octave, c.Defaults.Semitone, c.Defaults.Channel
	t.DefMap, t.Velocity = bytesOf(c.Defaults.Mapping), c.Defaults.Velocity
	for _, k := range prsSortedKeys(c.ActionMapping) {
		t.Actions = append(t.Actions, prsTStrStr{bytesOf(k), bytesOf(c.ActionMapping[k])})
	}
	o := c.OpenRGB
	t.RGB = [7]int{o.White, o.Black, o.C, o.Unavailable, o.Other, o.Active, o.ActiveExternal}
	for _, m := range c.KeyMappings {
		tm := prsTMapping{Name: bytesOf(m.Name), Keys: []prsTKeySub{}, Analog: []prsTAnalogSub{}}
		for _, ks := range m.KeyMapping {
			e := prsTKeySub{Sub: bytesOf(ks.SubHandler), Map: []prsTStrStr{}}
			for _, k := range prsSortedKeys(ks.Map) {
				e.Map = append(e.Map, prsTStrStr{bytesOf(k), bytesOf(ks.Map[k])})
			}
			tm.Keys = append(tm.Keys, e)
		}
		for _, as := range m.AnalogMapping {
			e := prsTAnalogSub{Sub: bytesOf(as.SubHandler), DefDz: math.Float64bits(as.DefaultDeadzone), Map: []prsTAxisEnt{}, Dz: []prsTDzEnt{}}
			for _, k := range prsSortedKeys(as.Map) {
				a := as.Map[k]
				e.Map = append(e.Map, prsTAxisEnt{bytesOf(k), prsTAxis{Type: bytesOf(a.Type), CC: a.CC, CCNeg: a.CCNegative, Note: a.Note,
					NoteNeg: a.NoteNegative, Off: a.ChannelOffset, OffNeg: a.ChannelOffsetNegative, Act: prsOptBytes(a.Action),
					ActNeg: prsOptBytes(a.ActionNegative), Flip: a.FlipAxis, Dzc: a.DeadzoneAtCenter}})
			}
			for _, k := range prsSortedKeys(as.Deadzones) {
				e.Dz = append(e.Dz, prsTDzEnt{bytesOf(k), math.Float64bits(as.Deadzones[k])})
			}
			tm.Analog = append(tm.Analog, e)
		}
		t.Mappings = append(t.Mappings, tm)
	}
	return t
}

// ---- running

type prsParserRes struct {
	Class    string      `json:"class"` // ok | error | panic | hang
	Err      string      `json:"err,omitempty"`
	Cfg      *prsPConfig `json:"cfg,omitempty"`
	DecClass string      `json:"dec_class"` // ok | error | panic | hang   (bare decoder = oracle)
	DecErr   string      `json:"dec_err,omitempty"`
	Dec      *prsTConfig `json:"dec,omitempty"`
}

type prsParserOut struct {
	Results []prsParserRes `json:"results"`
	// Unstable: indices of inputs whose outcome (class, error text, configuration) differs when ParseData is called on them a second
	// time at the end of the run, after all the other inputs: the answer may depend on the bytes only, not on what was parsed before
	Unstable []int `json:"unstable"`
	Rerun    int   `json:"rerun"`
}

type prsCallRes struct {
	class string
	msg   string
	cfg   *prsPConfig
	dec   *prsTConfig
}

func prsUnderWatchdog(wd time.Duration, f func() prsCallRes) prsCallRes {
	done := make(chan prsCallRes, 1)
	go func() {
		defer func() {
			if r := recover(); r != nil {
				done <- prsCallRes{class: "panic", msg: fmt.Sprint(r)}
			}
		}()
		done <- f()
	}()
	select {
	case r := <-done:
		return r
	case <-time.After(wd):
		return prsCallRes{class: "hang", msg: "no result after " + wd.String()}
	}
}

func prsCut(s string) string {
	if len(s) > 300 {
		return s[:300]
	}
	return s
}

func verifParser(t *testing.T) {
	var in prsParserIn
	mustReadJSON(t, &in)
	stop := make(chan struct{})
	defer close(stop)
	go func() { // the logger's channel has capacity 128: drain it
		for {
			select {
			case <-logger.Messages:
			case <-stop:
				return
			}
		}
	}()
	wd := time.Duration(in.WatchdogMs) * time.Millisecond
	if wd <= 0 {
		wd = 5 * time.Second
	}
	var progress *os.File
	if p := os.Getenv("VERIF_OUT"); p != "" {
		progress, _ = os.Create(p + ".progress")
	}
	out := prsParserOut{Results: make([]prsParserRes, 0, len(in.Inputs))}
	for i, b64 := range in.Inputs {
		if progress != nil {
			progress.WriteAt([]byte(fmt.Sprintf("%010d", i)), 0)
		}
		data, err := base64.StdEncoding.DecodeString(b64)
		if err != nil {
			t.Fatalf("verif: bad base64 at %d", i)
		}
		impl := prsUnderWatchdog(wd, func() prsCallRes {
			c, err := ParseData(append([]byte{}, data...))
			if err != nil {
				return prsCallRes{class: "error", msg: err.Error()}
			}
			r := prsCallRes{class: "ok"}
			if in.WantConfig {
				r.cfg = prsCanonConfig(c)
			}
			return r
		})
		wantDec := in.WantDec && (in.DecMaxLen == 0 || len(data) <= in.DecMaxLen)
		orac := prsUnderWatchdog(wd, func() prsCallRes {
			cfg := TOMLDeviceConfig{}
			d := toml.NewDecoder(bytes.NewReader(append([]byte{}, data...)))
			d.DisallowUnknownFields()
			if err := d.Decode(&cfg); err != nil {
				return prsCallRes{class: "error", msg: err.Error()}
			}
			r := prsCallRes{class: "ok"}
			if wantDec {
				r.dec = prsCanonDecoded(&cfg)
			}
			return r
		})
		out.Results = append(out.Results, prsParserRes{Class: impl.class, Err: prsCut(impl.msg), Cfg: impl.cfg,
			DecClass: orac.class, DecErr: prsCut(orac.msg), Dec: orac.dec})
	}
	// second pass over a spread of the inputs (every k-th, at most 4000): same bytes, same answer - this time from 8 goroutines at
	// once, each parsing other documents (configurations are parsed from more than one goroutine; a parser that keeps scratch state
	// between or across calls answers differently here)
	out.Unstable = []int{}
	step := len(in.Inputs)/4000 + 1
	var picks []int
	for i := 0; i < len(in.Inputs); i += step {
		if out.Results[i].Class != "hang" && out.Results[i].Class != "panic" {
			picks = append(picks, i)
		}
	}
	const G = 8
	unstable := make([][]int, G)
	var wg sync.WaitGroup
	for g := 0; g < G; g++ {
		wg.Add(1)
		go func(g int) {
			defer wg.Done()
			for k := g; k < len(picks); k += G {
				i := picks[k]
				first := out.Results[i]
				data, _ := base64.StdEncoding.DecodeString(in.Inputs[i])
				again := prsUnderWatchdog(wd, func() prsCallRes {
					c, err := ParseData(append([]byte{}, data...))
					if err != nil {
						return prsCallRes{class: "error", msg: err.Error()}
					}
					r := prsCallRes{class: "ok"}
					if in.WantConfig {
						r.cfg = prsCanonConfig(c)
					}
					return r
				})
				same := again.class == first.Class // (the error TEXT may differ: which of several errors is reported follows Go's map iteration order)
				if same && in.WantConfig && first.Cfg != nil && again.cfg != nil {
					a, _ := json.Marshal(first.Cfg)
					b, _ := json.Marshal(again.cfg)
					same = string(a) == string(b)
				}
				if !same {
					unstable[g] = append(unstable[g], i)
				}
			}
		}(g)
	}
	wg.Wait()
	out.Rerun = len(picks)
	for g := 0; g < G; g++ {
		out.Unstable = append(out.Unstable, unstable[g]...)
	}
	sort.Ints(out.Unstable)
	if progress != nil {
		progress.Close()
		os.Remove(progress.Name())
	}
	mustWriteJSON(t, &out)
}

// ---- tables

type prsNameCode struct {
	Name []int `json:"name"`
	Code int   `json:"code"`
}

type prsTablesOut struct {
	Keys    []prsNameCode `json:"keys"`
	Abs     []prsNameCode `json:"abs"`
	Actions [][]int       `json:"actions"` // SupportedActions entries with value true
	Types   [][]int       `json:"types"`
	CModes  [][]int       `json:"cmodes"`
	False   int           `json:"false_entries"` // entries of the Supported* maps whose value is false (must be 0)
}

func verifParserTables(t *testing.T) {
	out := prsTablesOut{}
	for _, k := range prsSortedKeys(evdev.KEYFromString) {
		out.Keys = append(out.Keys, prsNameCode{bytesOf(k), int(evdev.KEYFromString[k])})
	}
	for _, k := range prsSortedKeys(evdev.ABSFromString) {
		out.Abs = append(out.Abs, prsNameCode{bytesOf(k), int(evdev.ABSFromString[k])})
	}
	var a, ty, cm []string
	for k, v := range SupportedActions {
		if v {
			a = append(a, string(k))
		} else {
			out.False++
		}
	}
	for k, v := range SupportedMappingTypes {
		if v {
			ty = append(ty, string(k))
		} else {
			out.False++
		}
	}
	for k, v := range SupportedCollisionModes {
		if v {
			cm = append(cm, string(k))
		} else {
			out.False++
		}
	}
	sort.Strings(a)
	sort.Strings(ty)
	sort.Strings(cm)
	for _, s := range a {
		out.Actions = append(out.Actions, bytesOf(s))
	}
	for _, s := range ty {
		out.Types = append(out.Types, bytesOf(s))
	}
	for _, s := range cm {
		out.CModes = append(out.CModes, bytesOf(s))
	}
	mustWriteJSON(t, &out)
}
