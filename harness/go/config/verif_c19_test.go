//go:build verif

package config

import (
	"bytes"
	"context"
	"fmt"
	"os"
	"path/filepath"
	"runtime"
	"strings"
	"sync"
	"syscall"
	"testing"
	"time"
	"unicode"

	"github.com/fsnotify/fsnotify"
	"github.com/gethiox/HIDI/internal/pkg/logger"
)

// C19: runs the real DetectDeviceConfigChanges in a temporary hidi-config tree (the directory constants are relative:
// the harness chdirs, scenarios run sequentially), executes a script of file operations, and records when each
// operation began/returned, when the consumer received notifications, and what happened after cancel (goroutines of
// monitor.go still alive, stream closed or not).  A second, independent fsnotify watcher on the same four directories
// records which events (Op mask, name) the kernel + fsnotify really delivered.  All times: microseconds since the
// scenario's start, one monotonic clock.

func init() { verifModes["c19"] = verifC19 }

type c19Step struct {
	Kind  string `json:"kind"`
	Dir   int    `json:"dir"`   // 0..3 = factory/gamepad, factory/keyboard, user/gamepad, user/keyboard
	Sub   bool   `json:"sub"`   // inside <dir>/nested (not watched)
	Name  []int  `json:"name"`  // file name bytes
	Name2 []int  `json:"name2"` // rename target
	GapMs int    `json:"gap_ms"`
	Size  int    `json:"size"`
}

type c19Pre struct {
	Dir  int   `json:"dir"`
	Sub  bool  `json:"sub"`
	Name []int `json:"name"`
	Suid bool  `json:"suid"`
}

type c19Scen struct {
	Name           string    `json:"name"`
	Pre            []c19Pre  `json:"pre"`
	Steps          []c19Step `json:"steps"`
	DelayMs        int       `json:"delay_ms"`         // consumer sleeps that long after every receive
	StopReadBefore int       `json:"stop_read_before"` // the consumer stops reading before this step index (len = after the settle time); -1 = never
	CancelBefore   int       `json:"cancel_before"`    // cancel before this step index (len(steps) = after all steps)
	CancelGapMs    int       `json:"cancel_gap_ms"`    // sleep before cancel
	SettleMs       int       `json:"settle_ms"`        // sleep after the last executed step, before stop-reading / cancel
	GoneWaitMs     int       `json:"gone_wait_ms"`     // how long to wait for monitor.go goroutines to end after cancel
	// Broken: "" or "<dir index>:<dangling|missing|file>": that watched directory is, before the watcher starts, a dangling symbolic link /
	// absent / a regular file (trees the loader accepts: it walks what is there); the other directories must be served as always
	Broken string `json:"broken"`
}

type c19In struct {
	Sweep     bool      `json:"sweep"`
	Scenarios []c19Scen `json:"scenarios"`
}

type c19StepRec struct {
	Start int64  `json:"start"`
	Done  int64  `json:"done"`
	Err   string `json:"err"`
}

type c19Ev struct {
	T    int64  `json:"t"`
	Op   uint32 `json:"op"`
	Name []int  `json:"name"`
}

type c19Res struct {
	Setup      string       `json:"setup"`
	Panic      string       `json:"panic"`
	Stale      int          `json:"stale"`   // goroutines with monitor.go frames left over from earlier scenarios of this process
	Watches    int          `json:"watches"` // inotify watches of the instance created by DetectDeviceConfigChanges when the script began
	Steps      []c19StepRec `json:"steps"`   // executed steps only
	Notes      []int64      `json:"notes"`   // receive times
	ReadUntil  int64        `json:"read_until"`
	Reading    bool         `json:"reading_at_cancel"`
	Cancel     int64        `json:"cancel"`
	Gone       int64        `json:"gone"`        // -1: goroutines of monitor.go still alive when the wait ended
	Closed     int64        `json:"closed"`      // -1: not observed closed
	LateValues int          `json:"late_values"` // values received by the harness' own reads after the wait (no reader before)
	ClosedLate int64        `json:"closed_late"` // -1 / time the stream closed after those late reads released the goroutine
	Stacks     string       `json:"stacks"`      // goroutines with monitor.go frames at the end of the wait
	FsReaders  int          `json:"fs_readers"`  // fsnotify readEvents goroutines left at the very end (reference closed)
	Ref        []c19Ev      `json:"ref"`
	UnprivOK   bool         `json:"unpriv_ok"`
}

type c19Out struct {
	Results []c19Res `json:"results"`
	// runes >= 0x80 whose unicode.ToLower is ASCII: [rune, lower]
	LowerPre [][2]int `json:"lower_pre"`
	// single bytes >= 0x80 b for which strings.ToLower(b + ".TOML") does not end in ".toml" or strings.ToLower(b) contains ASCII
	LowerBytesBad []int `json:"lower_bytes_bad"`
}

var c19Dirs = []string{factoryGamepad, factoryKeyboard, userGamepad, userKeyboard}

var c19DrainOnce sync.Once

func c19StartDrain() {
	c19DrainOnce.Do(func() {
		go func() {
			for range logger.Messages {
			}
		}()
	})
}

func c19Bytes(b []int) string {
	r := make([]byte, len(b))
	for i, x := range b {
		r[i] = byte(x)
	}
	return string(r)
}

func c19Path(dir int, sub bool, name []int) string {
	if sub {
		return filepath.Join(c19Dirs[dir], "nested", c19Bytes(name))
	}
	return filepath.Join(c19Dirs[dir], c19Bytes(name))
}

// inotify instances of this process -> number of watches
func c19Inotify() map[string]int {
	res := map[string]int{}
	ents, err := os.ReadDir("/proc/self/fd")
	if err != nil {
		return res
	}
	for _, e := range ents {
		l, err := os.Readlink("/proc/self/fd/" + e.Name())
		if err != nil || l != "anon_inode:inotify" {
			continue
		}
		data, err := os.ReadFile("/proc/self/fdinfo/" + e.Name())
		if err != nil {
			continue
		}
		res[e.Name()] = strings.Count(string(data), "inotify wd:")
	}
	return res
}

func c19MonitorStacks() (string, int) {
	buf := make([]byte, 1<<20)
	n := runtime.Stack(buf, true)
	var keep []string
	readers := 0
	for _, g := range strings.Split(string(buf[:n]), "\n\n") {
		if strings.Contains(g, "device/config/monitor.go") {
			keep = append(keep, g)
		}
		if strings.Contains(g, "fsnotify.(*Watcher).readEvents") {
			readers++
		}
	}
	return strings.Join(keep, "\n\n"), readers
}

func c19Unpriv(f func() error) (err error, ok bool) {
	done := make(chan struct{})
	go func() {
		defer close(done)
		// per-thread credentials; the thread is never unlocked, so the runtime destroys it when the goroutine ends
		runtime.LockOSThread()
		syscall.Setfsgid(65534)
		syscall.Setfsuid(65534)
		cur, _, _ := syscall.RawSyscall(syscall.SYS_SETFSUID, ^uintptr(0), 0, 0)
		ok = int32(cur) == 65534
		err = f()
	}()
	<-done
	return
}

func c19Content(n int) []byte {
	if n < 1 {
		n = 1
	}
	return bytes.Repeat([]byte("k = 1\n"), n/6+1)[:n]
}

func c19Do(st *c19Step, res *c19Res) error {
	p := c19Path(st.Dir, st.Sub, st.Name)
	switch st.Kind {
	case "trunc_write":
		f, err := os.OpenFile(p, os.O_WRONLY|os.O_TRUNC, 0)
		if err != nil {
			return err
		}
		_, err = f.Write(c19Content(st.Size))
		f.Close()
		return err
	case "append":
		f, err := os.OpenFile(p, os.O_WRONLY|os.O_APPEND, 0)
		if err != nil {
			return err
		}
		_, err = f.Write(c19Content(st.Size))
		f.Close()
		return err
	case "overwrite":
		f, err := os.OpenFile(p, os.O_WRONLY, 0)
		if err != nil {
			return err
		}
		_, err = f.Write(c19Content(st.Size))
		f.Close()
		return err
	case "truncate":
		return os.Truncate(p, int64(st.Size))
	case "create_write":
		f, err := os.OpenFile(p, os.O_WRONLY|os.O_CREATE|os.O_EXCL, 0o644)
		if err != nil {
			return err
		}
		_, err = f.Write(c19Content(st.Size))
		f.Close()
		return err
	case "create_empty":
		f, err := os.OpenFile(p, os.O_WRONLY|os.O_CREATE|os.O_EXCL, 0o644)
		if err != nil {
			return err
		}
		return f.Close()
	case "chmod":
		return os.Chmod(p, os.FileMode(0o600+st.Size%0o100))
	case "rename":
		return os.Rename(p, c19Path(st.Dir, st.Sub, st.Name2))
	case "remove":
		return os.Remove(p)
	case "suid_trunc":
		if err := os.Chmod(p, 0o666|os.ModeSetuid); err != nil {
			return err
		}
		err, ok := c19Unpriv(func() error { return os.Truncate(p, int64(st.Size)) })
		res.UnprivOK = ok
		if err == nil && !ok {
			err = fmt.Errorf("setfsuid did not take effect")
		}
		return err
	}
	return fmt.Errorf("unknown step kind %q", st.Kind)
}

func c19Run(sc *c19Scen, home string) (res c19Res) {
	res = c19Res{Steps: []c19StepRec{}, Notes: []int64{}, Ref: []c19Ev{}, Gone: -1, Closed: -1, ClosedLate: -1, Cancel: -1}
	dir, err := os.MkdirTemp("", "verif-c19-")
	if err != nil {
		res.Setup = err.Error()
		return
	}
	defer func() {
		os.Chdir(home)
		os.RemoveAll(dir)
	}()
	os.Chmod(dir, 0o755)
	for _, d := range c19Dirs {
		if err = os.MkdirAll(filepath.Join(dir, d, "nested"), 0o755); err != nil {
			res.Setup = err.Error()
			return
		}
	}
	if err = os.Chdir(dir); err != nil {
		res.Setup = err.Error()
		return
	}
	if sc.Broken != "" {
		var bd int
		var kind string
		if _, err = fmt.Sscanf(strings.Replace(sc.Broken, ":", " ", 1), "%d %s", &bd, &kind); err != nil || bd < 0 || bd >= len(c19Dirs) {
			res.Setup = "bad broken spec " + sc.Broken
			return
		}
		if kind == "linkdir" {
			// the configuration directory itself is a symbolic link to a real directory elsewhere (dotfiles layout): watched like any other
			real := fmt.Sprintf("real-dir-%d", bd)
			if err = os.Rename(c19Dirs[bd], real); err == nil {
				abs, _ := filepath.Abs(real)
				err = os.Symlink(abs, c19Dirs[bd])
			}
			if err != nil {
				res.Setup = err.Error()
				return
			}
		} else {
			os.RemoveAll(c19Dirs[bd])
		}
		switch kind {
		case "dangling":
			err = os.Symlink("does-not-exist", c19Dirs[bd])
		case "file":
			err = os.WriteFile(c19Dirs[bd], []byte("not a directory\n"), 0o644)
		}
		if err != nil {
			res.Setup = err.Error()
			return
		}
	}
	for _, p := range sc.Pre {
		path := c19Path(p.Dir, p.Sub, p.Name)
		if err = os.WriteFile(path, []byte("[identifier]\nbus = 3\n"), 0o666); err == nil {
			mode := os.FileMode(0o666)
			if p.Suid {
				mode |= os.ModeSetuid
			}
			err = os.Chmod(path, mode)
		}
		if err != nil {
			res.Setup = fmt.Sprintf("pre %q: %v", path, err)
			return
		}
	}

	base := time.Now()
	us := func() int64 { return time.Since(base).Microseconds() }
	ctx, cancel := context.WithCancel(context.Background())
	defer cancel()
	before := c19Inotify()
	if st, _ := c19MonitorStacks(); st != "" {
		res.Stale = strings.Count(st, "\n\n") + 1
	}
	var ch <-chan bool
	func() {
		defer func() {
			if r := recover(); r != nil {
				res.Panic = fmt.Sprint(r)
			}
		}()
		ch = DetectDeviceConfigChanges(ctx)
	}()
	if ch == nil {
		return
	}
	// wait (bounded) until the new inotify instance has its four watches; proceed in any case
	for t0 := time.Now(); time.Since(t0) < 400*time.Millisecond; time.Sleep(2 * time.Millisecond) {
		res.Watches = 0
		for fd, n := range c19Inotify() {
			if _, old := before[fd]; !old && n > res.Watches {
				res.Watches = n
			}
		}
		if res.Watches >= 4 || (sc.Broken != "" && !strings.HasSuffix(sc.Broken, ":linkdir") && res.Watches >= 3) {
			break
		}
	}

	// reference watcher
	var refMu sync.Mutex
	ref, err := fsnotify.NewWatcher()
	if err != nil {
		res.Setup = "reference watcher: " + err.Error()
		return
	}
	for i, d := range c19Dirs {
		if sc.Broken != "" && strings.HasPrefix(sc.Broken, fmt.Sprint(i)+":") && !strings.HasSuffix(sc.Broken, ":linkdir") {
			continue // cannot be watched by anybody
		}
		if err = ref.Add(d); err != nil {
			res.Setup = "reference watcher: " + err.Error()
			ref.Close()
			return
		}
	}
	refDone := make(chan struct{})
	go func() {
		defer close(refDone)
		for e := range ref.Events {
			refMu.Lock()
			res.Ref = append(res.Ref, c19Ev{T: us(), Op: uint32(e.Op), Name: bytesOf(e.Name)})
			refMu.Unlock()
		}
	}()
	go func() {
		for range ref.Errors {
		}
	}()

	// consumer
	var (
		noteMu       sync.Mutex
		stopRead           = make(chan struct{})
		consumerDone       = make(chan struct{})
		closedAt     int64 = -1
		stopped      bool
	)
	go func() {
		defer close(consumerDone)
		for {
			select {
			case <-stopRead:
				return
			case _, ok := <-ch:
				t := us()
				if !ok {
					closedAt = t
					return
				}
				noteMu.Lock()
				res.Notes = append(res.Notes, t)
				noteMu.Unlock()
				if sc.DelayMs > 0 {
					select {
					case <-time.After(time.Duration(sc.DelayMs) * time.Millisecond):
					case <-stopRead:
						return
					}
				}
			}
		}
	}()
	stop := func() {
		if !stopped {
			stopped = true
			close(stopRead)
			<-consumerDone
			res.ReadUntil = us()
		}
	}

	n := len(sc.Steps)
	for i := 0; i <= n; i++ {
		if i == n {
			time.Sleep(time.Duration(sc.SettleMs) * time.Millisecond)
		}
		if i == sc.StopReadBefore {
			stop()
		}
		if i == sc.CancelBefore || i == n {
			break
		}
		st := &sc.Steps[i]
		time.Sleep(time.Duration(st.GapMs) * time.Millisecond)
		rec := c19StepRec{Start: us()}
		if e := c19Do(st, &res); e != nil {
			rec.Err = e.Error()
		}
		rec.Done = us()
		res.Steps = append(res.Steps, rec)
	}
	time.Sleep(time.Duration(sc.CancelGapMs) * time.Millisecond)
	res.Reading = !stopped
	res.Cancel = us()
	cancel()

	// wait for the goroutines of monitor.go to end, without reading from the stream ourselves
	wait := time.Duration(sc.GoneWaitMs) * time.Millisecond
	for t0 := time.Now(); ; time.Sleep(3 * time.Millisecond) {
		stacks, _ := c19MonitorStacks()
		if stacks == "" {
			res.Gone = us()
			break
		}
		if time.Since(t0) > wait {
			res.Stacks = stacks
			break
		}
	}
	if res.Reading {
		// the consumer sees the close itself
		select {
		case <-consumerDone:
		case <-time.After(300 * time.Millisecond):
		}
		stop()
		res.Closed = closedAt
		if res.Cancel < res.ReadUntil {
			res.ReadUntil = res.Cancel
		}
	}
	if res.Closed < 0 {
		// nobody was reading (or the consumer gave up): look at the stream now
		deadline := time.After(300 * time.Millisecond)
	look:
		for {
			select {
			case _, ok := <-ch:
				if !ok {
					if res.LateValues == 0 {
						res.Closed = us()
					} else {
						res.ClosedLate = us()
					}
					break look
				}
				res.LateValues++
				deadline = time.After(1000 * time.Millisecond)
			case <-deadline:
				break look
			}
		}
	}
	time.Sleep(40 * time.Millisecond) // let the reference watcher see the last events
	ref.Close()
	<-refDone
	time.Sleep(5 * time.Millisecond)
	_, res.FsReaders = c19MonitorStacks()
	return
}

func c19Sweep(out *c19Out) {
	out.LowerPre = [][2]int{}
	out.LowerBytesBad = []int{}
	for r := rune(0x80); r <= unicode.MaxRune; r++ {
		if l := unicode.ToLower(r); l < 0x80 {
			out.LowerPre = append(out.LowerPre, [2]int{int(r), int(l)})
		}
	}
	for b := 0x80; b <= 0xff; b++ {
		s := strings.ToLower(string([]byte{byte(b)}))
		bad := !strings.HasSuffix(strings.ToLower(string([]byte{byte(b)})+".TOML"), ".toml")
		for i := 0; i < len(s); i++ {
			if s[i] < 0x80 {
				bad = true
			}
		}
		if bad {
			out.LowerBytesBad = append(out.LowerBytesBad, b)
		}
	}
}

func verifC19(t *testing.T) {
	var in c19In
	mustReadJSON(t, &in)
	c19StartDrain()
	home, _ := os.Getwd()
	out := c19Out{Results: []c19Res{}}
	if in.Sweep {
		c19Sweep(&out)
	}
	for i := range in.Scenarios {
		out.Results = append(out.Results, c19Run(&in.Scenarios[i], home))
	}
	mustWriteJSON(t, &out)
}
