//go:build verif

package config

import (
	"bytes"
	"encoding/json"
	"math/rand"
	"os"
	"strconv"
	"sync"
	"testing"
)

// C11: exhaustive sweep of StringToNote over all strings up to a given length over an alphabet,
// plus random longer strings; reports every accepted string with its value, and the names of 0..127.

type c11In struct {
	Alphabet  string `json:"alphabet"`
	MaxLen    int    `json:"maxlen"`
	Len4Count int    `json:"len4_count"` // sampled length-(maxlen+1) strings
	LongCount int    `json:"long_count"` // random longer / arbitrary-byte strings
	Seed      int64  `json:"seed"`
	// CodePoints: sweep all 1.1 M Unicode scalar values through eight name shapes
	CodePoints bool `json:"code_points"`
}

type c11Acc struct {
	S []int `json:"s"`
	N int   `json:"n"`
}

type c11Out struct {
	Tried      int      `json:"tried"`
	Accepted   []c11Acc `json:"accepted"`
	Unstable   [][]int  `json:"unstable"` // strings whose second evaluation (after all others) differs from the first
	Pitch      [][]int  `json:"pitch"`    // NoteToPitch(n) bytes, n = 0..127
	Octave     []int    `json:"octave"`   // NoteToOctave(n)
	Panics     []string `json:"panics"`
	OctaveCold []int    `json:"octave_cold"`
	PitchCold  [][]int  `json:"pitch_cold"`
	// Concurrent: answers that differ from the sequential ones when 16 goroutines convert different strings at the same time
	Concurrent      []c11Conc `json:"concurrent"`
	ConcurrentCalls int       `json:"concurrent_calls"`
}

type c11Conc struct {
	S    []int `json:"s"`
	Got  int   `json:"got"`  // -1 = rejected, -2 = panic
	Want int   `json:"want"` // -1 = rejected
}

func bytesOf(s string) []int {
	r := make([]int, len(s))
	for i := 0; i < len(s); i++ {
		r[i] = int(s[i])
	}
	return r
}

func verifC11(t *testing.T) {
	var in c11In
	mustReadJSON(t, &in)
	out := c11Out{Accepted: []c11Acc{}, Panics: []string{}, Unstable: [][]int{}}
	// before ANYTHING else of the package has been called in this process: the octave of every number (then the pitch names); compared at
	// the end with the answers after millions of other calls - the answer depends on the number only, not on what was called before
	for n := 0; n < 128; n++ {
		out.OctaveCold = append(out.OctaveCold, NoteToOctave(byte(n)))
	}
	for n := 0; n < 128; n++ {
		out.PitchCold = append(out.PitchCold, bytesOf(NoteToPitch(byte(n))))
	}
	try := func(s string) {
		defer func() {
			if r := recover(); r != nil {
				out.Panics = append(out.Panics, strconv.Quote(s))
			}
		}()
		out.Tried++
		n, err := StringToNote(s)
		if err == nil {
			out.Accepted = append(out.Accepted, c11Acc{bytesOf(s), int(n)})
		}
	}
	alpha := []byte(in.Alphabet)
	var rec func(prefix []byte, left int)
	rec = func(prefix []byte, left int) {
		try(string(prefix))
		if left == 0 {
			return
		}
		for _, c := range alpha {
			rec(append(prefix, c), left-1)
		}
	}
	rec([]byte{}, in.MaxLen)
	// every byte string of length <= 2 over ALL 256 byte values, and every string of length 3 with one arbitrary byte (any
	// position) and the other two from the alphabet: bytes >= 0x80, control characters, punctuation
	for a := 0; a < 256; a++ {
		if !bytes.ContainsRune(alpha, rune(a)) || a >= 0x80 {
			try(string([]byte{byte(a)}))
		}
		for b := 0; b < 256; b++ {
			if a >= 0x80 || b >= 0x80 || !bytes.Contains(alpha, []byte{byte(a)}) || !bytes.Contains(alpha, []byte{byte(b)}) {
				try(string([]byte{byte(a), byte(b)}))
			}
		}
	}
	for x := 0; x < 256; x++ {
		if x < 0x80 && bytes.Contains(alpha, []byte{byte(x)}) {
			continue
		}
		for _, c := range alpha {
			for _, d := range alpha {
				try(string([]byte{byte(x), c, d}))
				try(string([]byte{c, byte(x), d}))
				try(string([]byte{c, d, byte(x)}))
			}
		}
	}
	// every Unicode scalar value (UTF-8 encoded) in each position of a note name: as the pitch letter, as the sharp sign, as the octave
	// digit, as the minus sign - letters and digits of other scripts, look-alikes, characters that case-fold to ASCII (U+212A, U+017F)
	if in.CodePoints {
		for cp := rune(0x80); cp <= 0x10FFFF; cp++ {
			if cp >= 0xD800 && cp <= 0xDFFF {
				continue
			}
			c := string(cp)
			try(c + "0")
			try(c + "#0")
			try(c + "-1")
			try(c + "#-1")
			try("c" + c)
			try("c#" + c)
			try("c" + c + "1")
			try("c-" + c)
		}
	}
	rng := rand.New(rand.NewSource(in.Seed))
	for i := 0; i < in.Len4Count; i++ {
		b := make([]byte, in.MaxLen+1)
		for j := range b {
			b[j] = alpha[rng.Intn(len(alpha))]
		}
		// bias towards the regular expression's shape
		if rng.Intn(2) == 0 {
			b[len(b)-1] = byte('0' + rng.Intn(10))
		}
		try(string(b))
	}
	for i := 0; i < in.LongCount; i++ {
		n := 1 + rng.Intn(8)
		b := make([]byte, n)
		for j := range b {
			switch rng.Intn(3) {
			case 0:
				b[j] = byte(rng.Intn(256))
			default:
				b[j] = alpha[rng.Intn(len(alpha))]
			}
		}
		try(string(b))
		// valid name with one extra byte before/after/inside
		base := []byte(NoteToPitch(byte(rng.Intn(128))) + strconv.Itoa(NoteToOctave(byte(rng.Intn(128)))))
		pos := rng.Intn(len(base) + 1)
		ext := append(append(append([]byte{}, base[:pos]...), byte(rng.Intn(256))), base[pos:]...)
		try(string(ext))
	}
	// same string, same answer: every accepted string and every string of length <= 2 over the alphabet once more, after everything
	// else has been through StringToNote
	first := map[string]int{}
	for _, a := range out.Accepted {
		b := make([]byte, len(a.S))
		for i, v := range a.S {
			b[i] = byte(v)
		}
		first[string(b)] = a.N
	}
	again := func(s string) {
		defer func() { recover() }()
		n, err := StringToNote(s)
		v, was := first[s]
		if (err == nil) != was || (err == nil && int(n) != v) {
			out.Unstable = append(out.Unstable, bytesOf(s))
		}
	}
	for s := range first {
		again(s)
	}
	for _, c := range alpha {
		again(string([]byte{c}))
		for _, d := range alpha {
			again(string([]byte{c, d}))
		}
	}
	// the answer depends on the string only - also when other strings are being converted at the same moment (configurations are
	// parsed from more than one goroutine): every accepted name, look-alikes that must be rejected and every string of length <= 2
	// over the alphabet, from 16 goroutines at once, each walking the list from another offset; compared with the sequential answers
	{
		var pool []string
		for s := range first {
			pool = append(pool, s)
		}
		for _, s := range []string{"x0", "h4", "H1", "e#3", "b#2", "E#-1", "q9", "c", "c#", "#1", "cb4", "z-1", "I0", "h#0", "y5", "r#7"} {
			pool = append(pool, s, s, s, s)
		}
		for _, c := range alpha {
			for _, d := range alpha {
				pool = append(pool, string([]byte{c, d}))
			}
		}
		const G = 16
		res := make([][]c11Conc, G)
		calls := make([]int, G)
		var wg sync.WaitGroup
		for g := 0; g < G; g++ {
			wg.Add(1)
			go func(g int) {
				defer wg.Done()
				one := func(s string) {
					got := -1
					func() {
						defer func() {
							if r := recover(); r != nil {
								got = -2
							}
						}()
						if n, err := StringToNote(s); err == nil {
							got = int(n)
						}
					}()
					calls[g]++
					want := -1
					if v, ok := first[s]; ok {
						want = v
					}
					if got != want && len(res[g]) < 20 {
						res[g] = append(res[g], c11Conc{bytesOf(s), got, want})
					}
				}
				for round := 0; round < 12; round++ {
					off := (g*977 + round*131) % len(pool)
					for i := range pool {
						one(pool[(off+i*(1+2*(g%4)))%len(pool)])
					}
				}
			}(g)
		}
		wg.Wait()
		out.Concurrent = []c11Conc{}
		for g := 0; g < G; g++ {
			out.Concurrent = append(out.Concurrent, res[g]...)
			out.ConcurrentCalls += calls[g]
		}
	}
	for n := 0; n < 128; n++ {
		out.Pitch = append(out.Pitch, bytesOf(NoteToPitch(byte(n))))
		out.Octave = append(out.Octave, NoteToOctave(byte(n)))
	}
	mustWriteJSON(t, &out)
}

func mustReadJSON(t *testing.T, v interface{}) {
	data, err := os.ReadFile(os.Getenv("VERIF_IN"))
	if err != nil {
		t.Fatalf("verif: cannot read input: %v", err)
	}
	if err := json.Unmarshal(data, v); err != nil {
		t.Fatalf("verif: bad input: %v", err)
	}
}

func mustWriteJSON(t *testing.T, v interface{}) {
	data, err := json.Marshal(v)
	if err != nil {
		t.Fatalf("verif: cannot encode output: %v", err)
	}
	if err := os.WriteFile(os.Getenv("VERIF_OUT"), data, 0o644); err != nil {
		t.Fatalf("verif: cannot write output: %v", err)
	}
}

func TestVerif(t *testing.T) {
	switch os.Getenv("VERIF_MODE") {
	case "c11":
		verifC11(t)
	default:
		if fn, ok := verifModes[os.Getenv("VERIF_MODE")]; ok {
			fn(t)
			return
		}
		t.Skip("no VERIF_MODE")
	}
}

var verifModes = map[string]func(*testing.T){}
