// Package alsa — verification stub. The real file links rtmidi through cgo, which cannot be built in the
// sandbox; nothing under verification lives there. It is mapped over
// /repo/internal/pkg/midi/driver/alsa/alsa.go with `go test -overlay` (see lib/common.py:overlay_file);
// nothing is written into /repo. It exports exactly what cmd/hidi imports: CreatePort, GetPorts, PickMidiPort.
package alsa

import (
	"fmt"

	"github.com/gethiox/HIDI/internal/pkg/midi/driver"
)

func CreatePort(name string) (driver.Port, error) {
	return driver.Port{}, fmt.Errorf("alsa stub: no MIDI driver in the verification build")
}

func GetPorts() []driver.Port { return []driver.Port{} }

func PickMidiPort(idx int) (driver.Port, error) {
	return driver.Port{}, fmt.Errorf("alsa stub: midi port ID %d doesn't exist", idx)
}
