//go:build verif

package midi

// C15 (relay half, long sessions): one real ProcessMidiEvents instance carries tens of thousands of tagged messages in both
// directions at once (devices -> port and port -> devices).  State that only goes wrong after a long session - counters
// wrapping at 2^8 / 2^16, ring indices - needs (a) many messages and (b) backpressure at the right absolute message index.
// Each direction therefore has a *script* for its consumer: between the scripted points the producer is held `window`
// messages ahead of the consumer at most (0 = lockstep: every buffer of the relay is empty), at a scripted point the
// consumer stops reading, the producer runs ahead until it is blocked in a send (every buffer of the relay is full, whatever
// the capacities are: detected by the absence of progress, not by counting), and then the consumer either drains or
// "slides": reads one message, waits until the producer is blocked again, and so on, so that the buffers are full at every
// absolute index of a range.
//
// The j-th message of emitter k is the 3-byte channel message Run/TransportLongRun.v:cmsg k j.  Nothing is judged here: the
// recorded message lists go to the Coq monitors Run/TransportRun.v:relay_ok / in_ok (lib/c15.py writes them as runs of the
// counter sequence and re-expands them in Coq).

import (
	"context"
	"math/rand"
	"runtime"
	"sync"
	"sync/atomic"
	"testing"
	"time"

	"github.com/gethiox/HIDI/internal/pkg/logger"
	"github.com/gethiox/HIDI/internal/pkg/midi/driver"
)

type c15LongOp struct {
	At     int64  `json:"at"`     // performed when the consumer has received exactly that many messages
	Mode   string `json:"mode"`   // full | slide | depth | window
	Steps  int    `json:"steps"`  // slide: number of (read one, wait until blocked again) steps
	K      int64  `json:"k"`      // depth: wait until the producer is K messages ahead (or blocked)
	Window int64  `json:"window"` // >= 0: the window in force after this op; < 0: unchanged
}

type c15LongDir struct {
	Items    int64       `json:"items"`
	Emitters int         `json:"emitters"` // out-direction only (the in-direction has one source: the port)
	Window   int64       `json:"window"`   // initial window: 0 = lockstep, large = free running
	Jitter   int         `json:"jitter"`
	Ops      []c15LongOp `json:"ops"` // sorted by At
}

type c15LongScenario struct {
	Name    string     `json:"name"`
	Seed    int64      `json:"seed"`
	OutCap  int        `json:"out_cap"`
	InCap   int        `json:"in_cap"`
	SendCap int        `json:"send_cap"`
	RecvCap int        `json:"recv_cap"`
	QuietUs int        `json:"quiet_us"` // no progress for that long = the producer is blocked
	BoundMs int        `json:"bound_ms"` // for the whole session
	Out     c15LongDir `json:"out"`
	In      c15LongDir `json:"in"`
}

type c15LongIn struct {
	GoMaxProcs int               `json:"gomaxprocs"`
	Scenarios  []c15LongScenario `json:"scenarios"`
}

type c15LongStall struct {
	At      int64 `json:"at"`      // messages received by the consumer when it stopped reading
	Depth   int64 `json:"depth"`   // sends started minus messages received when the stall ended
	Blocked bool  `json:"blocked"` // the stall ended because the producer made no progress (buffers full)
}

type c15LongScenarioOut struct {
	Name      string         `json:"name"`
	Sent      [][][]int      `json:"sent"`
	Port      [][]int        `json:"port"`
	Arrived   [][]int        `json:"arrived"`
	Got       [][]int        `json:"got"`
	OutStalls []c15LongStall `json:"out_stalls"`
	InStalls  []c15LongStall `json:"in_stalls"`
	Timeout   bool           `json:"timeout"`
	Ms        float64        `json:"ms"`
}

type c15LongOut struct {
	GoMaxProcs int                  `json:"gomaxprocs"`
	Scenarios  []c15LongScenarioOut `json:"scenarios"`
}

const c15LongFree = int64(1) << 40

// the j-th message of emitter k: the Go twin of Run/TransportLongRun.v:cmsg (j < 81920, k < 16)
func c15CMsg(k int, j int64) []byte {
	return []byte{c15Statuses[(j>>14)%5] | byte(k), byte((j >> 7) & 0x7f), byte(j & 0x7f)}
}

// one direction of one session: producers, the gate between producer and consumer, the scripted consumer
type c15LongStream struct {
	dir      c15LongDir
	quiet    time.Duration
	abort    chan struct{}
	ticket   atomic.Int64 // next global index to be sent
	started  atomic.Int64 // sends started
	done     atomic.Int64 // sends completed
	received atomic.Int64 // messages the consumer has taken
	window   atomic.Int64
	stalls   []c15LongStall
}

func (s *c15LongStream) aborted() bool {
	select {
	case <-s.abort:
		return true
	default:
		return false
	}
}

// producer k: takes the next global index, waits at the gate, sends its own next message
func (s *c15LongStream) produce(k int, seed int64, send func(m []byte) bool, record func(k int, m []byte)) {
	r := rand.New(rand.NewSource(seed))
	own := int64(0)
	for {
		t := s.ticket.Add(1) - 1
		if t >= s.dir.Items {
			return
		}
		for spins := 0; t-s.received.Load() > s.window.Load(); spins++ {
			if s.aborted() {
				return
			}
			if spins%64 == 63 {
				time.Sleep(5 * time.Microsecond)
			} else {
				runtime.Gosched()
			}
		}
		c15RelayJitter(r, s.dir.Jitter)
		m := c15CMsg(k, own)
		own++
		record(k, m)
		s.started.Add(1)
		if !send(m) {
			return
		}
		s.done.Add(1)
	}
}

// waits until the producer is blocked in a send (no progress for `quiet`), has finished, or - k > 0 - is k messages ahead
func (s *c15LongStream) waitAhead(k int64) (blocked bool) {
	last, lastDone := s.started.Load(), s.done.Load()
	since := time.Now()
	for i := 0; ; i++ {
		if s.aborted() {
			return false
		}
		st, dn := s.started.Load(), s.done.Load()
		if dn >= s.dir.Items {
			return false
		}
		if k > 0 && st-s.received.Load() >= k {
			return false
		}
		if st != last || dn != lastDone {
			last, lastDone, since = st, dn, time.Now()
		} else if st > dn && time.Since(since) >= s.quiet {
			return true
		}
		if i%16 == 15 {
			time.Sleep(10 * time.Microsecond)
		} else {
			runtime.Gosched()
		}
	}
}

// the scripted consumer; take() = one receive (false when aborted)
func (s *c15LongStream) consume(seed int64, take func() bool) {
	r := rand.New(rand.NewSource(seed))
	s.window.Store(s.dir.Window)
	base := s.dir.Window
	ops := s.dir.Ops
	n := int64(0)
	stall := func(k int64) {
		at := n
		b := s.waitAhead(k)
		s.stalls = append(s.stalls, c15LongStall{At: at, Depth: s.started.Load() - n, Blocked: b})
	}
	for n < s.dir.Items {
		for len(ops) > 0 && ops[0].At <= n {
			op := ops[0]
			ops = ops[1:]
			if op.At < n {
				continue // overtaken by a slide
			}
			switch op.Mode {
			case "full":
				s.window.Store(c15LongFree)
				stall(0)
			case "depth":
				s.window.Store(c15LongFree)
				stall(op.K)
			case "slide":
				s.window.Store(c15LongFree)
				stall(0)
				for i := 0; i < op.Steps && n < s.dir.Items; i++ {
					if !take() {
						return
					}
					n++
					s.received.Add(1)
					stall(0)
				}
			}
			if op.Window >= 0 {
				base = op.Window
			}
			s.window.Store(base)
		}
		if n >= s.dir.Items {
			break
		}
		if !take() {
			return
		}
		n++
		s.received.Add(1)
		c15RelayJitter(r, s.dir.Jitter)
	}
}

func c15RunLong(sc c15LongScenario) (res c15LongScenarioOut) {
	t0 := time.Now()
	res.Name = sc.Name
	bound := time.Duration(sc.BoundMs) * time.Millisecond
	if bound <= 0 {
		bound = 120 * time.Second
	}
	quiet := time.Duration(sc.QuietUs) * time.Microsecond
	if quiet <= 0 {
		quiet = 300 * time.Microsecond
	}
	ctx, cancel := context.WithCancel(context.Background())
	defer cancel()
	out := make(chan Event, sc.OutCap)
	in := make(chan Event, sc.InCap)
	fin := &c15FakeIn{ch: make(chan []byte, sc.RecvCap)}
	fout := &c15FakeOut{ch: make(chan []byte, sc.SendCap)}
	score := Score{}
	ProcessMidiEvents(ctx, driver.Port{Input: fin, Output: fout}, out, in, &score)

	abort := make(chan struct{})
	em := sc.Out.Emitters
	if em < 1 {
		em = 1
	}
	so := &c15LongStream{dir: sc.Out, quiet: quiet, abort: abort}
	si := &c15LongStream{dir: sc.In, quiet: quiet, abort: abort}
	so.window.Store(sc.Out.Window)
	si.window.Store(sc.In.Window)

	var mu sync.Mutex
	sent := make([][][]int, em)
	var port, arrived, got [][]int
	var wg sync.WaitGroup

	// ---- devices -> port
	for k := 0; k < em; k++ {
		wg.Add(1)
		go func(k int) {
			defer wg.Done()
			so.produce(k, sc.Seed*100+int64(k),
				func(m []byte) bool {
					select {
					case out <- Event(m):
						return true
					case <-abort:
						return false
					}
				},
				func(k int, m []byte) {
					mu.Lock()
					sent[k] = append(sent[k], c15Ints(m))
					mu.Unlock()
				})
		}(k)
	}
	wg.Add(1)
	go func() {
		defer wg.Done()
		so.consume(sc.Seed*100+50, func() bool {
			select {
			case b := <-fout.ch:
				mu.Lock()
				port = append(port, c15Ints(b))
				mu.Unlock()
				return true
			case <-abort:
				return false
			}
		})
	}()

	// ---- port -> devices
	wg.Add(1)
	go func() {
		defer wg.Done()
		si.produce(0, sc.Seed*100+60,
			func(m []byte) bool {
				select {
				case fin.ch <- m:
					return true
				case <-abort:
					return false
				}
			},
			func(_ int, m []byte) {
				mu.Lock()
				arrived = append(arrived, c15Ints(m))
				mu.Unlock()
			})
	}()
	wg.Add(1)
	go func() {
		defer wg.Done()
		si.consume(sc.Seed*100+70, func() bool {
			select {
			case b := <-in:
				mu.Lock()
				got = append(got, c15Ints(b))
				mu.Unlock()
				return true
			case <-abort:
				return false
			}
		})
	}()

	fin2 := make(chan struct{})
	go func() { wg.Wait(); close(fin2) }()
	select {
	case <-fin2:
		// nothing more may arrive: give stray duplicates a chance to show up
		time.Sleep(300 * time.Microsecond)
		for more := true; more; {
			select {
			case b := <-fout.ch:
				port = append(port, c15Ints(b))
			case b := <-in:
				got = append(got, c15Ints(b))
			default:
				more = false
			}
		}
	case <-time.After(bound):
		res.Timeout = true
		close(abort)
		<-fin2
	}
	cancel()
	mu.Lock()
	res.Sent, res.Port, res.Arrived, res.Got = sent, port, arrived, got
	mu.Unlock()
	for k := range res.Sent {
		if res.Sent[k] == nil {
			res.Sent[k] = [][]int{}
		}
	}
	if res.Port == nil {
		res.Port = [][]int{}
	}
	if res.Arrived == nil {
		res.Arrived = [][]int{}
	}
	if res.Got == nil {
		res.Got = [][]int{}
	}
	res.OutStalls, res.InStalls = so.stalls, si.stalls
	if res.OutStalls == nil {
		res.OutStalls = []c15LongStall{}
	}
	if res.InStalls == nil {
		res.InStalls = []c15LongStall{}
	}
	res.Ms = float64(time.Since(t0).Microseconds()) / 1000
	return res
}

func verifC15Long(t *testing.T) {
	var in c15LongIn
	mustReadJSON(t, &in)
	if in.GoMaxProcs > 0 {
		runtime.GOMAXPROCS(in.GoMaxProcs)
	}
	go func() { // logger.Messages (cap 128) must be drained or everything that logs blocks
		for range logger.Messages {
		}
	}()
	out := c15LongOut{GoMaxProcs: runtime.GOMAXPROCS(0)}
	for _, sc := range in.Scenarios {
		out.Scenarios = append(out.Scenarios, c15RunLong(sc))
	}
	mustWriteJSON(t, out)
}

func init() { verifModes["c15long"] = verifC15Long }
