//go:build verif

package midi

// C15 (relay half, long sessions): one real ProcessMidiEvents instance carries tens of thousands of tagged messages in both
// directions at once (devices -> port and port -> devices).  State that only goes wrong after a long session - counters
// wrapping at 2^8 / 2^16, ring indices - needs (a) many messages and (b) backpressure at the right absolute message index.
// Each direction therefore has a *script* for its consumer: between the scripted points the producer is held `window`
// messages ahead of the consumer at most (0 = lockstep: every buffer of the relay is empty), at a scripted point the
// consumer stops reading, the producer runs ahead until it is blocked in a send (every buffer of the relay is full, whatever
// the capacities are: detected by the absence of progress, not by counting), and then the consumer either drains or
// "slides": reads one message, waits until the producer is blocked again, and so on, so that the buffers are full at every
// absolute index of a range.
//
// The j-th message of emitter k is the 3-byte channel message Run/TransportLongRun.v:cmsg k j.  Nothing is judged here: the
// recorded message lists go to the Coq monitors Run/TransportRun.v:relay_ok / in_ok (lib/c15.py writes them as runs of the
// counter sequence and re-expands them in Coq).

import (
	"context"
	"math/rand"
	"runtime"
	"sync"
	"sync/atomic"
	"testing"
	"time"

	"github.com/gethiox/HIDI/internal/pkg/logger"
	"github.com/gethiox/HIDI/internal/pkg/midi/driver"
)

type c15LongOp struct {
	At     int64  `json:"at"`     // performed when the consumer has received exactly that many messages
	Mode   string `json:"mode"`   // full | slide | depth | window
	Steps  int    `json:"steps"`  // slide: number of (read one, wait until blocked again) steps
	K      int64  `json:"k"`      // depth: wait until the producer is K messages ahead (or blocked)
	Window int64  `json:"window"` // >= 0: the window in force after this op; < 0: unchanged
}

type c15LongDir struct {
	Items    int64       `json:"items"`
	Emitters int         `json:"emitters"` // out-direction only (the in-direction has one source: the port)
	Window   int64       `json:"window"`   // initial window: 0 = lockstep, large = free running
	Jitter   int         `json:"jitter"`
	Ops      []c15LongOp `json:"ops"` // sorted by At
}

type c15LongScenario struct {
	Name    string     `json:"name"`
	Seed    int64      `json:"seed"`
	OutCap  int        `json:"out_cap"`
	InCap   int        `json:"in_cap"`
	SendCap int        `json:"send_cap"`
	RecvCap int        `json:"recv_cap"`
	QuietUs int        `json:"quiet_us"` // no progress for that long = the producer is blocked
	BoundMs int        `json:"bound_ms"` // for the whole session
	Out     c15LongDir `json:"out"`
	In      c15LongDir `json:"in"`
}

type c15LongIn struct {
	GoMaxProcs int               `json:"gomaxprocs"`
	Scenarios  []c15LongScenario `json:"scenarios"`
}

type c15LongStall struct {
	At      int64 `json:"at"`      // messages received by the consumer when it stopped reading
	Depth   int64 `json:"depth"`   // sends started minus messages received when the stall ended
	Blocked bool  `json:"blocked"` // the stall ended because the producer made no progress (buffers full)
}

type c15LongScenarioOut struct {
	Name      string         `json:"name"`
	Sent      [][][]int      `json:"sent"`
	Port      [][]int        `json:"port"`
	Arrived   [][]int        `json:"arrived"`
	Got       [][]int        `json:"got"`
	OutStalls []c15LongStall `json:"out_stalls"`
	InStalls  []c15LongStall `json:"in_stalls"`
	Timeout   bool           `json:"timeout"`
	Ms        float64        `json:"ms"`
}

type c15LongOut struct {
	GoMaxProcs int                  `json:"gomaxprocs"`
	Scenarios  []c15LongScenarioOut `json:"scenarios"`
}

const c15LongFree = int64(1) << 40

// the j-th message of emitter k: the Go twin of Run/TransportLongRun.v:cmsg (j < 81920, k < 16)
func c15CMsg(k int, j int64) []byte {
	return []byte{c15Statuses[(j>>14)%5] | byte(k), byte((j >> 7) & 0x7f), byte(j & 0x7f)}
}

// one direction of one session: producers, the gate between producer and consumer, the scripted consumer
type c15LongStream struct {
	dir      c15LongDir
	quiet    time.Duration
	abort    chan struct{}
	ticket   atomic.Int64 // next global index to be sent
	started  atomic.Int64 // sends started
	done     atomic.Int64 // sends completed
	received atomic.Int64 // messages the consumer has taken
	window   atomic.Int64
	stalls   []c15LongStall
}

func (s *c15LongStream) aborted() bool {
	select {
	case <-s.abort:
		return true
	default:
		return false
	}
}

// producer k: takes the next global index, waits at the gate, sends its own next message
func (s *c15LongStream) produce(k int, seed int64, send func(m []byte) bool, record func(k int, m []byte)) {
	r := rand.New(rand.NewSource(seed))
	own := int64(0)
	for {
		t := s.ticket.Add(1) - 1
		if t >= s.dir.Items {
			return
		}
		for spins := 0; t-s.received.Load() > s.window.Load(); spins++ {
			if s.aborted() {
				return
			}
			if spins%64 == 63 {
				time.Sleep(5 * time.Microsecond)
			} else {
				runtime.Gosched()
			}
		}
		c15RelayJitter(r, s.dir.Jitter)
		m := c15CMsg(k, own)
		own++
		record(k, m)
		s.started.Add(1)
		if !send(m) {
			return
		}
		s.done.Add(1)
	}
}

// waits until the producer is blocked in a send (no progress for `quiet`), has finished, or - k > 0 - is k messages ahead
func (s *c15LongStream) waitAhead(k int64) (blocked bool) {
	last, lastDone := s.started.Load(), s.done.Load()
	since := time.Now()
	for i := 0; ; i++ {
		if s.aborted() {
			return false
		}
		st, dn := s.started.Load(), s.done.Load()
		if dn >= s.dir.Items {
			return false
		}
		if k > 0 && st-s.received.Load() >= k {
			return false
		}
		if st != last || dn != lastDone {
			last, lastDone, since = st, dn, time.Now()
		} else if st > dn && time.Since(since) >= s.quiet {
			return true
		}
		if i%16 == 15 {
			time.Sleep(10 * time.Microsecond)
		} else {
			runtime.Gosched()
		}
	}
}

// the scripted consumer; take() = one receive (false when aborted)
func (s *c15LongStream) consume(seed int64, take func() bool) {
	r := rand.New(rand.NewSource(seed))
	s.window.Store(s.dir.Window)
	base := s.dir.Window
	ops := s.dir.Ops
	n := int64(0)
	stall := func(k int64) {
		at := n
		b := s.waitAhead(k)
		s.stalls = append(s.stalls, c15LongStall{At: at, Depth: s.started.Load() - n, Blocked: b})
	}
	for n < s.dir.Items {
		for len(ops) > 0 && ops[0].At <= n {
			op := ops[0]
			ops = ops[1:]
			if op.At < n {
				continue // overtaken by a slide
			}
			switch op.Mode {
			case "full":
				s.window.Store(c15LongFree)
				stall(0)
			case "depth":
				s.window.Store(c15LongFree)
				stall(op.K)
			case "slide":
				s.window.Store(c15LongFree)
				stall(0)
				for i := 0; i < op.Steps && n < s.dir.Items; i++ {
					if !take() {
						return
					}
					n++
					s.received.Add(1)
					stall(0)
				}
			}
			if op.Window >= 0 {
				base = op.Window
			}
			s.window.Store(base)
		}
		if n >= s.dir.Items {
			break
		}
		if !take() {
			return
		}
		n++
		s.received.Add(1)
		c15RelayJitter(r, s.dir.Jitter)
	}
}

func c15RunLong(sc c15LongScenario) (res c15LongScenarioOut) {
	t0 := time.Now()
	res.Name = sc.Name
	bound := time.Duration(sc.BoundMs) * time.Millisecond
	if bound <= 0 {
		bound = 120 * time.Second
	}
	quiet := time.Duration(sc.QuietUs) * time.Microsecond
	if quiet <= 0 {
		quiet = 300 * time.Microsecond
	}
	ctx, cancel := context.WithCancel(context.Background())
	defer cancel()
	out := make(chan Event, sc.OutCap)
	in := make(chan Event, sc.InCap)
	fin := &c15FakeIn{ch: make(chan []byte, sc.RecvCap)}
	fout := &c15FakeOut{ch: make(chan []byte, sc.SendCap)}
	score := Score{}
	ProcessMidiEvents(ctx, driver.Port{Input: fin, Output: fout}, out, in, &score)

	abort := make(chan struct{})
	em := sc.Out.Emitters
	if em < 1 {
		em = 1
	}
	so := &c15LongStream{dir: sc.Out, quiet: quiet, abort: abort}
	si := &c15LongStream{dir: sc.In, quiet: quiet, abort: abort}
	so.window.Store(sc.Out.Window)
	si.window.Store(sc.In.Window)

	var mu sync.Mutex
	sent := make([][][]int, em)
	var port, arrived, got [][]int
	var wg sync.WaitGroup

	// ---- devices -> port
	for k := 0; k < em; k++ {
		wg.Add(1)
		go func(k int) {
			defer wg.Done()
			so.produce(k, sc.Seed*100+int64(k),
				func(m []byte) bool {
					select {
					case out <- Event(m):
						return true
					case <-abort:
						return false
					}
				},
				func(k int, m []byte) {
					mu.Lock()
					sent[k] = append(sent[k], c15Ints(m))
					mu.Unlock()
				})
		}(k)
	}
	wg.Add(1)
	go func() {
		defer wg.Done()
		so.consume(sc.Seed*100+50, func() bool {
			select {
			case b := <-fout.ch:
				mu.Lock()
				port = append(port, c15Ints(b))
				mu.Unlock()
				return true
			case <-abort:
				return false
			}
		})
	}()

	// ---- port -> devices
	wg.Add(1)
	go func() {
		defer wg.Done()
		si.produce(0, sc.Seed*100+60,
			func(m []byte) bool {
				select {
				case fin.ch <- m:
					return true
				case <-abort:
					return false
				}
			},
			func(_ int, m []byte) {
				mu.Lock()
				arrived = append(arrived, c15Ints(m))
				mu.Unlock()
			})
	}()
	wg.Add(1)
	go func() {
		defer wg.Done()
		si.consume(sc.Seed*100+70, func() bool {
			select {
			case b := <-in:
				mu.Lock()
				got = append(got, c15Ints(b))
				mu.Unlock()
				return true
			case <-abort:
				return false
			}
		})
	}()

	fin2 := make(chan struct{})
	go func() { wg.Wait(); close(fin2) }()
	select {
	case <-fin2:
		// nothing more may arrive: give stray duplicates a chance to show up
		time.Sleep(300 * time.Microsecond)
		for more := true; more; {
			select {
			case b := <-fout.ch:
				port = append(port, c15Ints(b))
			case b := <-in:
				got = append(got, c15Ints(b))
			default:
				more = false
			}
		}
	case <-time.After(bound):
		res.Timeout = true
		close(abort)
		<-fin2
	}
	cancel()
	mu.Lock()
	res.Sent, res.Port, res.Arrived, res.Got = sent, port, arrived, got
	mu.Unlock()
	for k := range res.Sent {
		if res.Sent[k] == nil {
			res.Sent[k] = [][]int{}
		}
	}
	if res.Port == nil {
		res.Port = [][]int{}
	}
	if res.Arrived == nil {
		res.Arrived = [][]int{}
	}
	if res.Got == nil {
		res.Got = [][]int{}
	}
	res.OutStalls, res.InStalls = so.stalls, si.stalls
	if res.OutStalls == nil {
		res.OutStalls = []c15LongStall{}
	}
	if res.InStalls == nil {
		res.InStalls = []c15LongStall{}
	}
	res.Ms = float64(time.Since(t0).Microseconds()) / 1000
	return res
}

func verifC15Long(t *testing.T) {
	var in c15LongIn
	mustReadJSON(t, &in)
	if in.GoMaxProcs > 0 {
		runtime.GOMAXPROCS(in.GoMaxProcs)
	}
	go func() { // logger.Messages (cap 128) must be drained or everything that logs blocks
		for range logger.Messages {
		}
	}()
	out := c15LongOut{GoMaxProcs: runtime.GOMAXPROCS(0)}
	for _, sc := range in.Scenarios {
		out.Scenarios = append(out.Scenarios, c15RunLong(sc))
	}
	mustWriteJSON(t, out)
}

func init() { verifModes["c15long"] = verifC15Long }

// ---------------------------------------------------------------------------------------------------------------------
// C15 (relay half, time-aged sessions): behaviour that depends on UPTIME, not on traffic volume (periodic timers: statistics,
// keep-alives, watchdogs).  One ProcessMidiEvents instance stays alive for a wall-clock duration with sparse traffic - one
// counter-tagged message per direction every PeriodMin..PeriodMax ms and a few quiet periods - and EVERYTHING that comes out of
// the port's send channel and out of midiEventsIn during that time (and a grace period after the last message) is recorded
// exactly, whatever its content (an empty or malformed message included), with its arrival time.  Nothing is judged here: the
// lists go to the Coq monitors Run/TransportRun.v:relay_ok / in_ok (an extra message of any content is rejected there).

type c15AgedScenario struct {
	Name        string   `json:"name"`
	Seed        int64    `json:"seed"`
	DurationMs  int      `json:"duration_ms"`
	PeriodMinMs int      `json:"period_min_ms"`
	PeriodMaxMs int      `json:"period_max_ms"`
	Quiets      [][2]int `json:"quiets"` // [start ms, length ms]: nothing is sent in these intervals
	GraceMs     int      `json:"grace_ms"`
	StuckMs     int      `json:"stuck_ms"` // a send not accepted that long after the end of the session = stalled
	Emitters    int      `json:"emitters"`
	OutCap      int      `json:"out_cap"`
	InCap       int      `json:"in_cap"`
	SendCap     int      `json:"send_cap"`
	RecvCap     int      `json:"recv_cap"`
}

type c15AgedIn struct {
	GoMaxProcs int               `json:"gomaxprocs"`
	Scenarios  []c15AgedScenario `json:"scenarios"` // run concurrently
}

type c15AgedScenarioOut struct {
	Name      string      `json:"name"`
	Sent      [][][]int   `json:"sent"`
	SentMs    [][]float64 `json:"sent_ms"`
	Port      [][]int     `json:"port"`
	PortMs    []float64   `json:"port_ms"` // uptime at which the port received each message
	Arrived   [][]int     `json:"arrived"`
	ArrivedMs []float64   `json:"arrived_ms"`
	Got       [][]int     `json:"got"`
	GotMs     []float64   `json:"got_ms"`
	Timeout   bool        `json:"timeout"`
	UptimeMs  float64     `json:"uptime_ms"`
}

type c15AgedOut struct {
	GoMaxProcs int                  `json:"gomaxprocs"`
	Scenarios  []c15AgedScenarioOut `json:"scenarios"`
}

func c15RunAged(sc c15AgedScenario) (res c15AgedScenarioOut) {
	res.Name = sc.Name
	em := sc.Emitters
	if em < 1 {
		em = 1
	}
	ctx, cancel := context.WithCancel(context.Background())
	defer cancel()
	out := make(chan Event, sc.OutCap)
	in := make(chan Event, sc.InCap)
	fin := &c15FakeIn{ch: make(chan []byte, sc.RecvCap)}
	fout := &c15FakeOut{ch: make(chan []byte, sc.SendCap)}
	score := Score{}
	t0 := time.Now()
	ProcessMidiEvents(ctx, driver.Port{Input: fin, Output: fout}, out, in, &score)
	up := func() float64 { return float64(time.Since(t0).Microseconds()) / 1000 }
	end := t0.Add(time.Duration(sc.DurationMs) * time.Millisecond)

	var mu sync.Mutex
	sent := make([][][]int, em)
	sentMs := make([][]float64, em)
	var port, arrived, got [][]int
	var portMs, arrivedMs, gotMs []float64
	stuck := make(chan struct{}) // closed when a send has been pending for too long after the end
	stop := make(chan struct{})  // closed when the observers may stop

	// the sparse source: sleeps a random period, skips the quiet intervals, sends the next counter message
	source := func(seed int64, emit func(j int64) bool) {
		r := rand.New(rand.NewSource(seed))
		for j := int64(0); ; {
			d := sc.PeriodMinMs
			if sc.PeriodMaxMs > sc.PeriodMinMs {
				d += r.Intn(sc.PeriodMaxMs - sc.PeriodMinMs + 1)
			}
			time.Sleep(time.Duration(d) * time.Millisecond)
			now := int(time.Since(t0).Milliseconds())
			for _, q := range sc.Quiets {
				if now >= q[0] && now < q[0]+q[1] {
					time.Sleep(time.Duration(q[0]+q[1]-now) * time.Millisecond)
				}
			}
			if !time.Now().Before(end) {
				return
			}
			if !emit(j) {
				return
			}
			j++
		}
	}
	var prod sync.WaitGroup
	for k := 0; k < em; k++ {
		prod.Add(1)
		go func(k int) {
			defer prod.Done()
			source(sc.Seed*100+int64(k), func(j int64) bool {
				m := c15CMsg(k, j)
				mu.Lock()
				sent[k] = append(sent[k], c15Ints(m))
				sentMs[k] = append(sentMs[k], up())
				mu.Unlock()
				select {
				case out <- Event(m):
					return true
				case <-stuck:
					return false
				}
			})
		}(k)
	}
	prod.Add(1)
	go func() {
		defer prod.Done()
		source(sc.Seed*100+60, func(j int64) bool {
			m := c15CMsg(0, j)
			mu.Lock()
			arrived = append(arrived, c15Ints(m))
			arrivedMs = append(arrivedMs, up())
			mu.Unlock()
			select {
			case fin.ch <- m:
				return true
			case <-stuck:
				return false
			}
		})
	}()
	// the observers: the port and the devices' side of midiEventsIn take whatever comes, at once
	var obs sync.WaitGroup
	obs.Add(2)
	go func() {
		defer obs.Done()
		for {
			select {
			case b := <-fout.ch:
				mu.Lock()
				port = append(port, c15Ints(b))
				portMs = append(portMs, up())
				mu.Unlock()
			case <-stop:
				return
			}
		}
	}()
	go func() {
		defer obs.Done()
		for {
			select {
			case b := <-in:
				mu.Lock()
				got = append(got, c15Ints(b))
				gotMs = append(gotMs, up())
				mu.Unlock()
			case <-stop:
				return
			}
		}
	}()

	pdone := make(chan struct{})
	go func() { prod.Wait(); close(pdone) }()
	stuckAfter := time.Duration(sc.DurationMs+sc.StuckMs) * time.Millisecond
	if sc.StuckMs <= 0 {
		stuckAfter = time.Duration(sc.DurationMs)*time.Millisecond + 30*time.Second
	}
	select {
	case <-pdone:
	case <-time.After(time.Until(t0.Add(stuckAfter))):
		res.Timeout = true
		close(stuck)
		<-pdone
	}
	grace := time.Duration(sc.GraceMs) * time.Millisecond
	if grace <= 0 {
		grace = 500 * time.Millisecond
	}
	time.Sleep(grace) // stragglers and late extras still count
	close(stop)
	obs.Wait()
	for more := true; more; {
		select {
		case b := <-fout.ch:
			port = append(port, c15Ints(b))
			portMs = append(portMs, up())
		case b := <-in:
			got = append(got, c15Ints(b))
			gotMs = append(gotMs, up())
		default:
			more = false
		}
	}
	res.UptimeMs = up()
	cancel()
	res.Sent, res.SentMs, res.Port, res.PortMs = sent, sentMs, port, portMs
	res.Arrived, res.ArrivedMs, res.Got, res.GotMs = arrived, arrivedMs, got, gotMs
	for k := range res.Sent {
		if res.Sent[k] == nil {
			res.Sent[k] = [][]int{}
		}
		if res.SentMs[k] == nil {
			res.SentMs[k] = []float64{}
		}
	}
	if res.Port == nil {
		res.Port = [][]int{}
	}
	if res.Arrived == nil {
		res.Arrived = [][]int{}
	}
	if res.Got == nil {
		res.Got = [][]int{}
	}
	if res.PortMs == nil {
		res.PortMs = []float64{}
	}
	if res.ArrivedMs == nil {
		res.ArrivedMs = []float64{}
	}
	if res.GotMs == nil {
		res.GotMs = []float64{}
	}
	return res
}

func verifC15Aged(t *testing.T) {
	var in c15AgedIn
	mustReadJSON(t, &in)
	if in.GoMaxProcs > 0 {
		runtime.GOMAXPROCS(in.GoMaxProcs)
	}
	go func() {
		for range logger.Messages {
		}
	}()
	out := c15AgedOut{GoMaxProcs: runtime.GOMAXPROCS(0), Scenarios: make([]c15AgedScenarioOut, len(in.Scenarios))}
	var wg sync.WaitGroup
	for i := range in.Scenarios {
		wg.Add(1)
		go func(i int) {
			defer wg.Done()
			out.Scenarios[i] = c15RunAged(in.Scenarios[i])
		}(i)
	}
	wg.Wait()
	mustWriteJSON(t, out)
}

func init() { verifModes["c15aged"] = verifC15Aged }
