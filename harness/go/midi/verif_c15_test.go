//go:build verif

package midi

// C15 (relay half): drives the real ProcessMidiEvents with a fake driver.Port, N concurrent emitters sending tagged
// 3-byte messages and a live input stream; records what each emitter sent, what the port received, what the port
// produced and what came out of midiEventsIn.  Judged by the Coq monitors Run/TransportRun.v:relay_ok / in_ok.

import (
	"context"
	"encoding/json"
	"fmt"
	"math/rand"
	"os"
	"runtime"
	"sync"
	"testing"
	"time"

	"github.com/gethiox/HIDI/internal/pkg/logger"
	"github.com/gethiox/HIDI/internal/pkg/midi/driver"
)

type c15FakeIn struct{ ch chan []byte }

func (f *c15FakeIn) Name() string                  { return "verif-in" }
func (f *c15FakeIn) Open() error                   { return nil }
func (f *c15FakeIn) Close() error                  { return nil }
func (f *c15FakeIn) ReceiveChannel() <-chan []byte { return f.ch }

type c15FakeOut struct{ ch chan []byte }

func (f *c15FakeOut) Name() string               { return "verif-out" }
func (f *c15FakeOut) Open() error                { return nil }
func (f *c15FakeOut) Close() error               { return nil }
func (f *c15FakeOut) SendChannel() chan<- []byte { return f.ch }

type c15RelayScenario struct {
	Name       string `json:"name"`
	Seed       int64  `json:"seed"`
	Emitters   int    `json:"emitters"`
	PerEmitter int    `json:"per_emitter"`
	OutCap     int    `json:"out_cap"`
	InCap      int    `json:"in_cap"`
	SendCap    int    `json:"send_cap"`
	RecvCap    int    `json:"recv_cap"`
	InItems    int    `json:"in_items"`
	Jitter     int    `json:"jitter"`
	PortSlowUs int    `json:"port_slow_us"`
	BoundMs    int    `json:"bound_ms"`
}

type c15RelayIn struct {
	GoMaxProcs int                `json:"gomaxprocs"`
	Scenarios  []c15RelayScenario `json:"scenarios"`
}

type c15RelayScenarioOut struct {
	Name    string    `json:"name"`
	Sent    [][][]int `json:"sent"`    // per emitter, in its own order
	Port    [][]int   `json:"port"`    // what the port's send channel delivered
	Arrived [][]int   `json:"arrived"` // what the port's receive channel was fed
	Got     [][]int   `json:"got"`     // what came out of midiEventsIn
	Timeout bool      `json:"timeout"`
	Ms      float64   `json:"ms"`
}

type c15RelayOut struct {
	GoMaxProcs int                   `json:"gomaxprocs"`
	Scenarios  []c15RelayScenarioOut `json:"scenarios"`
}

func c15Ints(b []byte) []int {
	r := make([]int, len(b))
	for i, x := range b {
		r[i] = int(x)
	}
	return r
}

func c15RelayJitter(r *rand.Rand, mode int) {
	switch mode {
	case 0:
	case 1:
		if r.Intn(2) == 0 {
			runtime.Gosched()
		}
	default:
		switch r.Intn(6) {
		case 0, 1:
		case 2, 3:
			runtime.Gosched()
		case 4:
			time.Sleep(time.Duration(1+r.Intn(40)) * time.Microsecond)
		case 5:
			for i, n := 0, r.Intn(2000); i < n; i++ {
				_ = i * i
			}
		}
	}
}

var c15Statuses = []byte{0x90, 0x80, 0xB0, 0xE0, 0xA0}

func c15RunRelay(sc c15RelayScenario) (res c15RelayScenarioOut) {
	t0 := time.Now()
	res.Name = sc.Name
	bound := time.Duration(sc.BoundMs) * time.Millisecond
	if bound <= 0 {
		bound = 5 * time.Second
	}
	ctx, cancel := context.WithCancel(context.Background())
	defer cancel()
	out := make(chan Event, sc.OutCap)
	in := make(chan Event, sc.InCap)
	fin := &c15FakeIn{ch: make(chan []byte, sc.RecvCap)}
	fout := &c15FakeOut{ch: make(chan []byte, sc.SendCap)}
	score := Score{}
	ProcessMidiEvents(ctx, driver.Port{Input: fin, Output: fout}, out, in, &score)

	abort := make(chan struct{})
	var wg sync.WaitGroup
	var mu sync.Mutex
	sent := make([][][]int, sc.Emitters)
	total := sc.Emitters * sc.PerEmitter

	for k := 0; k < sc.Emitters; k++ { // emitters (devices)
		wg.Add(1)
		go func(k int) {
			defer wg.Done()
			r := rand.New(rand.NewSource(sc.Seed*100 + int64(k)))
			for j := 0; j < sc.PerEmitter; j++ {
				c15RelayJitter(r, sc.Jitter)
				m := Event{c15Statuses[r.Intn(len(c15Statuses))] | byte(k), byte((j >> 7) & 0x7f), byte(j & 0x7f)}
				mu.Lock()
				sent[k] = append(sent[k], c15Ints(m))
				mu.Unlock()
				select {
				case out <- m:
				case <-abort:
					return
				}
			}
		}(k)
	}
	var port [][]int
	wg.Add(1)
	go func() { // the port
		defer wg.Done()
		r := rand.New(rand.NewSource(sc.Seed*100 + 50))
		for n := 0; n < total; n++ {
			select {
			case b := <-fout.ch:
				mu.Lock()
				port = append(port, c15Ints(b))
				mu.Unlock()
			case <-abort:
				return
			}
			if sc.PortSlowUs > 0 {
				time.Sleep(time.Duration(r.Intn(sc.PortSlowUs)+1) * time.Microsecond)
			} else {
				c15RelayJitter(r, sc.Jitter)
			}
		}
	}()
	var arrived, got [][]int
	wg.Add(1)
	go func() { // the live input stream
		defer wg.Done()
		r := rand.New(rand.NewSource(sc.Seed*100 + 60))
		for j := 0; j < sc.InItems; j++ {
			c15RelayJitter(r, sc.Jitter)
			var b []byte
			switch r.Intn(4) {
			case 0:
				b = []byte{0xF8} // timing clock
			case 1:
				b = []byte{0xC0 | byte(j&15), byte(j & 0x7f)}
			default:
				b = []byte{0x90 | byte(j&15), byte((j >> 7) & 0x7f), byte(j & 0x7f)}
			}
			mu.Lock()
			arrived = append(arrived, c15Ints(b))
			mu.Unlock()
			select {
			case fin.ch <- b:
			case <-abort:
				return
			}
		}
	}()
	wg.Add(1)
	go func() { // the fan-out's side of midiEventsIn
		defer wg.Done()
		r := rand.New(rand.NewSource(sc.Seed*100 + 70))
		for n := 0; n < sc.InItems; n++ {
			select {
			case b := <-in:
				mu.Lock()
				got = append(got, c15Ints(b))
				mu.Unlock()
			case <-abort:
				return
			}
			c15RelayJitter(r, sc.Jitter)
		}
	}()
	fin2 := make(chan struct{})
	go func() { wg.Wait(); close(fin2) }()
	select {
	case <-fin2:
		// nothing more may arrive: give stray duplicates a chance to show up
		time.Sleep(200 * time.Microsecond)
		for more := true; more; {
			select {
			case b := <-fout.ch:
				port = append(port, c15Ints(b))
			case b := <-in:
				got = append(got, c15Ints(b))
			default:
				more = false
			}
		}
	case <-time.After(bound):
		res.Timeout = true
		close(abort)
		<-fin2
	}
	cancel()
	mu.Lock()
	res.Sent, res.Port, res.Arrived, res.Got = sent, port, arrived, got
	mu.Unlock()
	for k := range res.Sent {
		if res.Sent[k] == nil {
			res.Sent[k] = [][]int{}
		}
	}
	if res.Port == nil {
		res.Port = [][]int{}
	}
	if res.Arrived == nil {
		res.Arrived = [][]int{}
	}
	if res.Got == nil {
		res.Got = [][]int{}
	}
	res.Ms = float64(time.Since(t0).Microseconds()) / 1000
	return res
}

func verifC15Relay(t *testing.T) {
	var in c15RelayIn
	mustReadJSON(t, &in)
	if in.GoMaxProcs > 0 {
		runtime.GOMAXPROCS(in.GoMaxProcs)
	}
	go func() { // logger.Messages (cap 128) must be drained or everything that logs blocks
		for range logger.Messages {
		}
	}()
	out := c15RelayOut{GoMaxProcs: runtime.GOMAXPROCS(0)}
	for _, sc := range in.Scenarios {
		out.Scenarios = append(out.Scenarios, c15RunRelay(sc))
	}
	mustWriteJSON(t, out)
}

func mustReadJSON(t *testing.T, v interface{}) {
	data, err := os.ReadFile(os.Getenv("VERIF_IN"))
	if err != nil {
		t.Fatalf("verif: cannot read input: %v", err)
	}
	if err := json.Unmarshal(data, v); err != nil {
		t.Fatalf("verif: bad input: %v", err)
	}
}

func mustWriteJSON(t *testing.T, v interface{}) {
	data, err := json.Marshal(v)
	if err != nil {
		t.Fatalf("verif: cannot encode output: %v", err)
	}
	if err := os.WriteFile(os.Getenv("VERIF_OUT"), data, 0o644); err != nil {
		t.Fatalf("verif: cannot write output: %v", err)
	}
}

var verifModes = map[string]func(*testing.T){"c15relay": verifC15Relay}

func TestVerif(t *testing.T) {
	if fn, ok := verifModes[os.Getenv("VERIF_MODE")]; ok {
		fn(t)
		return
	}
	t.Skip("no VERIF_MODE")
}

var _ = fmt.Sprint
