(* Association lists modelling Go maps: [get], [set] (insert or overwrite), [del]; sets as lists. *)
From Coq Require Import List Bool Arith Lia.
Import ListNotations.

Section AList.
  Context {K V : Type}.
  Variable eqb : K -> K -> bool.
  Hypothesis eqb_spec : forall a b, eqb a b = true <-> a = b.

  Fixpoint get (k : K) (l : list (K * V)) : option V :=
    match l with
    | [] => None
    | (k', v) :: r => if eqb k k' then Some v else get k r
    end.

  Fixpoint del (k : K) (l : list (K * V)) : list (K * V) :=
    match l with
    | [] => []
    | (k', v) :: r => if eqb k k' then del k r else (k', v) :: del k r
    end.

  Definition set (k : K) (v : V) (l : list (K * V)) : list (K * V) := (k, v) :: del k l.

  Definition keys (l : list (K * V)) : list K := map fst l.
  Definition vals (l : list (K * V)) : list V := map snd l.

  Lemma eqb_refl k : eqb k k = true.
  Proof. apply eqb_spec. reflexivity. Qed.

  Lemma eqb_neq a b : a <> b -> eqb a b = false.
  Proof. intro H. destruct (eqb a b) eqn:E; [apply eqb_spec in E; contradiction|reflexivity]. Qed.

  Lemma eqb_false a b : eqb a b = false -> a <> b.
  Proof. intros H ->. rewrite eqb_refl in H. discriminate. Qed.

  Lemma get_del_same k l : get k (del k l) = None.
  Proof.
    induction l as [|[k' v] r IH]; cbn; [reflexivity|].
    destruct (eqb k k') eqn:E; [exact IH|]. cbn. rewrite E. exact IH.
  Qed.

  Lemma get_del_other k k' l : k <> k' -> get k (del k' l) = get k l.
  Proof.
    intro H. induction l as [|[k2 v] r IH]; cbn; [reflexivity|].
    destruct (eqb k' k2) eqn:E.
    - apply eqb_spec in E. subst k2. rewrite (eqb_neq _ _ H). exact IH.
    - cbn. destruct (eqb k k2); [reflexivity|exact IH].
  Qed.

  Lemma get_set_same k v l : get k (set k v l) = Some v.
  Proof. unfold set. cbn. rewrite eqb_refl. reflexivity. Qed.

  Lemma get_set_other k k' v l : k <> k' -> get k (set k' v l) = get k l.
  Proof. intro H. unfold set. cbn. rewrite (eqb_neq _ _ H). apply get_del_other. exact H. Qed.

  Lemma get_some_in k v l : get k l = Some v -> In (k, v) l.
  Proof.
    induction l as [|[k' v'] r IH]; cbn; [discriminate|].
    destruct (eqb k k') eqn:E.
    - apply eqb_spec in E. subst. intro H. injection H as ->. left. reflexivity.
    - intro H. right. apply IH. exact H.
  Qed.

  Lemma get_none_notin k l : get k l = None -> ~ In k (keys l).
  Proof.
    induction l as [|[k' v'] r IH]; cbn; [tauto|].
    destruct (eqb k k') eqn:E; [discriminate|].
    intros H [H1|H1]; [subst; rewrite eqb_refl in E; discriminate|exact (IH H H1)].
  Qed.

  Lemma notin_get_none k l : ~ In k (keys l) -> get k l = None.
  Proof.
    induction l as [|[k' v'] r IH]; cbn; [reflexivity|].
    intro H. destruct (eqb k k') eqn:E.
    - apply eqb_spec in E. subst. exfalso. apply H. left. reflexivity.
    - apply IH. intro H1. apply H. right. exact H1.
  Qed.

  Lemma in_keys_get k l : In k (keys l) -> exists v, get k l = Some v.
  Proof.
    intro H. destruct (get k l) as [v|] eqn:E; [exists v; reflexivity|].
    exfalso. exact (get_none_notin _ _ E H).
  Qed.

  Lemma in_del k k' v l : In (k, v) (del k' l) -> In (k, v) l /\ k <> k'.
  Proof.
    induction l as [|[k2 v2] r IH]; cbn; [tauto|].
    destruct (eqb k' k2) eqn:E.
    - intro H. destruct (IH H) as [H1 H2]. split; [right; exact H1|exact H2].
    - intros [H|H].
      + injection H as -> ->. split; [left; reflexivity|]. intros ->. rewrite eqb_refl in E. discriminate.
      + destruct (IH H) as [H1 H2]. split; [right; exact H1|exact H2].
  Qed.

  Lemma in_del_intro k k' v l : In (k, v) l -> k <> k' -> In (k, v) (del k' l).
  Proof.
    induction l as [|[k2 v2] r IH]; cbn; [tauto|].
    intros [H|H] Hne.
    - injection H as -> ->. rewrite (eqb_neq k' k); [left; reflexivity|congruence].
    - destruct (eqb k' k2); [apply IH; assumption|right; apply IH; assumption].
  Qed.

  Lemma keys_del_notin k l : ~ In k (keys (del k l)).
  Proof. apply get_none_notin. apply get_del_same. Qed.

  Lemma in_keys_del k k' l : In k (keys (del k' l)) -> In k (keys l) /\ k <> k'.
  Proof.
    unfold keys. intro H. apply in_map_iff in H. destruct H as [[k2 v] [H1 H2]]. cbn in H1. subst k2.
    apply in_del in H2. destruct H2 as [H2 H3]. split; [|exact H3].
    apply in_map_iff. exists (k, v). split; [reflexivity|exact H2].
  Qed.

  Lemma in_keys_del_intro k k' l : In k (keys l) -> k <> k' -> In k (keys (del k' l)).
  Proof.
    unfold keys. intros H Hne. apply in_map_iff in H. destruct H as [[k2 v] [H1 H2]]. cbn in H1. subst k2.
    apply in_map_iff. exists (k, v). split; [reflexivity|apply in_del_intro; assumption].
  Qed.

  Lemma nodup_del k l : NoDup (keys l) -> NoDup (keys (del k l)).
  Proof.
    induction l as [|[k2 v2] r IH]; cbn; [auto|].
    intro H. inversion H as [|? ? Hn Hr]; subst.
    destruct (eqb k k2); [apply IH; exact Hr|].
    cbn. constructor; [|apply IH; exact Hr].
    intro Hin. apply in_keys_del in Hin. destruct Hin as [Hin _]. exact (Hn Hin).
  Qed.

  Lemma nodup_set k v l : NoDup (keys l) -> NoDup (keys (set k v l)).
  Proof.
    intro H. unfold set. cbn. constructor; [apply keys_del_notin|apply nodup_del; exact H].
  Qed.

  Lemma del_notin k l : ~ In k (keys l) -> del k l = l.
  Proof.
    induction l as [|[k2 v2] r IH]; cbn; [reflexivity|].
    intro H. destruct (eqb k k2) eqn:E.
    - apply eqb_spec in E. subst. exfalso. apply H. left. reflexivity.
    - f_equal. apply IH. intro H1. apply H. right. exact H1.
  Qed.

  Lemma nodup_in_get k v l : NoDup (keys l) -> In (k, v) l -> get k l = Some v.
  Proof.
    induction l as [|[k2 v2] r IH]; cbn; [tauto|].
    intros H [Hin|Hin]; inversion H as [|? ? Hn Hr]; subst.
    - injection Hin as -> ->. rewrite eqb_refl. reflexivity.
    - destruct (eqb k k2) eqn:E.
      + apply eqb_spec in E. subst. exfalso. apply Hn. apply in_map_iff. exists (k2, v). split; [reflexivity|exact Hin].
      + apply IH; assumption.
  Qed.
End AList.

(* sets as lists *)
Section LSet.
  Context {K : Type}.
  Variable eqb : K -> K -> bool.
  Hypothesis eqb_spec : forall a b, eqb a b = true <-> a = b.

  Definition mem (k : K) (l : list K) : bool := existsb (eqb k) l.
  Definition srem (k : K) (l : list K) : list K := filter (fun x => negb (eqb k x)) l.
  Definition sadd (k : K) (l : list K) : list K := k :: srem k l.

  Lemma mem_in k l : mem k l = true <-> In k l.
  Proof.
    unfold mem. rewrite existsb_exists. split.
    - intros [x [H1 H2]]. apply eqb_spec in H2. subst. exact H1.
    - intro H. exists k. split; [exact H|]. apply eqb_spec. reflexivity.
  Qed.

  Lemma mem_false k l : mem k l = false <-> ~ In k l.
  Proof.
    split.
    - intros H Hin. apply mem_in in Hin. congruence.
    - intro H. destruct (mem k l) eqn:E; [apply mem_in in E; contradiction|reflexivity].
  Qed.

  Lemma in_srem k k' l : In k (srem k' l) <-> In k l /\ k <> k'.
  Proof.
    unfold srem. rewrite filter_In. split.
    - intros [H1 H2]. split; [exact H1|]. intros ->. rewrite (proj2 (eqb_spec k' k')) in H2 by reflexivity. discriminate.
    - intros [H1 H2]. split; [exact H1|]. destruct (eqb k' k) eqn:E; [apply eqb_spec in E; congruence|reflexivity].
  Qed.

  Lemma in_sadd k k' l : In k (sadd k' l) <-> k = k' \/ In k l.
  Proof.
    unfold sadd. cbn. rewrite in_srem. split.
    - intros [H|[H _]]; [left; auto|right; exact H].
    - intros [H|H]; [left; auto|].
      destruct (eqb k' k) eqn:E; [apply eqb_spec in E; left; exact E|].
      right. split; [exact H|]. intros ->. rewrite (proj2 (eqb_spec k' k')) in E by reflexivity. discriminate.
  Qed.

  Lemma srem_notin k l : ~ In k l -> srem k l = l.
  Proof.
    induction l as [|x r IH]; cbn; [reflexivity|]. intro H.
    destruct (eqb k x) eqn:E.
    - apply eqb_spec in E. subst. exfalso. apply H. left. reflexivity.
    - cbn. f_equal. apply IH. intro H1. apply H. right. exact H1.
  Qed.

  Lemma nodup_srem k l : NoDup l -> NoDup (srem k l).
  Proof. intro H. unfold srem. apply NoDup_filter. exact H. Qed.

  Lemma nodup_sadd k l : NoDup l -> NoDup (sadd k l).
  Proof.
    intro H. unfold sadd. constructor; [|apply nodup_srem; exact H].
    intro Hin. apply in_srem in Hin. destruct Hin as [_ Hne]. congruence.
  Qed.
End LSet.
