(* Correspondence runner for C17: frames captured by the fake OpenRGB server after every step of a real Device (as colour
   classes) are compared with [Led.frame] of the model state, and the property's own wording ([spec_colour],
   [spec_action_colour], the clearing rules of the MIDI-input highlight, the final red frame) is evaluated directly on the
   observed frames with a context built from the HISTORY and the implementation's State() only. *)
From Coq Require Import List NArith ZArith Bool.
From HIDI Require Import Base.AList Model.Device Model.Led Run.DeviceRun.
Import ListNotations.
Open Scope N_scope.

Record lobs := { lo_step : ostep; lo_frame : list colour }.

Record lcase := {
  lc_cfg : config; lc_ctl : N; lc_layout : layout; lc_events : list lev;
  lc_first : list colour;          (* frame before any event *)
  lc_obs : list lobs;              (* per event: MIDI bytes, signals, State(), first frame computed after the event *)
  lc_final : list colour;          (* last frame received after ProcessEvents returned *)
  lc_cleanup : list msg }.

Fixpoint frame_eqb (a b : list colour) : bool :=
  match a, b with
  | [], [] => true
  | x :: a', y :: b' => colour_eqb x y && frame_eqb a' b'
  | _, _ => false
  end.

(* ---------------------------------------------------------------------- view comparison with the model *)
Fixpoint led_scan (c : config) (ctl : N) (ly : layout) (ls : lstate) (h : list lev) (obs : list lobs) (i : nat)
  : option nat * lstate :=
  match h, obs with
  | [], [] => (None, ls)
  | e :: r, o :: os =>
      match lstep c ls e with
      | None => (Some i, ls)                                   (* the model says the MIDI-input goroutine crashes *)
      | Some (ls1, out1) =>
          if ostep_eqb (observe c (fst ls1) out1) (lo_step o) && frame_eqb (frame c ctl ly ls1) (lo_frame o)
          then led_scan c ctl ly ls1 r os (S i) else (Some i, ls1)
      end
  | _, _ => (Some i, ls)
  end.

(* 0: the frame before any event; i+1: event i; n+1: final frame / clean-up *)
Definition led_mismatch (k : lcase) : option nat :=
  let c := lc_cfg k in
  if negb (frame_eqb (frame c (lc_ctl k) (lc_layout k) (linit c)) (lc_first k)) then Some 0%nat
  else match led_scan c (lc_ctl k) (lc_layout k) (linit c) (lc_events k) (lc_obs k) 1 with
       | (Some i, _) => Some i
       | (None, ls) =>
           if frame_eqb (final_frame (lc_layout k)) (lc_final k) && msgs_perm (snd (cleanup c (fst ls))) (lc_cleanup k)
           then None else Some (S (length (lc_events k)))
       end.

(* the same with the ORIGINAL MIDI-input handling and action-LED indexing (development aid: which behaviour does the
   implementation show?) *)
Fixpoint led_scan_orig (c : config) (ctl : N) (ly : layout) (ls : lstate) (h : list lev) (obs : list lobs) (i : nat) : option nat :=
  match h, obs with
  | [], [] => None
  | e :: r, o :: os =>
      match lstep_orig c ls e with
      | None => Some i
      | Some (ls1, out1) =>
          match frame_orig c ctl ly ls1 with
          | Some f => if frame_eqb f (lo_frame o) then led_scan_orig c ctl ly ls1 r os (S i) else Some i
          | None => Some i
          end
      end
  | _, _ => Some i
  end.
Definition led_mismatch_orig (k : lcase) : option nat :=
  led_scan_orig (lc_cfg k) (lc_ctl k) (lc_layout k) (linit (lc_cfg k)) (lc_events k) (lc_obs k) 1.

(* ---------------------------------------------------------------------- the property evaluated on the observations *)
Definition lev_ev (e : lev) : ev := match e with LDev e' => e' | LMidi _ => ESyn end.

(* the MIDI-input highlight as the property words it: Note On with velocity > 0 switches it on, Note Off and Note On with
   velocity 0 switch it off; anything else leaves it *)
Definition spec_ext1 (x : ext) (m : msg) : ext :=
  match m with
  | st :: n :: rest =>
      let ch := st mod 16 in
      let vel0 := match rest with v :: _ => v =? 0 | [] => false end in    (* a truncated Note On carries no velocity 0 *)
      if st / 16 =? 9 then (if vel0 then srem pair_eqb (n, ch) x else sadd pair_eqb (n, ch) x)
      else if st / 16 =? 8 then srem pair_eqb (n, ch) x
      else x
  | _ => x
  end.

(* ... and the panic action clears it (key events only: the generators of C17 do not use action-emulating axes) *)
Definition spec_ext_step (c : config) (w : wctx) (x : ext) (e : lev) : ext :=
  match e with
  | LDev e' => if panic_triggers_ctx c w e' then [] else x
  | LMidi m => spec_ext1 x m
  end.

(* LEDs of [fr] that contradict the property, for the context AFTER an event: playing parameters from State(),
   held notes from the history-based tracker, [x] the highlight set by the rules above *)
Definition check_led (c : config) (ctl : N) (ly : layout) (w : wctx) (x : ext) (fr : list colour) (i : nat) : bool :=
  match nth i ly None with
  | None => true
  | Some k =>
      match imap ly k with
      | Some j =>
          if Nat.eqb i j then
            let s := state_of_obs c (w_prev w) in
            let m := cur_mapping c s in
            match find_action c k with
            | None =>
                match get skey_eqb (0, k) (m_midi m) with
                | Some key => colour_eqb (nth i fr Off)
                                (spec_colour (m_name m =? ctl) (offset s) (map (fun e : N * pair => fst (snd e)) (w_trk w)) x
                                             (channel s) (k_note key))
                | None => true
                end
            | Some a =>
                if is_state_action a && match a2c c a with Some k' => k' =? k | None => false end
                   && match get skey_eqb (0, k) (m_midi m) with None => true | Some _ => false end
                then colour_eqb (nth i fr Off) (spec_action_colour (length (mappings c)) s a)
                else true
            end
          else true
      | None => true
      end
  end.

Definition check_frame (c : config) (ctl : N) (ly : layout) (w : wctx) (x : ext) (fr : list colour) : list nat :=
  if Nat.eqb (length fr) (length ly)
  then filter (fun i => negb (check_led c ctl ly w x fr i)) (seq 0 (length ly))
  else [length ly].

Fixpoint led_walk (c : config) (ctl : N) (ly : layout) (w : wctx) (x : ext) (h : list lev) (obs : list lobs) (i : nat)
  : list (nat * list nat) :=
  match h, obs with
  | e :: r, o :: os =>
      let x' := spec_ext_step c w x e in
      let w' := next_ctx c w (lev_ev e) (lo_step o) in
      match check_frame c ctl ly w' x' (lo_frame o) with
      | [] => led_walk c ctl ly w' x' r os (S i)
      | bad => (i, bad) :: led_walk c ctl ly w' x' r os (S i)
      end
  | [], [] => []
  | _, _ => [(i, [])]
  end.

Definition all_red (fr : list colour) : bool := forallb (fun col => colour_eqb col Red) fr.

(* failing (step, LED indices): step 0 = first frame, i+1 = event i, n+1 = final frame *)
Definition led_failures (k : lcase) : list (nat * list nat) :=
  let c := lc_cfg k in
  (match check_frame c (lc_ctl k) (lc_layout k) (init_ctx c) [] (lc_first k) with [] => [] | bad => [(0%nat, bad)] end)
  ++ led_walk c (lc_ctl k) (lc_layout k) (init_ctx c) [] (lc_events k) (lc_obs k) 1
  ++ (if all_red (lc_final k) && Nat.eqb (length (lc_final k)) (length (lc_layout k)) then []
      else [(S (length (lc_events k)), [])]).

(* ---------------------------------------------------------------------- what a case exercised (coverage) *)
Definition has_colour (col : colour) (k : lcase) : bool :=
  existsb (fun o => existsb (colour_eqb col) (lo_frame o)) (lc_obs k).
Definition has_chan (k : lcase) : bool :=
  existsb (fun o => existsb (fun col => match col with Chan _ => true | _ => false end) (lo_frame o)) (lc_obs k).
(* non-trivial: some frame shows a keyboard highlight and some frame shows a MIDI-input highlight *)
Definition led_nontrivial (k : lcase) : bool := has_colour Active k && (has_colour ActiveExternal k || has_chan k).
