(* Correspondence runner for the device state machine: observations recorded from the real Device (per event: MIDI bytes,
   termination signals, State()) are compared with the model inside the kernel VM, through per-property views. *)
From Coq Require Import List NArith ZArith Bool.
From HIDI Require Import Base.AList Model.Device.
Import ListNotations.
Open Scope N_scope.

Record ostep := { o_midi : list msg; o_sigs : nat; o_oct : Z; o_semi : Z; o_ch : N; o_notes : nat; o_map : N }.

Definition observe (c : config) (s : state) (o : out) : ostep :=
  {| o_midi := midi o; o_sigs := sigs o; o_oct := octave s; o_semi := semitone s; o_ch := channel s;
     o_notes := (length (noteT s) + length (analogT s))%nat; o_map := m_name (cur_mapping c s) |}.

Fixpoint trace_from (c : config) (s : state) (h : list ev) : state * list ostep :=
  match h with
  | [] => (s, [])
  | e :: r => let '(s1, o) := step c s e in
              let '(s2, os) := trace_from c s1 r in (s2, observe c s1 o :: os)
  end.

Definition model_trace (c : config) (h : list ev) : list ostep * list msg :=
  let '(s, os) := trace_from c (init c) h in (os, snd (cleanup c s)).

(* ---- equality tests *)
Fixpoint nlist_eqb (a b : list N) : bool :=
  match a, b with
  | [], [] => true
  | x :: a', y :: b' => (x =? y) && nlist_eqb a' b'
  | _, _ => false
  end.
Fixpoint msgs_eqb (a b : list msg) : bool :=
  match a, b with
  | [], [] => true
  | x :: a', y :: b' => nlist_eqb x y && msgs_eqb a' b'
  | _, _ => false
  end.
Definition ostep_eqb (a b : ostep) : bool :=
  msgs_eqb (o_midi a) (o_midi b) && Nat.eqb (o_sigs a) (o_sigs b) && (o_oct a =? o_oct b)%Z && (o_semi a =? o_semi b)%Z
  && (o_ch a =? o_ch b) && Nat.eqb (o_notes a) (o_notes b) && (o_map a =? o_map b).

(* multiset equality of message lists (clean-up order follows Go map iteration) *)
Fixpoint remove_first (m : msg) (l : list msg) : option (list msg) :=
  match l with
  | [] => None
  | x :: r => if nlist_eqb m x then Some r else
                match remove_first m r with Some r' => Some (x :: r') | None => None end
  end.
Fixpoint msgs_perm (a b : list msg) : bool :=
  match a with
  | [] => match b with [] => true | _ => false end
  | x :: a' => match remove_first x b with Some b' => msgs_perm a' b' | None => false end
  end.

Record kcase := { kc_cfg : config; kc_events : list ev; kc_obs : list ostep; kc_cleanup : list msg }.

(* first index at which two step lists differ under [eq]; [None] = equal *)
Fixpoint first_diff {A} (eq : A -> A -> bool) (i : nat) (a b : list A) : option nat :=
  match a, b with
  | [], [] => None
  | x :: a', y :: b' => if eq x y then first_diff eq (S i) a' b' else Some i
  | _, _ => Some i
  end.

(* full comparison (development aid and the strictest view) *)
Definition full_mismatch (k : kcase) : option nat :=
  let '(os, cl) := model_trace (kc_cfg k) (kc_events k) in
  match first_diff ostep_eqb 0 os (kc_obs k) with
  | Some i => Some i
  | None => if msgs_perm cl (kc_cleanup k) then None else Some (length os)
  end.

Fixpoint indexed_failures {A} (f : A -> bool) (i : nat) (l : list A) : list nat :=
  match l with
  | [] => []
  | x :: r => (if f x then [] else [i]) ++ indexed_failures f (S i) r
  end.

(* ====================================================================== C14: exit sequence *)
(* Monitor on the implementation's observations; the expected signal is computed from the history alone
   (the function the theorems C14_never_before / C14_fires_and_swallows are about). *)
Definition same_visible (a b : ostep) : bool :=
  (o_oct a =? o_oct b)%Z && (o_semi a =? o_semi b)%Z && (o_ch a =? o_ch b) && Nat.eqb (o_notes a) (o_notes b) && (o_map a =? o_map b).

Definition next_keys_r (kt : list N) (e : ev) : list N :=
  match e with
  | EKey _ k v => if (v =? 2)%Z then kt else if (v =? 1)%Z then sadd N.eqb k kt else srem N.eqb k kt
  | _ => kt
  end.

Fixpoint c14_scan (c : config) (kt : list N) (prev : ostep) (h : list ev) (obs : list ostep) (i : nat) : list nat :=
  match h, obs with
  | e :: r, o :: os =>
      let kt' := next_keys_r kt e in
      let expect := match e with EKey _ _ v => (v =? 1)%Z && exit_complete c kt' | _ => false end in
      let ok := if expect then Nat.eqb (o_sigs o) 1 && match o_midi o with [] => true | _ => false end && same_visible prev o
                else Nat.eqb (o_sigs o) 0 in
      (if ok then [] else [i]) ++ c14_scan c kt' o r os (S i)
  | [], [] => []
  | _, _ => [i]
  end.

Definition c14_failures (k : kcase) : list nat :=
  c14_scan (kc_cfg k) [] (observe (kc_cfg k) (init (kc_cfg k)) silent) (kc_events k) (kc_obs k) 0.

(* view comparison: model signal counts vs implementation signal counts *)
Definition c14_mismatch (k : kcase) : option nat :=
  first_diff Nat.eqb 0 (map o_sigs (fst (model_trace (kc_cfg k) (kc_events k)))) (map o_sigs (kc_obs k)).

Definition c14_fired (k : kcase) : bool := existsb (fun o => negb (Nat.eqb (o_sigs o) 0)) (kc_obs k).

Fixpoint enum_fail {A B} (f : A -> list B) (i : nat) (l : list A) : list (nat * list B) :=
  match l with
  | [] => []
  | x :: r => match f x with [] => enum_fail f (S i) r | fl => (i, fl) :: enum_fail f (S i) r end
  end.
Fixpoint enum_some {A B} (f : A -> option B) (i : nat) (l : list A) : list (nat * B) :=
  match l with
  | [] => []
  | x :: r => match f x with None => enum_some f (S i) r | Some b => (i, b) :: enum_some f (S i) r end
  end.
Fixpoint enum_true {A} (f : A -> bool) (i : nat) (l : list A) : list nat :=
  match l with
  | [] => []
  | x :: r => (if f x then [i] else []) ++ enum_true f (S i) r
  end.
